//! Circuit layer checks (C04–C09, C15, C16, C18–C20): shared engines.
pub mod e2;
pub mod e6;
pub mod ops_hash;
pub mod ops_foreign;
pub mod ops_ecc;
pub mod zkir_gen;
pub mod ops_native;
pub mod regex_ref;
pub mod s3;
