#![no_main]
//! `ZkirRelation::read_relation` (bincode) + `used_chips` on programs that load.
//! Oversized allocations are caught by libFuzzer's -malloc_limit_mb.
use libfuzzer_sys::fuzz_target;
use midnight_zk_stdlib::Relation;
use midnight_zkir::ZkirRelation;

fuzz_target!(|data: &[u8]| {
    c16_fuzz::init();
    let res = c16_fuzz::guard("ZkirRelation::read_relation", || {
        let mut r = data;
        <ZkirRelation as Relation>::read_relation(&mut r)
    });
    if let Some(Ok(rel)) = res {
        c16_fuzz::zkir_followups(&rel);
    }
});
