#!/bin/bash
# Offline build of the whole harness (all property binaries).
set -e
cd "$(dirname "$0")/harness"
export CARGO_NET_OFFLINE=true
cargo build --release --offline --workspace --bins
