use group::{Curve, Group};
use midnight_curves::k256::{K256Affine, K256};
fn try_batch(name: &str, v: &[K256]) {
    let mut out = vec![K256Affine::identity(); v.len()];
    let r = std::panic::catch_unwind(std::panic::AssertUnwindSafe(|| K256::batch_normalize(v, &mut out)));
    println!("{name}: {}", if r.is_ok() { "ok" } else { "PANIC" });
}
fn main() {
    std::panic::set_hook(Box::new(|_| {}));
    let g = K256::generator();
    let g2 = g.double();
    try_batch("[]", &[]);
    try_batch("[G]", &[g]);
    try_batch("[identity()]", &[K256::identity()]);
    try_batch("[G, identity()]", &[g, K256::identity()]);
    try_batch("[G - G]", &[g - g]);
    try_batch("[2G - (G+G)]", &[g2 - (g + g)]);
    try_batch("[G, G-G, 2G]", &[g, g - g, g2]);
    try_batch("[G + (-G)]", &[g + (-g)]);
    let a = g.to_affine();
    try_batch("[G - G_affine]", &[g - a]);
    println!("to_affine(G-G) == identity: {}", (g - g).to_affine() == K256Affine::identity());
    println!("(G-G).is_identity: {}", bool::from((g - g).is_identity()));
}
