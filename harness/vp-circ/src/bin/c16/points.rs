//! Special G1/G2 encodings for element-level corruptions, and predicates on
//! decoded points. Encodings (both formats are the zcash/blst serialization):
//! compressed = x big-endian (G2: c1‖c0) with flag bits 0x80 (compressed),
//! 0x40 (infinity), 0x20 (sort) in byte 0; "raw" = uncompressed x‖y, flag bits
//! compression = 0.

use std::sync::OnceLock;

use group::{Group, GroupEncoding};
use midnight_curves::{serde::SerdeObject, G1Affine, G1Projective, G2Affine, G2Projective};

use crate::types::ElemKind;

/// p, big-endian
const P_BE: [u8; 48] = [
    0x1a, 0x01, 0x11, 0xea, 0x39, 0x7f, 0xe6, 0x9a, 0x4b, 0x1b, 0xa7, 0xb6, 0x43, 0x4b, 0xac, 0xd7, 0x64, 0x77, 0x4b, 0x84, 0xf3, 0x85, 0x12, 0xbf, 0x67, 0x30, 0xd2, 0xa0, 0xf6, 0xb0, 0xf6, 0x24, 0x1e, 0xab, 0xff, 0xfe, 0xb1, 0x53, 0xff, 0xff, 0xb9, 0xfe, 0xff, 0xff, 0xff, 0xff, 0xaa, 0xab,
];

fn g1_unchecked(c: &[u8]) -> Option<G1Affine> {
    let mut r = <G1Affine as GroupEncoding>::Repr::default();
    r.as_mut().copy_from_slice(c);
    Option::from(G1Affine::from_bytes_unchecked(&r))
}
fn g2_unchecked(c: &[u8]) -> Option<G2Affine> {
    let mut r = <G2Affine as GroupEncoding>::Repr::default();
    r.as_mut().copy_from_slice(c);
    Option::from(G2Affine::from_bytes_unchecked(&r))
}

struct Special {
    off_curve: Vec<u8>,       // compressed
    non_subgroup_c: Vec<u8>,  // compressed
    non_subgroup_r: Vec<u8>,  // raw
    other_c: Vec<u8>,
    other_r: Vec<u8>,
}

fn special(g2: bool) -> &'static Special {
    static S1: OnceLock<Special> = OnceLock::new();
    static S2: OnceLock<Special> = OnceLock::new();
    let cell = if g2 { &S2 } else { &S1 };
    cell.get_or_init(|| {
        let len = if g2 { 96 } else { 48 };
        let mut off = None;
        let mut ns = None;
        for ctr in 1u16..2000 {
            let mut c = vec![0u8; len];
            c[0] = 0x80;
            c[len - 2] = (ctr >> 8) as u8;
            c[len - 1] = ctr as u8;
            let (on, sub, raw) = if g2 {
                match g2_unchecked(&c) {
                    Some(p) => (true, bool::from(p.is_torsion_free()), p.to_raw_bytes()),
                    None => (false, false, vec![]),
                }
            } else {
                match g1_unchecked(&c) {
                    Some(p) => (true, bool::from(p.is_torsion_free()), p.to_raw_bytes()),
                    None => (false, false, vec![]),
                }
            };
            if !on && off.is_none() {
                off = Some(c.clone());
            }
            if on && !sub && ns.is_none() {
                ns = Some((c.clone(), raw));
            }
            if off.is_some() && ns.is_some() {
                break;
            }
        }
        let (other_c, other_r) = if g2 {
            let p = G2Projective::generator() * midnight_curves::Fq::from(7);
            (p.to_bytes().as_ref().to_vec(), G2Affine::from(p).to_raw_bytes())
        } else {
            let p = G1Projective::generator() * midnight_curves::Fq::from(7);
            (p.to_bytes().as_ref().to_vec(), G1Affine::from(p).to_raw_bytes())
        };
        let (non_subgroup_c, non_subgroup_r) = ns.expect("no non-subgroup point found");
        Special { off_curve: off.expect("no off-curve x found"), non_subgroup_c, non_subgroup_r, other_c, other_r }
    })
}

/// The replacement encoding for an element (same length as `cur`).
pub fn element(g2: bool, compressed: bool, kind: ElemKind, cur: &[u8]) -> Vec<u8> {
    let s = special(g2);
    let len = cur.len();
    let coord = if g2 { 96 } else { 48 };
    let mut v = cur.to_vec();
    match kind {
        ElemKind::OtherValid => v = if compressed { s.other_c.clone() } else { s.other_r.clone() },
        ElemKind::Identity => {
            v = vec![0u8; len];
            v[0] = if compressed { 0xc0 } else { 0x40 };
        }
        ElemKind::OffCurve => {
            if compressed {
                v = s.off_curve.clone();
            } else {
                // a valid x with y+1 (mod 2^8 on the last byte): not on the curve
                v = s.other_r.clone();
                v[len - 1] ^= 1;
            }
        }
        ElemKind::NonSubgroup => v = if compressed { s.non_subgroup_c.clone() } else { s.non_subgroup_r.clone() },
        ElemKind::NonCanonical => {
            // first coordinate (G2: c1) := p, i.e. the non-canonical encoding of 0
            let flags = cur[0] & 0xe0;
            v[..48].copy_from_slice(&P_BE);
            v[0] |= flags;
            let _ = coord;
        }
        ElemKind::AllFF => v = vec![0xff; len],
        ElemKind::Zeros => v = vec![0; len],
        ElemKind::FlipCompressionFlag => v[0] ^= 0x80,
        ElemKind::SetInfinityFlag => v[0] |= 0x40,
        ElemKind::FlipSortFlag => v[0] ^= 0x20,
    }
    v
}

pub fn g1_ok(p: &G1Projective, need_subgroup: bool) -> Result<(), String> {
    let a = G1Affine::from(*p);
    if !bool::from(midnight_curves::CurveAffine::is_on_curve(&a)) {
        return Err(format!("G1 point not on the curve: {a:?}"));
    }
    if need_subgroup && !bool::from(a.is_torsion_free()) {
        return Err(format!("G1 point outside the prime-order subgroup: {a:?}"));
    }
    Ok(())
}

/// Predicates on a G2 element given by its accepted encoding.
pub fn g2_bytes_ok(bytes: &[u8], compressed: bool, need_subgroup: bool) -> Result<(), String> {
    let p = if compressed {
        g2_unchecked(bytes)
    } else if bytes.len() == 192 {
        // from_raw_bytes_unchecked unwraps internally: only call it on an encoding blst can parse
        vpcore::catch(|| G2Affine::from_raw_bytes_unchecked(bytes)).ok()
    } else {
        None
    };
    let Some(p) = p else { return Err("accepted encoding does not parse even unchecked".into()) };
    use midnight_curves::CurveAffine;
    if !bool::from(CurveAffine::is_on_curve(&p)) {
        return Err(format!("G2 point not on the curve: {p:?}"));
    }
    if need_subgroup && !bool::from(p.is_torsion_free()) {
        return Err(format!("G2 point outside the prime-order subgroup: {p:?}"));
    }
    Ok(())
}
