//! C04 — native-field gadgets are complete and sound (engine smoke version;
//! the full catalogue lives in vp_circ::ops_native).

use midnight_circuits::instructions::*;
use midnight_circuits::types::{AssignedNative, InnerValue};
use midnight_proofs::{circuit::{Layouter, Value}, plonk::Error};
use midnight_zk_stdlib::ZkStdLib;
use num_bigint::BigUint;
use num_traits::{One, Zero};
use num_integer::Integer;
use proptest::prelude::*;
use serde::{Deserialize, Serialize};
use vp_circ::e2::*;
use vpcore::{CaseResult, Verdict};

#[derive(Clone)]
struct DivRem { d: u64 }
impl Op for DivRem {
    fn name(&self) -> String { format!("div_rem(d={},bound=None)", self.d) }
    fn circuit<L: Layouter<F>>(&self, std: &ZkStdLib, l: &mut L, x: Value<Vec<BigUint>>) -> Result<(), Error> {
        let a: AssignedNative<F> = std.assign(l, x.map(|x| big_to_f(&x[0])))?;
        std.constrain_as_public_input(l, &a)?;
        let (q, r) = std.div_rem(l, &a, BigUint::from(self.d), None)?;
        std.constrain_as_public_input(l, &q)?;
        std.constrain_as_public_input(l, &r)
    }
    fn reference(&self, x: &[BigUint]) -> Option<Vec<F>> {
        let v = &x[0] % modulus();
        let (q, r) = v.div_rem(&BigUint::from(self.d));
        Some(vec![big_to_f(&v), big_to_f(&q), big_to_f(&r)])
    }
    fn n_input_scalars(&self) -> usize { 1 }
    fn classify(&self, public: &[F]) -> Option<String> {
        // wrap-around shape: d*q + r = x + p over the integers with r < d
        let (x, q, r) = (f_to_big(&public[0]), f_to_big(&public[1]), f_to_big(&public[2]));
        let d = BigUint::from(self.d);
        if &d * &q + &r == &x + modulus() && r < d { Some("wraparound-mod-p".into()) } else { None }
    }
}

#[derive(Clone)]
struct IsZero;
impl Op for IsZero {
    fn name(&self) -> String { "is_zero".into() }
    fn circuit<L: Layouter<F>>(&self, std: &ZkStdLib, l: &mut L, x: Value<Vec<BigUint>>) -> Result<(), Error> {
        let a: AssignedNative<F> = std.assign(l, x.map(|x| big_to_f(&x[0])))?;
        std.constrain_as_public_input(l, &a)?;
        let b = std.is_zero(l, &a)?;
        std.constrain_as_public_input(l, &b)
    }
    fn reference(&self, x: &[BigUint]) -> Option<Vec<F>> {
        let v = &x[0] % modulus();
        Some(vec![big_to_f(&v), if v.is_zero() { F::from(1) } else { F::from(0) }])
    }
    fn n_input_scalars(&self) -> usize { 1 }
}

#[derive(Clone, Debug, Serialize, Deserialize)]
struct Case { x: u64, big: bool, seed: u64 }

fn main() {
    vpcore::main("C04", "fault_enumeration", (1800, 14400), |p| {
        let strat = || (prop_oneof![0u64..20, any::<u64>()], any::<bool>(), any::<u64>()).prop_map(|(x, big, seed)| Case { x, big, seed }).boxed();
        let input = |c: &Case| -> Vec<BigUint> {
            if c.big { vec![modulus() - BigUint::from(c.x % 1000) - BigUint::one()] } else { vec![BigUint::from(c.x)] }
        };
        for d in [5u64, 7, 1000] {
            let op = DivRem { d };
            p.sub(&format!("div_rem{d}.complete"), "smoke", 24, 8, strat, |c| check_complete_and_s1(&op, &input(c), c.seed));
            p.sub(&format!("div_rem{d}.s2"), "smoke", 16, 8, strat, |c| -> CaseResult {
                let (st, v) = check_s2(&op, &input(c), c.seed, 6, true, false)?;
                Ok(v.with(format!("rej{} ok{} abort{} noeff{}", st.rejected.min(1), st.accepted_correct.min(1), st.aborted.min(1), st.no_effect.min(1))))
            });
        }
        let op = IsZero;
        p.sub("is_zero.complete", "smoke", 24, 8, strat, |c| check_complete_and_s1(&op, &input(c), c.seed));
        p.sub("is_zero.s2", "smoke", 16, 8, strat, |c| -> CaseResult { let (_, v) = check_s2(&op, &input(c), c.seed, 8, true, false)?; Ok(v) });
        let _ = Verdict::trivial("x");
    });
}
