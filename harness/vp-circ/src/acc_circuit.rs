//! A circuit that witnesses synthetic accumulators of the in-circuit verifier (BLS12-381
//! self-emulation) and exposes them as public inputs, all plain or with committed scalars.
//! Used by C08 (encoding of the accumulator type); C20 has its own copy next to the
//! verifier-gadget circuit.

use std::collections::BTreeMap;

use ff::Field;
use group::Group;
use midnight_circuits::{
    ecc::{
        curves::CircuitCurve,
        foreign::{nb_foreign_ecc_chip_columns, ForeignEccChip, ForeignEccConfig},
    },
    field::{
        decomposition::{
            chip::{P2RDecompositionChip, P2RDecompositionConfig},
            pow2range::Pow2RangeChip,
        },
        foreign::FieldChip,
        native::NB_ARITH_COLS,
        NativeChip, NativeConfig, NativeGadget,
    },
    hash::poseidon::{PoseidonChip, PoseidonConfig, NB_POSEIDON_ADVICE_COLS, NB_POSEIDON_FIXED_COLS},
    instructions::*,
    types::ComposableChip,
    verifier::{self, Accumulator, AssignedAccumulator, BlstrsEmulation, Msm, SelfEmulation, VerifierGadget},
};
use midnight_curves::G1Projective;
use midnight_proofs::{
    circuit::{Layouter, SimpleFloorPlanner, Value},
    plonk::{Circuit, ConstraintSystem, Error},
};
use rand_chacha::ChaCha20Rng;

pub type S = BlstrsEmulation;
pub type F = <S as SelfEmulation>::F;
pub type C = <S as SelfEmulation>::C;
type CBase = <C as CircuitCurve>::Base;
type NG = NativeGadget<F, P2RDecompositionChip<F>, NativeChip<F>>;

pub type AccConfig = (NativeConfig, P2RDecompositionConfig, ForeignEccConfig<C>, PoseidonConfig<F>);

/// k needed by the circuit (16-bit range table).
pub const ACC_K: u32 = 17;

#[derive(Clone, Debug)]
pub struct AccCircuit {
    pub names: Vec<String>,
    pub lens: (usize, usize),
    pub acc: Value<Accumulator<S>>,
    /// expose the right-hand side scalars through the committed instance column
    pub committed_scalars: bool,
}

impl Circuit<F> for AccCircuit {
    type Config = AccConfig;
    type FloorPlanner = SimpleFloorPlanner;
    type Params = ();

    fn without_witnesses(&self) -> Self {
        unreachable!()
    }

    fn configure(meta: &mut ConstraintSystem<F>) -> Self::Config {
        let nb_advice_cols = nb_foreign_ecc_chip_columns::<F, C, C, NG>();
        let nb_fixed_cols = NB_ARITH_COLS + 4;
        let advice_columns: Vec<_> = (0..nb_advice_cols).map(|_| meta.advice_column()).collect();
        let fixed_columns: Vec<_> = (0..nb_fixed_cols).map(|_| meta.fixed_column()).collect();
        let committed_instance_column = meta.instance_column();
        let instance_column = meta.instance_column();
        let native_config = NativeChip::configure(
            meta,
            &(
                advice_columns[..NB_ARITH_COLS].try_into().unwrap(),
                fixed_columns[..NB_ARITH_COLS + 4].try_into().unwrap(),
                [committed_instance_column, instance_column],
            ),
        );
        let core_decomp_config = {
            let pow2_config = Pow2RangeChip::configure(meta, &advice_columns[1..NB_ARITH_COLS]);
            P2RDecompositionChip::configure(meta, &(native_config.clone(), pow2_config))
        };
        let base_config = FieldChip::<F, CBase, C, NG>::configure(meta, &advice_columns);
        let curve_config = ForeignEccChip::<F, C, C, NG, NG>::configure(meta, &base_config, &advice_columns);
        let poseidon_config = PoseidonChip::configure(
            meta,
            &(
                advice_columns[..NB_POSEIDON_ADVICE_COLS].try_into().unwrap(),
                fixed_columns[..NB_POSEIDON_FIXED_COLS].try_into().unwrap(),
            ),
        );
        (native_config, core_decomp_config, curve_config, poseidon_config)
    }

    fn synthesize(&self, config: Self::Config, mut layouter: impl Layouter<F>) -> Result<(), Error> {
        let native_chip = <NativeChip<F> as ComposableChip<F>>::new(&config.0, &());
        let core_decomp_chip = P2RDecompositionChip::new(&config.1, &16);
        let native_gadget = NativeGadget::new(core_decomp_chip.clone(), native_chip.clone());
        let curve_chip = ForeignEccChip::new(&config.2, &native_gadget, &native_gadget);
        let poseidon_chip = PoseidonChip::new(&config.3, &native_chip);
        let verifier_chip = VerifierGadget::<S>::new(&curve_chip, &native_gadget, &poseidon_chip);
        let acc = AssignedAccumulator::<S>::assign(&mut layouter, &curve_chip, &native_gadget, self.lens.0, self.lens.1, &self.names, &self.names, self.acc.clone())?;
        if self.committed_scalars {
            verifier_chip.constrain_acc_as_public_input_with_committed_scalars(&mut layouter, &acc)?;
        } else {
            verifier_chip.constrain_as_public_input(&mut layouter, &acc)?;
        }
        core_decomp_chip.load(&mut layouter)
    }
}

/// A synthetic accumulator: `terms` variable bases a side, one distinct scalar per canonical
/// fixed-base name of a key with the given numbers of commitments.
pub fn synthetic(names: &[String], terms: (usize, usize), rng: &mut ChaCha20Rng) -> Accumulator<S> {
    let g = G1Projective::generator();
    let mut side = |t: usize| {
        let bases: Vec<C> = (0..t).map(|_| g * F::random(&mut *rng)).collect();
        let scalars: Vec<F> = (0..t).map(|_| F::random(&mut *rng)).collect();
        let fixed: BTreeMap<String, F> = names.iter().map(|n| (n.clone(), F::random(&mut *rng))).collect();
        Msm::<S>::new(&bases, &scalars, &fixed)
    };
    Accumulator::<S>::new(side(terms.0), side(terms.1))
}

pub fn names(n_fixed: usize, n_perm: usize) -> Vec<String> {
    verifier::fixed_base_names::<S>("inner_vk", n_fixed, n_perm)
}
