//! The sub-checks of C16 (parent side: case lists and strategies).

use proptest::prelude::*;
use vp_circ::e6::{Fix, ALL_FIX};
use vpcore::{Prop, SplitMix};

use crate::pool::Pool;
use crate::types::{Bundle, Case, ElemKind, Fmt, Mut, Obj, ELEM_KINDS, FMTS};
use crate::zk;

const T: usize = 16;
const NT: &str = "non-trivial = the input differs from the valid encoding in <= 8 byte positions over the common prefix (truncations/appended suffixes: 0) or it decodes/loads; byte-identical copies of the valid encoding are trivial; distinct by case";

fn fix_strategy() -> impl Strategy<Value = Fix> {
    (0usize..3).prop_map(|i| ALL_FIX[i])
}
fn fmt_strategy() -> impl Strategy<Value = Fmt> {
    prop_oneof![Just(Fmt::Processed), Just(Fmt::RawBytes)]
}
fn flips(max: usize) -> impl Strategy<Value = Mut> {
    proptest::collection::vec((any::<u16>(), 0u8..8), 1..=max).prop_map(Mut::Flips)
}

/// key formats per fixture for the header enumerations: quick = Processed for
/// every fixture + RawBytes for one; thorough = all.
fn header_objs(p: &Prop) -> Vec<(Fix, Fmt)> {
    let mut v = vec![];
    for fix in ALL_FIX {
        for fmt in FMTS {
            if !p.quick() || fmt == Fmt::Processed || fix == Fix::Affine3 {
                v.push((fix, fmt));
            }
        }
    }
    v
}

fn set_items(objs: &[Obj], range: std::ops::Range<u32>) -> Vec<Case> {
    let mut v = vec![];
    for o in objs {
        for pos in range.clone() {
            for val in 0..=255u8 {
                v.push(Case { obj: o.clone(), m: Mut::Set { pos, val } });
            }
        }
    }
    v
}

fn truncations(b: &Bundle, obj: &Obj, stride: usize) -> Vec<Case> {
    let len = b.base(obj).len();
    (0..len).filter(|n| stride <= 1 || n % stride == 0 || *n + 8 >= len || *n < 64).map(|n| Case { obj: obj.clone(), m: Mut::Truncate(n as u32) }).collect()
}

fn appends(seed: u64) -> Vec<Mut> {
    let mut r = SplitMix(seed ^ 0xa99e);
    vec![Mut::Append(vec![0]), Mut::Append(vec![0xff]), Mut::Append(vec![0; 48]), Mut::Append(r.bytes(48)), Mut::Append(r.bytes(96)), Mut::Append(r.bytes(1000))]
}

pub fn run_all(p: &Prop, b: &Bundle, pool: &Pool) {
    let run = |c: &Case| pool.run(b, c);
    let seed = p.seed;
    let n_zkir = b.n_zkir() as u8;

    // ---- every valid encoding through its entry points ------------------------
    {
        let mut items = vec![];
        for fix in ALL_FIX {
            for fmt in FMTS {
                items.push(Obj::Vk { fix, fmt });
                items.push(Obj::PlonkVk { fix, fmt });
                items.push(Obj::Pk { fix, fmt });
                items.push(Obj::PlonkPk { fix, fmt });
            }
            items.push(Obj::Arch { fix });
            for poseidon in [false, true] {
                items.push(Obj::Proof { fix, poseidon, vk_fix: fix });
            }
        }
        for fmt in FMTS {
            items.push(Obj::Params { fmt });
            items.push(Obj::FullParams { fmt });
        }
        for prog in 0..n_zkir {
            items.push(Obj::ZkirJson { prog });
            items.push(Obj::ZkirBin { prog });
        }
        let items: Vec<Case> = items.into_iter().map(|obj| Case { obj, m: Mut::Identity }).collect();
        p.enumerate("valid", "every valid encoding of the bundle decodes / verifies / loads through the same worker path (sanity of the harness); non-trivial = always", items, T, true, run);
    }

    // ---- MidnightVK ---------------------------------------------------------------
    {
        let mut items = vec![];
        for fix in ALL_FIX {
            for fmt in FMTS {
                items.extend(truncations(b, &Obj::Vk { fix, fmt }, 1));
            }
        }
        p.enumerate("vk:truncate", &format!("MidnightVK::read on every proper prefix of every fixture key in Processed and RawBytes (exhaustive); {NT}"), items, T, true, run);
    }
    let hobjs: Vec<Obj> = header_objs(p).into_iter().map(|(fix, fmt)| Obj::Vk { fix, fmt }).collect();
    let hdr = "MidnightVK::read with one header byte replaced by each of the 256 values (exhaustive per listed key; quick: Processed keys of all fixtures + one RawBytes key), decoded keys are then used by verify/batch_verify";
    for (name, range, what) in [
        ("vk:header:stdlib-version", 0u32..4, "u32 LE stdlib version, offsets 0..4"),
        ("vk:header:arch-flags", 4..15, "11 bincode bool bytes of ZkStdLibArch, offsets 4..15"),
        ("vk:header:nr_pow2range_cols", 15..16, "ZkStdLibArch.nr_pow2range_cols, offset 15 (regression F9)"),
        ("vk:header:max_bit_len+nb_public_inputs", 16..21, "max_bit_len (16), nb_public_inputs u32 LE (17..21)"),
        ("vk:header:plonk-version", 21..22, "plonk vk version byte, offset 21"),
        ("vk:header:k", 22..23, "k byte, offset 22 (regression F10)"),
        ("vk:header:num_fixed", 23..27, "fixed-commitment count u32 LE, offsets 23..27 (regression F11)"),
    ] {
        p.enumerate(name, &format!("{hdr}; field: {what}; {NT}"), set_items(&hobjs, range), T, true, run);
    }
    {
        let mut items = vec![];
        for fix in ALL_FIX {
            for fmt in FMTS {
                let obj = Obj::Vk { fix, fmt };
                let base = b.base(&obj);
                let nf = u32::from_le_bytes([base[23], base[24], base[25], base[26]]);
                let total = ((base.len() - 27) / fmt.g1()) as u32;
                for idx in [0, 1, nf - 1, nf, total - 1] {
                    for kind in ELEM_KINDS {
                        items.push(Case { obj: obj.clone(), m: Mut::Element { idx, kind } });
                    }
                }
                // count field set to neighbouring values with the body unchanged / truncated accordingly
                for d in [-2i64, -1, 1, 2] {
                    let nv = (nf as i64 + d) as u32;
                    let bytes = nv.to_le_bytes();
                    items.push(Case { obj: obj.clone(), m: Mut::SetMany((0..4).map(|i| (23 + i as u32, bytes[i])).collect()) });
                }
                for nv in [0u32, 0x7fff_ffff, 0xffff_ffff, 0x0100_0000] {
                    let bytes = nv.to_le_bytes();
                    items.push(Case { obj: obj.clone(), m: Mut::SetMany((0..4).map(|i| (23 + i as u32, bytes[i])).collect()) });
                }
            }
        }
        p.enumerate("vk:element", &format!("MidnightVK::read with commitment i in {{first, second, last fixed, first permutation, last}} replaced by another valid point / identity / off-curve x / on-curve non-subgroup point / coordinate >= p / all-0xFF / zeros / flag-bit edits, and the fixed-commitment count set to count±1, ±2, 0, 2^24, 2^31-1, 2^32-1; {NT}"), items, T, false, run);
    }
    p.sub(
        "vk:bitflips",
        &format!("MidnightVK::read after 1..4 random bit flips in the body (commitments) of a fixture key, both formats; {NT}"),
        p.tier.pick(3000, 60000),
        T,
        || (fix_strategy(), fmt_strategy(), flips(4)).prop_map(|(fix, fmt, m)| Case { obj: Obj::Vk { fix, fmt }, m }).boxed(),
        run,
    );
    {
        let mut items = vec![];
        for fix in ALL_FIX {
            for fmt in FMTS {
                let obj = Obj::Vk { fix, fmt };
                let len = b.base(&obj).len();
                for other in ALL_FIX {
                    if other == fix {
                        continue;
                    }
                    let olen = b.base(&Obj::Vk { fix: other, fmt }).len();
                    let mut cuts: Vec<usize> = (0..27).collect();
                    let mut at = 27usize;
                    while at < len.min(olen) {
                        cuts.push(at);
                        at += fmt.g1();
                    }
                    for at in cuts {
                        items.push(Case { obj: obj.clone(), m: Mut::Splice { other, at: at as u32 } });
                    }
                    for at in [30usize, 27 + fmt.g1() / 2, 27 + fmt.g1() * 3 + 1] {
                        items.push(Case { obj: obj.clone(), m: Mut::Splice { other, at: at as u32 } });
                    }
                }
                for m in appends(seed ^ (fix as u64) << 8 ^ fmt as u64) {
                    items.push(Case { obj: obj.clone(), m });
                }
            }
        }
        p.enumerate("vk:splice+append", &format!("MidnightVK::read on splices of two valid fixture keys (cut at every header byte and every commitment boundary, plus mid-element cuts) and on valid keys followed by 1..1000 extra bytes; {NT}"), items, T, false, run);
    }

    // ---- plonk::VerifyingKey directly ------------------------------------------------
    {
        let pobjs: Vec<Obj> = header_objs(p).into_iter().map(|(fix, fmt)| Obj::PlonkVk { fix, fmt }).collect();
        let mut items = set_items(&pobjs, 0..6);
        for fix in ALL_FIX {
            for fmt in FMTS {
                let obj = Obj::PlonkVk { fix, fmt };
                items.extend(truncations(b, &obj, if p.quick() { 7 } else { 1 }));
                for idx in [0u32, 1] {
                    for kind in ELEM_KINDS {
                        items.push(Case { obj: obj.clone(), m: Mut::Element { idx, kind } });
                    }
                }
                for m in appends(seed) {
                    items.push(Case { obj: obj.clone(), m });
                }
            }
        }
        p.enumerate("plonk-vk", &format!("plonk::VerifyingKey::read::<_, MidnightCircuit<Fix>> (params = the fixture's architecture) and read_from_cs on the plonk part of a fixture key: all 256 values of each of the 6 header bytes (version, k, count), truncations (quick: every 7th offset + both ends), element corruptions, appended bytes; both entry points must agree; {NT}"), items, T, false, run);
    }

    // ---- ParamsVerifierKZG ---------------------------------------------------------------
    {
        let mut items = vec![];
        for fmt in FMTS {
            let obj = Obj::Params { fmt };
            let len = b.base(&obj).len();
            items.extend(truncations(b, &obj, 1));
            for pos in 0..len {
                for bit in 0..8u8 {
                    items.push(Case { obj: obj.clone(), m: Mut::Set { pos: pos as u32, val: b.base(&obj)[pos] ^ (1 << bit) } });
                }
            }
            for pos in [0usize, len / 2] {
                for val in 0..=255u8 {
                    items.push(Case { obj: obj.clone(), m: Mut::Set { pos: pos as u32, val } });
                }
            }
            for kind in ELEM_KINDS {
                items.push(Case { obj: obj.clone(), m: Mut::Element { idx: 0, kind } });
            }
            for m in appends(seed) {
                items.push(Case { obj: obj.clone(), m });
            }
        }
        p.enumerate("vparams", &format!("ParamsVerifierKZG::read in Processed and RawBytes: every truncation, every single-bit flip, all 256 values of the flag byte and of the first byte of the second coordinate, G2 element corruptions (other valid point, identity, off-curve, non-subgroup, coordinate >= p, 0xFF, flag edits), appended bytes; decoded parameters are used to verify a valid proof (accepted iff they equal the honest ones); {NT}"), items, T, false, run);
    }

    // ---- ZkStdLibArch descriptor ---------------------------------------------------------------
    {
        let objs = [Obj::Arch { fix: Fix::Affine3 }, Obj::Arch { fix: Fix::PoseidonPreimage }];
        let mut items = set_items(&objs, 0..16);
        for obj in &objs {
            items.extend(truncations(b, obj, 1));
            for m in appends(seed) {
                items.push(Case { obj: obj.clone(), m });
            }
        }
        p.enumerate("arch", &format!("ZkStdLibArch::read(_from_serialized_vk) on the 16-byte descriptor of two fixture keys: all 256 values of every byte (exhaustive), truncations, appended bytes; a descriptor that decodes is then configured (nb_points); {NT}"), items, T, true, run);
    }

    // ---- proofs ---------------------------------------------------------------
    {
        let mut items = vec![];
        for fix in ALL_FIX {
            for poseidon in [false, true] {
                let obj = Obj::Proof { fix, poseidon, vk_fix: fix };
                let stride = if !p.quick() || (fix == Fix::Affine3) { 1 } else { 5 };
                items.extend(truncations(b, &obj, stride));
                for m in appends(seed ^ fix as u64) {
                    items.push(Case { obj: obj.clone(), m });
                }
            }
        }
        p.enumerate("proof:truncate+append", &format!("verify (and batch_verify on a quarter of the cases) of every proper prefix of an honest proof (quick: every offset for one fixture, every 5th for the others, both transcript hashes) and of honest proofs followed by extra bytes, under the right key; accepted => byte-identical to the honest proof; {NT}"), items, T, false, run);
    }
    {
        let mut items = vec![];
        for fix in ALL_FIX {
            for poseidon in [false, true] {
                let obj = Obj::Proof { fix, poseidon, vk_fix: fix };
                let len = b.base(&obj).len();
                // points are 48 bytes, scalars 32: every element starts at a multiple of 16
                for off in (0..len.saturating_sub(31)).step_by(16) {
                    items.push(Case { obj: obj.clone(), m: Mut::AddModulus { off: off as u32 } });
                }
            }
        }
        p.enumerate("proof:noncanonical-scalar", &format!("verify of an honest proof in which the 32 bytes at each offset that is a multiple of 16 (every scalar of the proof starts at such an offset) are replaced by value + r, the non-canonical encoding of the same scalar (skipped when it does not fit 256 bits; a substituted scalar counts as one differing position); must return Err; {NT}"), items, T, true, run);
    }
    p.sub(
        "proof:bitflips",
        &format!("verify of an honest proof after 1..3 random bit flips (both hashes, right key); must return Err; {NT}"),
        p.tier.pick(2500, 40000),
        T,
        || (fix_strategy(), any::<bool>(), flips(3)).prop_map(|(fix, poseidon, m)| Case { obj: Obj::Proof { fix, poseidon, vk_fix: fix }, m }).boxed(),
        run,
    );
    {
        let mut items = vec![];
        let mut r = SplitMix(seed ^ 0x0717);
        for fix in ALL_FIX {
            for vk_fix in ALL_FIX {
                if vk_fix == fix {
                    continue;
                }
                for poseidon in [false, true] {
                    let obj = Obj::Proof { fix, poseidon, vk_fix };
                    let len = b.base(&obj).len() as u64;
                    items.push(Case { obj: obj.clone(), m: Mut::Identity });
                    for _ in 0..p.tier.pick(20, 200) {
                        items.push(Case { obj: obj.clone(), m: Mut::Truncate(r.below(len) as u32) });
                        items.push(Case { obj: obj.clone(), m: Mut::Flips(vec![(r.next_u64() as u16, (r.next_u64() & 7) as u8)]) });
                    }
                    items.push(Case { obj: obj.clone(), m: Mut::Append(r.bytes(64)) });
                }
            }
        }
        p.enumerate("proof:other-key", &format!("verify/batch_verify of (mutated) proofs of one fixture under the key of another fixture, with the instance of either; must return Err; {NT}"), items, T, false, run);
    }

    regression(p, b, pool);
    zkir_subs(p, b, pool);
    random_and_report_only(p, b, pool);
}

fn zkir_subs(p: &Prop, b: &Bundle, pool: &Pool) {
    let run = |c: &Case| pool.run(b, c);
    let n_zkir = b.n_zkir() as u8;
    // programs whose follow-ups are cheap
    let light: Vec<u8> = (0..n_zkir).filter(|i| *i != 4).collect();
    {
        let mut items = vec![];
        for prog in 0..n_zkir {
            items.extend(truncations(b, &Obj::ZkirJson { prog }, 1));
            items.extend(truncations(b, &Obj::ZkirBin { prog }, 1));
        }
        p.enumerate("zkir:truncate", &format!("ZkirRelation::read (JSON) and read_relation (bincode) on every proper prefix of 5 seed programs; programs that load: used_chips is judged; from_relation+min_k and public_inputs (empty / type-correct witness) run in the worker but are report-only (classes report-only:ir-compile:*); {NT}"), items, T, true, run);
    }
    {
        let items: Vec<Case> = (0..n_zkir).map(|prog| Case { obj: Obj::ZkirRoundtrip { prog }, m: Mut::Identity }).collect();
        p.enumerate("zkir-bincode:roundtrip", "the exact output of ZkirRelation::write_relation on each seed program must be accepted (and fully consumed) by read_relation; non-trivial = always", items, 1, true, run);
    }
    {
        let vals: &[u8] = if p.quick() { &[b'"', b'}', b',', b'0', 0x00, 0xff] } else { &[b'"', b'{', b'}', b'[', b']', b',', b':', b'0', b'9', b'-', b'\\', 0x00, 0xff, b' ', b'a'] };
        let mut items = vec![];
        for prog in &light {
            let obj = Obj::ZkirJson { prog: *prog };
            for pos in 0..b.base(&obj).len() {
                for val in vals {
                    items.push(Case { obj: obj.clone(), m: Mut::Set { pos: pos as u32, val: *val } });
                }
            }
        }
        p.enumerate("zkir-json:bytes", &format!("ZkirRelation::read on seed programs with each byte replaced by each of a set of structural / boundary bytes (quick 6, thorough 15 values), used_chips judged, compile follow-ups report-only; {NT}"), items, T, false, run);
    }
    {
        let mut items = vec![];
        for prog in 0..n_zkir {
            let obj = Obj::ZkirJson { prog };
            let base = b.base(&obj);
            for (idx, (a, _)) in zk::tokens(base).iter().enumerate() {
                let is_string = base[*a] == b'"';
                if prog == 4 && idx % 3 != 0 {
                    continue;
                }
                for with in zk::replacements(is_string) {
                    items.push(Case { obj: obj.clone(), m: Mut::Token { idx: idx as u32, with: with.to_string() } });
                }
            }
        }
        p.enumerate("zkir-json:tokens", &format!("ZkirRelation::read on seed programs with one JSON token (operation / type / variable name / number) replaced by other names, constants of every kind (incl. Jubjub constants without a Jubjub load: F12), other operations and types, small numbers, wrong JSON types; used_chips judged, compile follow-ups report-only; {NT}"), items, T, false, run);
    }
    {
        let mut items = vec![];
        for prog in 0..n_zkir {
            let obj = Obj::ZkirJson { prog };
            let base = b.base(&obj);
            for (idx, (a, _)) in zk::tokens(base).iter().enumerate() {
                if base[*a] == b'"' {
                    continue;
                }
                for with in zk::HUGE_NUMBERS {
                    items.push(Case { obj: obj.clone(), m: Mut::Token { idx: idx as u32, with: with.to_string() } });
                }
            }
        }
        p.enumerate("zkir-json:huge-sizes", &format!("ZkirRelation::read on seed programs with a declared size (Bytes(n), BigUint(n), into_bytes(n), mod_exp(n)) replaced by 2^16 .. 2^64; programs that load: used_chips judged; the compile follow-ups run under the allocation guard, report-only; {NT}"), items, T, false, run);
    }
    {
        let mut items = vec![];
        for prog in &light {
            let obj = Obj::ZkirBin { prog: *prog };
            let base = b.base(&obj);
            for pos in 0..base.len() {
                let structural = base[pos] < 0x20 || base[pos] > 0x7e;
                for val in 0..=255u8 {
                    if structural || !p.quick() || val % 32 == 5 || val >= 250 {
                        items.push(Case { obj: obj.clone(), m: Mut::Set { pos: pos as u32, val } });
                    }
                }
            }
        }
        p.enumerate("zkir-bincode:bytes", &format!("ZkirRelation::read_relation on seed programs: all 256 values of every structural byte (tags, lengths, varints) and (quick: 14, thorough: all 256) values of every name byte; used_chips judged, compile follow-ups report-only; {NT}"), items, T, false, run);
    }
}

fn random_and_report_only(p: &Prop, b: &Bundle, pool: &Pool) {
    let run = |c: &Case| pool.run(b, c);
    let n_zkir = b.n_zkir() as u8;
    let _ = n_zkir;
    let obj_strategy = || {
        prop_oneof![
            (fix_strategy(), fmt_strategy()).prop_map(|(fix, fmt)| Obj::Vk { fix, fmt }),
            (fix_strategy(), fmt_strategy()).prop_map(|(fix, fmt)| Obj::PlonkVk { fix, fmt }),
            fmt_strategy().prop_map(|fmt| Obj::Params { fmt }),
            Just(Obj::Arch { fix: Fix::Affine3 }),
            (fix_strategy(), any::<bool>()).prop_map(|(fix, poseidon)| Obj::Proof { fix, poseidon, vk_fix: fix }),
            Just(Obj::ZkirJson { prog: 0 }),
            Just(Obj::ZkirBin { prog: 0 }),
        ]
    };
    p.sub_cfg(
        "random-bytes",
        &format!("every decoder / verify on random byte strings of length 0..4096 (weighted towards short ones), optionally prefixed by the first 0..32 bytes of the valid encoding; no exclusions; {NT}"),
        p.tier.pick(4000, 60000),
        T,
        64,
        move || {
            (obj_strategy(), prop_oneof![3 => 0usize..64, 2 => 64usize..600, 1 => 600usize..4096], any::<u64>(), 0usize..33, any::<bool>())
                .prop_map(|(obj, len, seed, keep, prefixed)| {
                    let mut r = SplitMix(seed);
                    let mut bytes = r.bytes(len);
                    if prefixed {
                        // keep a valid header prefix so that the body parser is reached
                        let base = crate::types::BUNDLE.get().map(|b| b.base(&obj));
                        if let Some(base) = base {
                            let k = keep.min(base.len()).min(bytes.len());
                            bytes[..k].copy_from_slice(&base[..k]);
                        }
                    }
                    Case { obj, m: Mut::Raw(bytes) }
                })
                .boxed()
        },
        run,
    );
    {
        let mut r = SplitMix(p.seed ^ 0xb1c0de);
        let base = b.base(&Obj::ZkirBin { prog: 0 });
        let mut items = vec![];
        for i in 0..p.tier.pick(600, 6000) {
            let len = r.below(if i % 3 == 0 { 200 } else { 24 }) as usize;
            let mut bytes = r.bytes(len);
            if i % 2 == 0 {
                let k = (r.below(12) as usize).min(bytes.len()).min(base.len());
                bytes[..k].copy_from_slice(&base[..k]);
            }
            items.push(Case { obj: Obj::ZkirBin { prog: 0 }, m: Mut::Raw(bytes) });
        }
        p.enumerate("zkir-bincode:random", &format!("ZkirRelation::read_relation on random byte strings (half of them behind a valid prefix of 0..11 bytes); {NT}"), items, T, false, run);
    }
    // ---- report only ------------------------------------------------------------
    {
        let mut items = vec![];
        let mut r = SplitMix(p.seed ^ 0x9e90);
        for fix in ALL_FIX {
            for fmt in FMTS {
                for obj in [Obj::Pk { fix, fmt }, Obj::PlonkPk { fix, fmt }] {
                    let len = b.base(&obj).len();
                    let hdr = if matches!(obj, Obj::Pk { .. }) { 9 } else { 6 };
                    if fix == Fix::Affine3 || !p.quick() {
                        for pos in 0..hdr {
                            for val in (0..=255u8).step_by(if p.quick() { 5 } else { 1 }) {
                                items.push(Case { obj: obj.clone(), m: Mut::Set { pos, val } });
                            }
                        }
                    }
                    for _ in 0..p.tier.pick(6, 60) {
                        items.push(Case { obj: obj.clone(), m: Mut::Truncate(r.below(len as u64) as u32) });
                        items.push(Case { obj: obj.clone(), m: Mut::Flips(vec![(r.next_u64() as u16, (r.next_u64() & 7) as u8)]) });
                    }
                    // the length fields of the polynomial section follow the commitments
                    let vk_len = b.base(&Obj::PlonkVk { fix, fmt }).len() + if matches!(obj, Obj::Pk { .. }) { 3 } else { 0 };
                    for off in 0..8u32 {
                        for val in [0u8, 1, 0x7f, 0xff] {
                            items.push(Case { obj: obj.clone(), m: Mut::Set { pos: vk_len as u32 + off, val } });
                        }
                    }
                    items.push(Case { obj: obj.clone(), m: Mut::Append(vec![0; 32]) });
                }
            }
        }
        for fmt in FMTS {
            let obj = Obj::FullParams { fmt };
            items.extend(truncations(b, &obj, if p.quick() { 11 } else { 1 }));
            for pos in 0..4 {
                for val in 0..=255u8 {
                    items.push(Case { obj: obj.clone(), m: Mut::Set { pos, val } });
                }
            }
            for _ in 0..p.tier.pick(40, 400) {
                items.push(Case { obj: obj.clone(), m: Mut::Flips(vec![(r.next_u64() as u16, (r.next_u64() & 7) as u8)]) });
            }
        }
        p.enumerate("report-only", "MidnightPK::read, plonk::ProvingKey::read, ParamsKZG::read_custom (local artefacts of the prover) under header-byte substitutions, length-field edits, truncations, bit flips: panics / aborts / oversized allocations are COUNTED in the class histogram (report-only:*), never failures; non-trivial = never", items, T, false, run);
    }
    let _ = ElemKind::Identity;
}

/// Inputs of the defects repaired in /repo (F9, F10, F11, F12, IR bincode
/// lengths, read_relation round trip is its own sub-check): each with the
/// verdict the repaired code must give.
fn regression(p: &Prop, b: &Bundle, pool: &Pool) {
    #[derive(Clone, Debug, serde::Serialize, serde::Deserialize)]
    struct Reg {
        id: String,
        /// class the worker must report ("rejected", "load-err", "arch:jubjub=1...")
        expect: String,
        case: Case,
    }
    let mut items = vec![];
    let raw = |h: &str| Mut::Raw(hex::decode(h).unwrap());
    for fix in ALL_FIX {
        for fmt in FMTS {
            let vk = Obj::Vk { fix, fmt };
            let base = b.base(&vk);
            for val in 5..=255u8 {
                items.push(Reg { id: "F9".into(), expect: "rejected".into(), case: Case { obj: vk.clone(), m: Mut::Set { pos: 15, val } } });
            }
            for val in [31u8, 32] {
                items.push(Reg { id: "F10".into(), expect: "rejected".into(), case: Case { obj: vk.clone(), m: Mut::Set { pos: 22, val } } });
                items.push(Reg { id: "F10".into(), expect: "rejected".into(), case: Case { obj: Obj::PlonkVk { fix, fmt }, m: Mut::Set { pos: 1, val } } });
            }
            let nf = u32::from_le_bytes([base[23], base[24], base[25], base[26]]);
            for d in [-2i64, -1, 1, 2] {
                let bytes = ((nf as i64 + d) as u32).to_le_bytes();
                items.push(Reg { id: "F11".into(), expect: "rejected".into(), case: Case { obj: vk.clone(), m: Mut::SetMany((0..4).map(|i| (23 + i as u32, bytes[i])).collect()) } });
                items.push(Reg { id: "F11".into(), expect: "rejected".into(), case: Case { obj: Obj::PlonkVk { fix, fmt }, m: Mut::SetMany((0..4).map(|i| (2 + i as u32, bytes[i])).collect()) } });
            }
        }
        for val in 5..=255u8 {
            items.push(Reg { id: "F9".into(), expect: "rejected".into(), case: Case { obj: Obj::Arch { fix }, m: Mut::Set { pos: 15, val } } });
        }
    }
    items.push(Reg { id: "F9-min".into(), expect: "rejected".into(), case: Case { obj: Obj::Vk { fix: Fix::Affine3, fmt: Fmt::Processed }, m: raw("010000000000000000000000000000050802000000") } });
    items.push(Reg { id: "F10-min".into(), expect: "rejected".into(), case: Case { obj: Obj::Vk { fix: Fix::Affine3, fmt: Fmt::Processed }, m: raw("0100000000000000000000000000000108020000000320") } });
    for h in ["fc00000010", "fdffffffffffffffff", "010000fc00000010", "fd0000000001000000", "fe00000000000000000000000000000001"] {
        items.push(Reg { id: "IR-bincode-length".into(), expect: "load-err".into(), case: Case { obj: Obj::ZkirBin { prog: 0 }, m: raw(h) } });
    }
    items.push(Reg { id: "F12".into(), expect: "arch:jubjub=1,poseidon=0,sha256=0".into(), case: Case { obj: Obj::ZkirJson { prog: 0 }, m: Mut::Raw(br#"{"instructions":[{"op":"publish","inputs":["Jubjub:GENERATOR"]}]}"#.to_vec()) } });
    p.enumerate(
        "regression",
        "inputs of the repaired defects with the verdict the repaired code must give: nr_pow2range_cols in 5..=255 (all fixture keys, both formats, and bare descriptors) => Err; k in {31,32} => Err; fixed-commitment count +-1, +-2 => Err; IR bincode programs declaring 2^28..2^120 instructions => Err without an oversized allocation; a Jubjub constant without a Jubjub load => used_chips enables jubjub; non-trivial = always (each differs from a valid encoding in <= 4 bytes or is a minimal input)",
        items,
        T,
        true,
        |r: &Reg| match pool.run(b, &r.case) {
            Err(f) => Err(vpcore::Failure::new(format!("regression:{}:{}", r.id, f.signature), f.detail)),
            Ok(v) => {
                if v.classes.iter().any(|c| *c == r.expect) {
                    Ok(vpcore::Verdict::nontrivial(format!("regression:{}:{}", r.id, r.expect)))
                } else {
                    let (input, _) = b.input(&r.case);
                    Err(vpcore::Failure::new(format!("regression:{}:expected-{}", r.id, r.expect), format!("classes {:?}; input {}", v.classes, crate::types::hex_prefix(&input, 64))))
                }
            }
        },
    );
}
