//! C01 — honest proofs verify for every circuit shape and proving configuration.
//!
//! Generator: E1 knobs -> Spec (random gates of degree <= 5 with rotations,
//! simple/complex/additive selectors and fixed-coefficient gates, table and
//! `lookup_any` lookups, copies between advice cells, to/from instance cells
//! and constants, 1..3 phases with challenges, blinded/unblinded columns)
//! x honest witnesses x num_proofs 1..4 x committed instance columns 0..2
//! x transcript hash {Blake2b, Poseidon} x k = min_k + 0..2.
//! Oracle: create_proof Ok; prepare + assert_empty + guard.verify Ok;
//! MockProver Ok on the same assignment.

use proptest::prelude::*;
use serde::{Deserialize, Serialize};
use vp_plonk::{
    e1::{build_plan, expand, knobs_strategy, Knobs},
    pv::{self, Blake, Poseidon},
};
use vpcore::{ensure, CaseResult, Failure, Verdict};
use midnight_proofs::transcript::{CircuitTranscript, Transcript};

#[derive(Clone, Debug, Serialize, Deserialize)]
struct Case {
    knobs: Knobs,
    num_proofs: usize,
    n_committed: usize,
    poseidon: bool,
    wseed: u64,
}

fn strategy(max_ops: usize) -> BoxedStrategy<Case> {
    (knobs_strategy(max_ops), 1usize..=4, 0usize..=2, any::<bool>(), any::<u64>())
        .prop_map(|(knobs, num_proofs, n_committed, poseidon, wseed)| Case { knobs, num_proofs, n_committed, poseidon, wseed })
        .boxed()
}

fn run(c: &Case) -> CaseResult {
    let spec = expand(&c.knobs);
    let n_committed = c.n_committed.min(spec.n_instance);
    let plans: Vec<_> = (0..c.num_proofs).map(|i| build_plan(&spec, c.wseed.wrapping_add(i as u64 * 7919))).collect();
    for pl in &plans {
        pv::mock(&spec, pl).map_err(|e| Failure::new("mock-rejects-honest-plan", format!("MockProver rejects the honest assignment: {e}; spec={spec:?}")))?;
    }
    let (pk, vk) = pv::keygen(&spec).map_err(|e| Failure::new("keygen-fails", format!("{e}; spec={spec:?}")))?;
    let instances: Vec<_> = plans.iter().map(|p| p.instances.clone()).collect();
    let st = pv::statement(&vk, &spec, &instances, n_committed);
    let config = format!(
        "np{}{}/c{}{}",
        c.num_proofs.min(2),
        if c.num_proofs >= 2 { "+" } else { "" },
        n_committed,
        if n_committed >= 1 && n_committed < spec.n_instance { "+plain" } else { "" }
    );
    let sig_cfg = if c.num_proofs >= 2 && n_committed >= 1 && n_committed < spec.n_instance {
        "multi-proof+committed+plain"
    } else {
        "other-config"
    };
    let res = if c.poseidon {
        let mut t = CircuitTranscript::<Poseidon>::init();
        pv::prove(&pk, &spec, &plans, n_committed, c.wseed ^ 0xabcd, &mut t).map_err(|e| Failure::new("create_proof-fails", format!("{e}; spec={spec:?}")))?;
        let proof = t.finalize();
        let mut t = CircuitTranscript::<Poseidon>::init_from_bytes(&proof);
        pv::verify(&vk, spec.k, &st, &mut t)
    } else {
        let mut t = CircuitTranscript::<Blake>::init();
        pv::prove(&pk, &spec, &plans, n_committed, c.wseed ^ 0xabcd, &mut t).map_err(|e| Failure::new("create_proof-fails", format!("{e}; spec={spec:?}")))?;
        let proof = t.finalize();
        let mut t = CircuitTranscript::<Blake>::init_from_bytes(&proof);
        pv::verify(&vk, spec.k, &st, &mut t)
    };
    ensure!(
        res.is_ok(),
        format!("honest-proof-rejected:{sig_cfg}"),
        "verifier refused an honest proof ({:?}); num_proofs={} committed={} n_instance={} poseidon={} spec={spec:?}",
        res,
        c.num_proofs,
        n_committed,
        spec.n_instance,
        c.poseidon
    );
    let feats = spec.features();
    // order in which instance columns are first queried by gates
    // sequence of committed instance columns in the order their queries are registered by the gates
    let mut seq: Vec<(usize, i32)> = vec![];
    for g in &spec.gates {
        for e in &g.eqs {
            if let vp_plonk::e1::Eqn::Inst { icol, irot, .. } = e {
                let q = (icol % spec.n_instance, *irot);
                if !seq.contains(&q) {
                    seq.push(q);
                }
            }
        }
    }
    let committed_queried: Vec<usize> = seq.iter().map(|q| q.0).filter(|c| *c < n_committed).collect();
    let out_of_order = committed_queried.windows(2).any(|w| w[0] > w[1]);
    let nt = !feats.is_empty() || c.num_proofs >= 2 || n_committed >= 1;
    let mut v = Verdict::of(nt, config);
    for f in feats {
        v = v.with(f);
    }
    if committed_queried.iter().collect::<std::collections::HashSet<_>>().len() >= 2 {
        v = v.with(if out_of_order { "committed-columns-queried-out-of-order" } else { "committed-columns-queried-in-order" });
    }
    v = v.with(format!("k={}", spec.k)).with(if c.poseidon { "poseidon" } else { "blake2b" });
    Ok(v)
}

fn main() {
    vpcore::main("C01", "exploration", (1200, 7200), |p| {
        p.assume("SRS from ParamsKZG::unsafe_setup with a fixed seed; prover randomness from ChaCha20 seeded by the case");
        p.assume("the generated honest assignment satisfies the generated constraint system (guarded: MockProver must accept it, otherwise the case is reported)");
        p.sub_cfg(
            "e1.honest",
            "E1 generated constraint systems x honest witness x num_proofs 1..4 x committed columns 0..2 x {Blake2b,Poseidon} x k=min..min+2; non-trivial = spec uses at least one of {lookup, copy, additive selector, fixed-coefficient gate, challenge phase, unblinded column, instance gate, rotations} or num_proofs>=2 or committed>=1; distinct by case digest",
            p.tier.pick(2400, 60_000),
            16,
            48,
            || strategy(p.tier.pick(12, 24)),
            run,
        );
    });
}
