#![no_main]
//! Structure-aware: the input is an edit script applied to a valid fixture key
//! (fixture, format, truncate?, then (position, value) byte edits); a key that
//! decodes is used to verify a valid proof, a corrupted proof (both hashes) and
//! in batch_verify. Oracle: everything returns.
use arbitrary::Unstructured;
use libfuzzer_sys::fuzz_target;

fuzz_target!(|data: &[u8]| {
    c16_fuzz::init();
    let fx = c16_fuzz::fixtures();
    let mut u = Unstructured::new(data);
    let Ok(sel) = u.arbitrary::<u8>() else { return };
    let f = &fx.fix[(sel % 3) as usize];
    let format = c16_fuzz::fmt_of(sel >> 2);
    let mut bytes = if sel >> 2 & 1 == 0 { f.vk_p.to_vec() } else { f.vk_r.to_vec() };
    if !u.is_empty() && u.arbitrary::<bool>().unwrap_or(false) {
        let n = u.int_in_range(0..=bytes.len()).unwrap_or(bytes.len());
        bytes.truncate(n);
    }
    while u.len() >= 3 {
        let (Ok(pos), Ok(val)) = (u.arbitrary::<u16>(), u.arbitrary::<u8>()) else { break };
        if bytes.is_empty() {
            break;
        }
        // the header is reached with probability 1/2
        let i = if pos & 1 == 0 { (pos as usize >> 1) % bytes.len().min(27) } else { (pos as usize >> 1) % bytes.len() };
        bytes[i] = val;
    }
    let Some(vk) = c16_fuzz::vk_read_checked(&bytes, format) else { return };
    let mut bad = f.proof_blake.to_vec();
    let mid = bad.len() / 2;
    bad[mid] ^= 1;
    let claimed = u32::from_le_bytes([bytes[17], bytes[18], bytes[19], bytes[20]]) as usize;
    let inst: Vec<c16_fuzz::F> = if claimed <= 64 { (0..claimed).map(|i| f.inst.get(i).copied().unwrap_or(c16_fuzz::F::from(i as u64))).collect() } else { f.inst.clone() };
    let ok = c16_fuzz::verify_blake("verify(decoded-vk)", &vk, &inst, f.proof_blake);
    let _ = c16_fuzz::verify_blake("verify(decoded-vk,corrupted-proof)", &vk, &inst, &bad);
    let _ = c16_fuzz::verify_poseidon("verify(decoded-vk,poseidon)", &vk, &inst, f.proof_poseidon);
    let _ = c16_fuzz::batch_blake("batch_verify(decoded-vk)", &vk, &inst, f.proof_blake);
    if bytes == f.vk_p || bytes == f.vk_r {
        if ok == Some(false) {
            c16_fuzz::fail("harness:honest-key-verdict", "valid proof rejected under the honest key");
        }
    }
});
