#!/bin/bash
# Evaluates a seeded change against a check WITHOUT touching /repo (used while
# other builders compile from /repo): scratch worktree + scratch copy of the
# harness with rewritten paths. Usage: seeded_eval.sh <patch.diff> <PROP> [tier] [seed]
set -u
PATCH="$(readlink -f "$1")"; PROP="$2"; TIER="${3:-quick}"; SEED="${4:-1}"
BIN="$(echo "$PROP" | tr A-Z a-z)"
TAG="ev-$BIN-$$"
WT=/tmp/$TAG-wt; H=/tmp/$TAG-h
cleanup() { [ -n "${KEEP:-}" ] && { echo "kept $H $WT"; return; }; git -C /repo worktree remove --force "$WT" 2>/dev/null; rm -rf "$H" "$WT"; }
trap cleanup EXIT
git -C /repo worktree add -q "$WT" HEAD || exit 2
git -C "$WT" apply "$PATCH" || { echo "patch does not apply"; exit 2; }
rsync -a --exclude 'target*' --exclude 'fuzz' /verif/harness/ "$H/"
grep -rl '/repo/' "$H" --include=Cargo.toml | xargs sed -i "s#/repo/#$WT/#g"
SRC=$(ls "$H"/*/src/bin/$BIN.rs | head -1); CRATE=$(echo "$SRC" | sed "s#$H/##" | cut -d/ -f1)
# reuse a shared target dir for scratch evaluations to avoid full rebuilds
export CARGO_TARGET_DIR="${EVAL_TARGET:-/tmp/seeded-eval-target}"
# every scratch copy has its own paths, so artefacts pile up: start afresh beyond 15 GB
[ -d "$CARGO_TARGET_DIR" ] && [ "$(du -sm "$CARGO_TARGET_DIR" | cut -f1)" -gt 15000 ] && rm -rf "$CARGO_TARGET_DIR"
( cd "$H" && CARGO_NET_OFFLINE=true cargo build --release --offline -p "$CRATE" --bin "$BIN" ) > "$H/build.log" 2>&1 || { echo "BUILD FAILED"; tail -30 "$H/build.log"; exit 2; }
mkdir -p "$H/vd"; cp /verif/known_findings.json "$H/vd/"
cd /verif
VP_VERIF_DIR="$H/vd" VERIF_SEED="$SEED" "$CARGO_TARGET_DIR/release/$BIN" $TIER ${EXTRA:-} 2>&1 | grep -v "^proptest" | cut -c1-600 | grep -E "VIOLATION|KNOWN|signature=|^C[0-9]+ " | head -20
echo "exit=${PIPESTATUS[0]}"
