//! Big-integer reference models, written from the mathematical definitions
//! only: prime fields Z_p, the quadratic/cubic/quadratic tower over Z_p, and
//! affine short-Weierstrass / twisted-Edwards group laws.

use num_bigint::BigUint;
use num_traits::{One, Zero};

#[derive(Clone, Debug)]
pub struct Zp {
    pub p: BigUint,
}

impl Zp {
    pub fn new(p: BigUint) -> Self {
        Zp { p }
    }
    pub fn from_hex_modulus(s: &str) -> Self {
        let s = s.trim_start_matches("0x");
        Zp {
            p: BigUint::parse_bytes(s.as_bytes(), 16).expect("modulus"),
        }
    }
    pub fn red(&self, a: &BigUint) -> BigUint {
        a % &self.p
    }
    pub fn add(&self, a: &BigUint, b: &BigUint) -> BigUint {
        (a + b) % &self.p
    }
    pub fn sub(&self, a: &BigUint, b: &BigUint) -> BigUint {
        ((a + &self.p) - (b % &self.p)) % &self.p
    }
    pub fn neg(&self, a: &BigUint) -> BigUint {
        (&self.p - (a % &self.p)) % &self.p
    }
    pub fn mul(&self, a: &BigUint, b: &BigUint) -> BigUint {
        (a * b) % &self.p
    }
    pub fn pow(&self, a: &BigUint, e: &BigUint) -> BigUint {
        a.modpow(e, &self.p)
    }
    /// Inverse (None for 0).
    pub fn inv(&self, a: &BigUint) -> Option<BigUint> {
        if (a % &self.p).is_zero() {
            None
        } else {
            Some(a.modpow(&(&self.p - 2u32), &self.p))
        }
    }
    /// Euler criterion: true iff a is a square (0 counts as a square).
    pub fn is_square(&self, a: &BigUint) -> bool {
        let a = a % &self.p;
        if a.is_zero() {
            return true;
        }
        a.modpow(&((&self.p - 1u32) >> 1), &self.p).is_one()
    }
    pub fn from_i64(&self, v: i64) -> BigUint {
        if v >= 0 {
            BigUint::from(v as u64) % &self.p
        } else {
            self.neg(&BigUint::from((-v) as u64))
        }
    }
}

/// Degree-2 extension Fp[u]/(u^2 - beta).
#[derive(Clone, Debug)]
pub struct Ext2 {
    pub f: Zp,
    pub beta: BigUint, // u^2 = beta (as an element of Z_p)
}

pub type E2 = [BigUint; 2];

impl Ext2 {
    pub fn zero(&self) -> E2 {
        [BigUint::zero(), BigUint::zero()]
    }
    pub fn one(&self) -> E2 {
        [BigUint::one(), BigUint::zero()]
    }
    pub fn add(&self, a: &E2, b: &E2) -> E2 {
        [self.f.add(&a[0], &b[0]), self.f.add(&a[1], &b[1])]
    }
    pub fn sub(&self, a: &E2, b: &E2) -> E2 {
        [self.f.sub(&a[0], &b[0]), self.f.sub(&a[1], &b[1])]
    }
    pub fn neg(&self, a: &E2) -> E2 {
        [self.f.neg(&a[0]), self.f.neg(&a[1])]
    }
    pub fn mul(&self, a: &E2, b: &E2) -> E2 {
        let f = &self.f;
        let c0 = f.add(
            &f.mul(&a[0], &b[0]),
            &f.mul(&self.beta, &f.mul(&a[1], &b[1])),
        );
        let c1 = f.add(&f.mul(&a[0], &b[1]), &f.mul(&a[1], &b[0]));
        [c0, c1]
    }
    pub fn is_zero(&self, a: &E2) -> bool {
        a[0].is_zero() && a[1].is_zero()
    }
    pub fn inv(&self, a: &E2) -> Option<E2> {
        // 1/(a0 + a1 u) = (a0 - a1 u)/(a0^2 - beta a1^2)
        let f = &self.f;
        let n = f.sub(&f.mul(&a[0], &a[0]), &f.mul(&self.beta, &f.mul(&a[1], &a[1])));
        let ni = f.inv(&n)?;
        Some([f.mul(&a[0], &ni), f.mul(&f.neg(&a[1]), &ni)])
    }
    pub fn pow(&self, a: &E2, e: &BigUint) -> E2 {
        let mut r = self.one();
        for i in (0..e.bits()).rev() {
            r = self.mul(&r, &r);
            if e.bit(i) {
                r = self.mul(&r, a);
            }
        }
        r
    }
    /// a is a square in Fp2 iff a^((p^2-1)/2) = 1 (or a = 0).
    pub fn is_square(&self, a: &E2) -> bool {
        if self.is_zero(a) {
            return true;
        }
        let e = ((&self.f.p * &self.f.p) - 1u32) >> 1;
        self.pow(a, &e) == self.one()
    }
}

/// Degree-3 extension Fp2[v]/(v^3 - xi).
#[derive(Clone, Debug)]
pub struct Ext6 {
    pub e2: Ext2,
    pub xi: E2,
}

pub type E6 = [E2; 3];

impl Ext6 {
    pub fn zero(&self) -> E6 {
        [self.e2.zero(), self.e2.zero(), self.e2.zero()]
    }
    pub fn one(&self) -> E6 {
        [self.e2.one(), self.e2.zero(), self.e2.zero()]
    }
    pub fn add(&self, a: &E6, b: &E6) -> E6 {
        [
            self.e2.add(&a[0], &b[0]),
            self.e2.add(&a[1], &b[1]),
            self.e2.add(&a[2], &b[2]),
        ]
    }
    pub fn sub(&self, a: &E6, b: &E6) -> E6 {
        [
            self.e2.sub(&a[0], &b[0]),
            self.e2.sub(&a[1], &b[1]),
            self.e2.sub(&a[2], &b[2]),
        ]
    }
    pub fn neg(&self, a: &E6) -> E6 {
        [self.e2.neg(&a[0]), self.e2.neg(&a[1]), self.e2.neg(&a[2])]
    }
    pub fn mul(&self, a: &E6, b: &E6) -> E6 {
        // schoolbook: sum a_i b_j v^(i+j), v^3 = xi
        let e = &self.e2;
        let mut t = [e.zero(), e.zero(), e.zero(), e.zero(), e.zero()];
        for i in 0..3 {
            for j in 0..3 {
                t[i + j] = e.add(&t[i + j], &e.mul(&a[i], &b[j]));
            }
        }
        let c0 = e.add(&t[0], &e.mul(&self.xi, &t[3]));
        let c1 = e.add(&t[1], &e.mul(&self.xi, &t[4]));
        [c0, c1, t[2].clone()]
    }
    pub fn is_zero(&self, a: &E6) -> bool {
        a.iter().all(|c| self.e2.is_zero(c))
    }
    pub fn mul_by_v(&self, a: &E6) -> E6 {
        [self.e2.mul(&self.xi, &a[2]), a[0].clone(), a[1].clone()]
    }
}

/// Degree-2 extension Fp6[w]/(w^2 - v).
#[derive(Clone, Debug)]
pub struct Ext12 {
    pub e6: Ext6,
}

pub type E12 = [E6; 2];

impl Ext12 {
    pub fn zero(&self) -> E12 {
        [self.e6.zero(), self.e6.zero()]
    }
    pub fn one(&self) -> E12 {
        [self.e6.one(), self.e6.zero()]
    }
    pub fn add(&self, a: &E12, b: &E12) -> E12 {
        [self.e6.add(&a[0], &b[0]), self.e6.add(&a[1], &b[1])]
    }
    pub fn sub(&self, a: &E12, b: &E12) -> E12 {
        [self.e6.sub(&a[0], &b[0]), self.e6.sub(&a[1], &b[1])]
    }
    pub fn neg(&self, a: &E12) -> E12 {
        [self.e6.neg(&a[0]), self.e6.neg(&a[1])]
    }
    pub fn mul(&self, a: &E12, b: &E12) -> E12 {
        let e = &self.e6;
        let c0 = e.add(&e.mul(&a[0], &b[0]), &e.mul_by_v(&e.mul(&a[1], &b[1])));
        let c1 = e.add(&e.mul(&a[0], &b[1]), &e.mul(&a[1], &b[0]));
        [c0, c1]
    }
    pub fn is_zero(&self, a: &E12) -> bool {
        self.e6.is_zero(&a[0]) && self.e6.is_zero(&a[1])
    }
}

// ---------------------------------------------------------------------------
// Affine group laws over Z_p

/// Affine point; `None` is the point at infinity (Weierstrass only).
pub type WPoint = Option<(BigUint, BigUint)>;

/// y^2 = x^3 + a x + b over Z_p.
#[derive(Clone, Debug)]
pub struct Weierstrass {
    pub f: Zp,
    pub a: BigUint,
    pub b: BigUint,
}

impl Weierstrass {
    pub fn on_curve(&self, p: &WPoint) -> bool {
        match p {
            None => true,
            Some((x, y)) => {
                let f = &self.f;
                let lhs = f.mul(y, y);
                let rhs = f.add(&f.add(&f.mul(&f.mul(x, x), x), &f.mul(&self.a, x)), &self.b);
                lhs == rhs
            }
        }
    }
    pub fn neg(&self, p: &WPoint) -> WPoint {
        p.as_ref().map(|(x, y)| (x.clone(), self.f.neg(y)))
    }
    pub fn add(&self, p: &WPoint, q: &WPoint) -> WPoint {
        let f = &self.f;
        match (p, q) {
            (None, _) => q.clone(),
            (_, None) => p.clone(),
            (Some((x1, y1)), Some((x2, y2))) => {
                let lambda = if x1 == x2 {
                    if f.add(y1, y2).is_zero() {
                        return None; // P = -Q (includes y = 0 doubling)
                    }
                    // doubling
                    let num = f.add(&f.mul(&BigUint::from(3u32), &f.mul(x1, x1)), &self.a);
                    let den = f.inv(&f.mul(&BigUint::from(2u32), y1)).unwrap();
                    f.mul(&num, &den)
                } else {
                    let num = f.sub(y2, y1);
                    let den = f.inv(&f.sub(x2, x1)).unwrap();
                    f.mul(&num, &den)
                };
                let x3 = f.sub(&f.sub(&f.mul(&lambda, &lambda), x1), x2);
                let y3 = f.sub(&f.mul(&lambda, &f.sub(x1, &x3)), y1);
                Some((x3, y3))
            }
        }
    }
    pub fn mul(&self, p: &WPoint, k: &BigUint) -> WPoint {
        let mut r: WPoint = None;
        for i in (0..k.bits()).rev() {
            r = self.add(&r, &r);
            if k.bit(i) {
                r = self.add(&r, p);
            }
        }
        r
    }
}

/// a x^2 + y^2 = 1 + d x^2 y^2 over Z_p (complete when a is a square and d is
/// not). Identity is (0, 1).
#[derive(Clone, Debug)]
pub struct Edwards {
    pub f: Zp,
    pub a: BigUint,
    pub d: BigUint,
}

pub type EPoint = (BigUint, BigUint);

impl Edwards {
    pub fn identity(&self) -> EPoint {
        (BigUint::zero(), BigUint::one())
    }
    pub fn on_curve(&self, p: &EPoint) -> bool {
        let f = &self.f;
        let x2 = f.mul(&p.0, &p.0);
        let y2 = f.mul(&p.1, &p.1);
        let lhs = f.add(&f.mul(&self.a, &x2), &y2);
        let rhs = f.add(&BigUint::one(), &f.mul(&self.d, &f.mul(&x2, &y2)));
        lhs == rhs
    }
    pub fn neg(&self, p: &EPoint) -> EPoint {
        (self.f.neg(&p.0), p.1.clone())
    }
    pub fn add(&self, p: &EPoint, q: &EPoint) -> EPoint {
        let f = &self.f;
        let (x1, y1) = p;
        let (x2, y2) = q;
        let x1x2 = f.mul(x1, x2);
        let y1y2 = f.mul(y1, y2);
        let dxy = f.mul(&self.d, &f.mul(&x1x2, &y1y2));
        let xn = f.add(&f.mul(x1, y2), &f.mul(y1, x2));
        let yn = f.sub(&y1y2, &f.mul(&self.a, &x1x2));
        let xd = f.inv(&f.add(&BigUint::one(), &dxy)).expect("complete law");
        let yd = f.inv(&f.sub(&BigUint::one(), &dxy)).expect("complete law");
        (f.mul(&xn, &xd), f.mul(&yn, &yd))
    }
    pub fn mul(&self, p: &EPoint, k: &BigUint) -> EPoint {
        let mut r = self.identity();
        for i in (0..k.bits()).rev() {
            r = self.add(&r, &r);
            if k.bit(i) {
                r = self.add(&r, p);
            }
        }
        r
    }
}

/// Weierstrass law over Fp2 (for G2).
pub type W2Point = Option<(E2, E2)>;

#[derive(Clone, Debug)]
pub struct Weierstrass2 {
    pub e: Ext2,
    pub b: E2, // a = 0
}

impl Weierstrass2 {
    pub fn on_curve(&self, p: &W2Point) -> bool {
        match p {
            None => true,
            Some((x, y)) => {
                let e = &self.e;
                e.mul(y, y) == e.add(&e.mul(&e.mul(x, x), x), &self.b)
            }
        }
    }
    pub fn neg(&self, p: &W2Point) -> W2Point {
        p.as_ref().map(|(x, y)| (x.clone(), self.e.neg(y)))
    }
    pub fn add(&self, p: &W2Point, q: &W2Point) -> W2Point {
        let e = &self.e;
        match (p, q) {
            (None, _) => q.clone(),
            (_, None) => p.clone(),
            (Some((x1, y1)), Some((x2, y2))) => {
                let lambda = if x1 == x2 {
                    if e.is_zero(&e.add(y1, y2)) {
                        return None;
                    }
                    let three = [BigUint::from(3u32), BigUint::zero()];
                    let two = [BigUint::from(2u32), BigUint::zero()];
                    let num = e.mul(&three, &e.mul(x1, x1));
                    let den = e.inv(&e.mul(&two, y1)).unwrap();
                    e.mul(&num, &den)
                } else {
                    let num = e.sub(y2, y1);
                    let den = e.inv(&e.sub(x2, x1)).unwrap();
                    e.mul(&num, &den)
                };
                let x3 = e.sub(&e.sub(&e.mul(&lambda, &lambda), x1), x2);
                let y3 = e.sub(&e.mul(&lambda, &e.sub(x1, &x3)), y1);
                Some((x3, y3))
            }
        }
    }
    pub fn mul(&self, p: &W2Point, k: &BigUint) -> W2Point {
        let mut r: W2Point = None;
        for i in (0..k.bits()).rev() {
            r = self.add(&r, &r);
            if k.bit(i) {
                r = self.add(&r, p);
            }
        }
        r
    }
}
