//! C19 — harness AST mirroring the public combinators of
//! `midnight_circuits::parsing::regex::RegexInstructions`, its translation to
//! the library `Regex`, and a reference semantics (Brzozowski derivatives over
//! marked letters) written from the doc comments of `RegexInstructions` only.
//!
//! # Semantics used by the reference (with the doc sentence it comes from)
//!
//! A regular expression denotes a set of *marked words*: finite sequences of
//! letters `(byte, marker)`, marker 0 meaning "no marker" ("one marker maximum
//! per byte", "By convention, 0 means no marker").
//!
//! * `byte_from(l)`: "any single unmarked byte from a collection" = {(b,0) | b ∈ l};
//!   `byte_not_from`, `any_byte`, `digit`… are such sets; `word` is the
//!   concatenation of its bytes; `epsilon` = {ε}; `union([])` "yields the empty
//!   language", `inter([])` / `any()` "any unmarked string".
//! * `cat`, `union`, `list` ("0 or more"), `non_empty_list` ("1 or more"),
//!   `optional`, `repeat(n)` ("exactly n times"), `repeat_at_most(n)` ("between 0
//!   and n times (inclusive)"), `separated_*`, `spaced_*` ("0 or more blank
//!   characters between …"), `delimited`: the usual language operations.
//! * `inter`: "Two identical bytes with different markers are considered
//!   different when intersecting, except when one of the two markers is 0 (in
//!   which case the intersection yields the letter with the non-zero marker)":
//!   w ∈ L1 ∩ L2 iff there are w1 ∈ L1, w2 ∈ L2 with the bytes of w and at each
//!   position markers (m1, m2) with m1 = m2 or one of them 0, the marker of w
//!   being max(m1, m2).
//! * `neg`: "any sequence of bytes that does not match the regular expression";
//!   the argument carries no marker (documented failure otherwise) and the
//!   result is a set of unmarked words. `minus(a, b)` "is equivalent to
//!   and([a, b.neg()])".
//! * `mark(f)`, `mark_bytes`, `replace_markers`: relabel the letters of the
//!   expression. They are applied to the letters of the leaves; the harness only
//!   generates them (for must-hold checks) over sub-expressions where relabelling
//!   the leaves and relabelling the words of the language coincide (no
//!   complement / `any()` below a relabelling; `replace_markers` over an
//!   intersection only with an injective update fixing 0).
//!
//! # The marker of a letter, output determinism
//!
//! "Other functions will require that the constructed expressions are
//! output-deterministic, i.e., that each word matching a given regex can only be
//! marked in a unique way", and the compiled automaton emits one marker per
//! transition (`transitions[(state, byte)] = (target, marker)`), i.e. the marker
//! of position i is emitted knowing only bytes 1..=i. The reference therefore
//! defines: for a byte word u·b that is a prefix of (the bytes of) some word of
//! the language, the marker of b after u is the unique m such that the marked
//! prefix μ(u)·(b,m) can be extended to a word of L — unique at every such
//! prefix is the precondition (DESIGN §9 item 16); an expression for which two
//! markers are possible at some live prefix is *ambiguous* and discarded.
//! In derivative terms: state = D_{μ(u)}(L); on byte b the set
//! {m | D_{(b,m)}(state) ≠ ∅} has 0 elements (reject), 1 (the marker), ≥ 2
//! (ambiguous).

use std::{
    collections::{BTreeMap, BTreeSet, HashMap, VecDeque},
    rc::Rc,
};

use midnight_circuits::parsing::regex::{Regex, RegexInstructions};
use serde::{Deserialize, Serialize};

// ---------------------------------------------------------------------------
// Naming the library's automaton type (it lives in a private module).

pub trait Snd {
    type T;
}
impl<A, B> Snd for (A, B) {
    type T = B;
}
pub trait MapV {
    type V;
}
impl<K, V, S> MapV for HashMap<K, V, S> {
    type V = V;
}
pub type Fq = midnight_curves::Fq;
pub type AutMap = <<midnight_circuits::parsing::automaton_chip::AutomatonChip<usize, Fq> as midnight_circuits::types::ComposableChip<Fq>>::SharedResources as Snd>::T;
/// `midnight_circuits::parsing::automaton::Automaton`.
pub type LibAutomaton = <AutMap as MapV>::V;

// ---------------------------------------------------------------------------
// Harness AST

#[derive(Clone, Copy, Debug, Serialize, Deserialize, PartialEq, Eq)]
pub enum Named {
    Digit,
    Lower,
    Upper,
    Letter,
    Alnum,
    Blank,
}

impl Named {
    pub fn bytes(&self) -> Vec<u8> {
        match self {
            Named::Digit => (b'0'..=b'9').collect(),
            Named::Lower => (b'a'..=b'z').collect(),
            Named::Upper => (b'A'..=b'Z').collect(),
            Named::Letter => (b'a'..=b'z').chain(b'A'..=b'Z').collect(),
            Named::Alnum => (b'a'..=b'z').chain(b'A'..=b'Z').chain(b'0'..=b'9').collect(),
            Named::Blank => b" \t\n".to_vec(),
        }
    }
}

type B = Box<Re>;

/// One variant per public combinator (the `spaced` flag selects the
/// `spaced_*` sibling).
#[derive(Clone, Debug, Serialize, Deserialize, PartialEq, Eq)]
pub enum Re {
    Byte(u8),
    ByteFrom(Vec<u8>),
    ByteNotFrom(Vec<u8>),
    AnyByte,
    Named(Named),
    Word(String),
    Blanks,
    BlanksStrict,
    Any,
    Epsilon,
    /// `union([])`
    Empty,
    Cat { items: Vec<Re>, spaced: bool },
    Union(Vec<Re>),
    Inter(Vec<Re>),
    Terminated { a: B, b: B, spaced: bool },
    Or(B, B),
    And(B, B),
    Neg(B),
    Minus(B, B),
    List { r: B, spaced: bool },
    NonEmptyList { r: B, spaced: bool },
    Optional(B),
    Repeat { r: B, n: usize, spaced: bool },
    RepeatAtMost { r: B, n: usize, spaced: bool },
    SepList { r: B, sep: B, spaced: bool },
    SepNonEmptyList { r: B, sep: B, spaced: bool },
    SepCat { items: Vec<Re>, sep: B, spaced: bool },
    SepRepeat { r: B, n: usize, sep: B, spaced: bool },
    SepRepeatAtMost { r: B, n: usize, sep: B, spaced: bool },
    Delimited { r: B, open: B, close: B, spaced: bool },
    /// `mark(&|b| table(b))`, `None` outside the table
    Mark { r: B, table: Vec<(u8, usize)> },
    /// `mark(&|_| Some(m))`
    MarkAll { r: B, m: usize },
    MarkBytes { r: B, bytes: Vec<u8>, m: usize },
    ReplaceMarkers { r: B, upd: Vec<(usize, usize)> },
    /// library-named expressions (reference from their doc comments)
    Utf8Cps,
    Utf8,
    JsonString,
}

fn lookup<K: PartialEq + Copy, V: Copy>(t: &[(K, V)], k: K) -> Option<V> {
    // first entry wins (both sides use this function)
    t.iter().find(|(a, _)| *a == k).map(|(_, v)| *v)
}

impl Re {
    /// Translation to the library type, using exactly the combinator each
    /// variant names.
    pub fn to_lib(&self) -> Regex {
        use Re::*;
        let l = |r: &Re| r.to_lib();
        let lv = |v: &Vec<Re>| v.iter().map(|r| r.to_lib()).collect::<Vec<_>>();
        match self {
            Byte(b) => Regex::from(*b),
            ByteFrom(v) => Regex::byte_from(v.iter().copied()),
            ByteNotFrom(v) => Regex::byte_not_from(v.iter().copied()),
            AnyByte => Regex::any_byte(),
            Named(n) => match n {
                self::Named::Digit => Regex::digit(),
                self::Named::Lower => Regex::lowercase_letter(),
                self::Named::Upper => Regex::uppercase_letter(),
                self::Named::Letter => Regex::letter(),
                self::Named::Alnum => Regex::alphanumeric(),
                self::Named::Blank => Regex::one_blank(),
            },
            Word(s) => Regex::word(s),
            Blanks => Regex::blanks(),
            BlanksStrict => Regex::blanks_strict(),
            Any => Regex::any(),
            Epsilon => Regex::epsilon(),
            Empty => Regex::union([]),
            Cat { items, spaced } => {
                if *spaced {
                    Regex::spaced_cat(lv(items))
                } else {
                    Regex::cat(lv(items))
                }
            }
            Union(v) => Regex::union(lv(v)),
            Inter(v) => Regex::inter(lv(v)),
            Terminated { a, b, spaced } => {
                if *spaced {
                    l(a).spaced_terminated(l(b))
                } else {
                    l(a).terminated(l(b))
                }
            }
            Or(a, b) => l(a).or(l(b)),
            And(a, b) => l(a).and(l(b)),
            Neg(a) => l(a).neg(),
            Minus(a, b) => l(a).minus(l(b)),
            List { r, spaced } => {
                if *spaced {
                    l(r).spaced_list()
                } else {
                    l(r).list()
                }
            }
            NonEmptyList { r, spaced } => {
                if *spaced {
                    l(r).spaced_non_empty_list()
                } else {
                    l(r).non_empty_list()
                }
            }
            Optional(r) => l(r).optional(),
            Repeat { r, n, spaced } => {
                if *spaced {
                    l(r).spaced_repeat(*n)
                } else {
                    l(r).repeat(*n)
                }
            }
            RepeatAtMost { r, n, spaced } => {
                if *spaced {
                    l(r).spaced_repeat_at_most(*n)
                } else {
                    l(r).repeat_at_most(*n)
                }
            }
            SepList { r, sep, spaced } => {
                if *spaced {
                    l(r).spaced_separated_list(l(sep))
                } else {
                    l(r).separated_list(l(sep))
                }
            }
            SepNonEmptyList { r, sep, spaced } => {
                if *spaced {
                    l(r).spaced_separated_non_empty_list(l(sep))
                } else {
                    l(r).separated_non_empty_list(l(sep))
                }
            }
            SepCat { items, sep, spaced } => {
                if *spaced {
                    Regex::spaced_separated_cat(lv(items), l(sep))
                } else {
                    Regex::separated_cat(lv(items), l(sep))
                }
            }
            SepRepeat { r, n, sep, spaced } => {
                if *spaced {
                    l(r).spaced_separated_repeat(*n, l(sep))
                } else {
                    l(r).separated_repeat(*n, l(sep))
                }
            }
            SepRepeatAtMost { r, n, sep, spaced } => {
                if *spaced {
                    l(r).spaced_separated_repeat_at_most(*n, l(sep))
                } else {
                    l(r).separated_repeat_at_most(*n, l(sep))
                }
            }
            Delimited { r, open, close, spaced } => {
                if *spaced {
                    l(r).spaced_delimited(l(open), l(close))
                } else {
                    l(r).delimited(l(open), l(close))
                }
            }
            Mark { r, table } => l(r).mark(&|b| lookup(table, b)),
            MarkAll { r, m } => l(r).mark(&|_| Some(*m)),
            MarkBytes { r, bytes, m } => l(r).mark_bytes(bytes.iter().copied(), *m),
            ReplaceMarkers { r, upd } => l(r).replace_markers(&|m| lookup(upd, m)),
            Utf8Cps => Regex::utf8_cps(),
            Utf8 => Regex::utf8(),
            JsonString => Regex::json_string(),
        }
    }

    pub fn children(&self) -> Vec<&Re> {
        use Re::*;
        match self {
            Byte(_) | ByteFrom(_) | ByteNotFrom(_) | AnyByte | Named(_) | Word(_) | Blanks | BlanksStrict | Any | Epsilon | Empty | Utf8Cps | Utf8 | JsonString => vec![],
            Cat { items, .. } | Union(items) | Inter(items) => items.iter().collect(),
            Terminated { a, b, .. } | Or(a, b) | And(a, b) | Minus(a, b) => vec![a, b],
            Neg(r) | Optional(r) | List { r, .. } | NonEmptyList { r, .. } | Repeat { r, .. } | RepeatAtMost { r, .. } => vec![r],
            SepList { r, sep, .. } | SepNonEmptyList { r, sep, .. } | SepRepeat { r, sep, .. } | SepRepeatAtMost { r, sep, .. } => vec![r, sep],
            SepCat { items, sep, .. } => items.iter().chain(std::iter::once(&**sep)).collect(),
            Delimited { r, open, close, .. } => vec![r, open, close],
            Mark { r, .. } | MarkAll { r, .. } | MarkBytes { r, .. } | ReplaceMarkers { r, .. } => vec![r],
        }
    }

    fn map_children(&self, f: &mut dyn FnMut(&Re) -> Re) -> Re {
        use Re::*;
        let bx = |r: &B, f: &mut dyn FnMut(&Re) -> Re| Box::new(f(r));
        match self {
            Byte(_) | ByteFrom(_) | ByteNotFrom(_) | AnyByte | Named(_) | Word(_) | Blanks | BlanksStrict | Any | Epsilon | Empty | Utf8Cps | Utf8 | JsonString => self.clone(),
            Cat { items, spaced } => Cat { items: items.iter().map(|r| f(r)).collect(), spaced: *spaced },
            Union(v) => Union(v.iter().map(|r| f(r)).collect()),
            Inter(v) => Inter(v.iter().map(|r| f(r)).collect()),
            Terminated { a, b, spaced } => Terminated { a: bx(a, f), b: bx(b, f), spaced: *spaced },
            Or(a, b) => Or(bx(a, f), bx(b, f)),
            And(a, b) => And(bx(a, f), bx(b, f)),
            Neg(a) => Neg(bx(a, f)),
            Minus(a, b) => Minus(bx(a, f), bx(b, f)),
            List { r, spaced } => List { r: bx(r, f), spaced: *spaced },
            NonEmptyList { r, spaced } => NonEmptyList { r: bx(r, f), spaced: *spaced },
            Optional(r) => Optional(bx(r, f)),
            Repeat { r, n, spaced } => Repeat { r: bx(r, f), n: *n, spaced: *spaced },
            RepeatAtMost { r, n, spaced } => RepeatAtMost { r: bx(r, f), n: *n, spaced: *spaced },
            SepList { r, sep, spaced } => SepList { r: bx(r, f), sep: bx(sep, f), spaced: *spaced },
            SepNonEmptyList { r, sep, spaced } => SepNonEmptyList { r: bx(r, f), sep: bx(sep, f), spaced: *spaced },
            SepCat { items, sep, spaced } => SepCat { items: items.iter().map(|r| f(r)).collect(), sep: bx(sep, f), spaced: *spaced },
            SepRepeat { r, n, sep, spaced } => SepRepeat { r: bx(r, f), n: *n, sep: bx(sep, f), spaced: *spaced },
            SepRepeatAtMost { r, n, sep, spaced } => SepRepeatAtMost { r: bx(r, f), n: *n, sep: bx(sep, f), spaced: *spaced },
            Delimited { r, open, close, spaced } => Delimited { r: bx(r, f), open: bx(open, f), close: bx(close, f), spaced: *spaced },
            Mark { r, table } => Mark { r: bx(r, f), table: table.clone() },
            MarkAll { r, m } => MarkAll { r: bx(r, f), m: *m },
            MarkBytes { r, bytes, m } => MarkBytes { r: bx(r, f), bytes: bytes.clone(), m: *m },
            ReplaceMarkers { r, upd } => ReplaceMarkers { r: bx(r, f), upd: upd.clone() },
        }
    }

    pub fn size(&self) -> usize {
        1 + self.children().iter().map(|c| c.size()).sum::<usize>()
    }

    /// Number of letter positions of the expression once the derived
    /// combinators are expanded (≈ states of the library's non-deterministic
    /// automaton): used to keep the library's determinisation affordable.
    pub fn positions(&self) -> usize {
        use Re::*;
        let blanks = 1usize;
        match self {
            Byte(_) | ByteFrom(_) | ByteNotFrom(_) | AnyByte | Named(_) | Any => 1,
            Word(s) => s.len(),
            Blanks | BlanksStrict => 1,
            Epsilon | Empty => 0,
            Utf8Cps | Utf8 => 20,
            JsonString => 40,
            Cat { items, spaced } => items.iter().map(|r| r.positions()).sum::<usize>() + if *spaced { items.len() * blanks } else { 0 },
            Union(v) | Inter(v) => v.iter().map(|r| r.positions()).sum(),
            Terminated { a, b, .. } | Or(a, b) | And(a, b) | Minus(a, b) => a.positions() + b.positions() + 1,
            Neg(r) | Optional(r) => r.positions(),
            List { r, spaced } | NonEmptyList { r, spaced } => r.positions() * if *spaced { 2 } else { 1 } + 1,
            Repeat { r, n, .. } => (r.positions() + 1) * n,
            RepeatAtMost { r, n, .. } => (r.positions() + 1) * n * (n + 1) / 2,
            SepList { r, sep, .. } | SepNonEmptyList { r, sep, .. } => 2 * r.positions() + sep.positions() + 2,
            SepCat { items, sep, .. } => items.iter().map(|r| r.positions()).sum::<usize>() + items.len() * (sep.positions() + 2),
            SepRepeat { r, n, sep, .. } => (r.positions() + sep.positions() + 2) * n,
            SepRepeatAtMost { r, n, sep, .. } => (r.positions() + sep.positions() + 2) * n * (n + 1) / 2,
            Delimited { r, open, close, .. } => r.positions() + open.positions() + close.positions() + 2,
            Mark { r, .. } | MarkAll { r, .. } | MarkBytes { r, .. } | ReplaceMarkers { r, .. } => r.positions(),
        }
    }

    pub fn depth(&self) -> usize {
        1 + self.children().iter().map(|c| c.depth()).max().unwrap_or(0)
    }

    pub fn any_node(&self, p: &dyn Fn(&Re) -> bool) -> bool {
        p(self) || self.children().iter().any(|c| c.any_node(p))
    }

    pub fn is_relabel(&self) -> bool {
        matches!(self, Re::Mark { .. } | Re::MarkAll { .. } | Re::MarkBytes { .. } | Re::ReplaceMarkers { .. } | Re::JsonString)
    }

    /// Removes every relabelling node (the library-named `JsonString`, which
    /// carries marker 1, is replaced by an erasure of its markers).
    pub fn strip_marks(&self) -> Re {
        match self {
            Re::Mark { r, .. } | Re::MarkAll { r, .. } | Re::MarkBytes { r, .. } | Re::ReplaceMarkers { r, .. } => r.strip_marks(),
            Re::JsonString => Re::MarkAll { r: Box::new(Re::JsonString), m: 0 },
            _ => self.map_children(&mut |c| c.strip_marks()),
        }
    }

    /// `byte_from` collections without repeated bytes (a repeated byte makes
    /// `to_automaton` panic: reported by the dedicated sub-check).
    pub fn dedup_leaves(&self) -> Re {
        match self {
            Re::ByteFrom(v) => {
                let mut seen = BTreeSet::new();
                Re::ByteFrom(v.iter().copied().filter(|b| seen.insert(*b)).collect())
            }
            _ => self.map_children(&mut |c| c.dedup_leaves()),
        }
    }

    pub fn has_duplicate_byte_from(&self) -> bool {
        self.any_node(&|n| matches!(n, Re::ByteFrom(v) if v.iter().collect::<BTreeSet<_>>().len() != v.len()))
    }

    /// Restricts an AST to the documented domain of the must-hold checks:
    /// * no marker below `neg` / on the right of `minus` (documented failure);
    /// * no relabelling above a complement, `any()` or `inter([])` (relabelling
    ///   the leaves and relabelling the words differ there: covered by the
    ///   separate report-only sub-check);
    /// * `replace_markers` above an intersection only with an injective update
    ///   that fixes 0.
    pub fn sanitize(&self) -> Re {
        match self {
            Re::Neg(a) => Re::Neg(Box::new(a.strip_marks().sanitize())),
            Re::Minus(a, b) => Re::Minus(Box::new(a.sanitize()), Box::new(b.strip_marks().sanitize())),
            Re::Mark { r, .. } | Re::MarkAll { r, .. } | Re::MarkBytes { r, .. } if r.any_node(&|n| matches!(n, Re::Neg(_) | Re::Minus(..) | Re::Any) || matches!(n, Re::Inter(v) if v.is_empty())) => r.sanitize(),
            Re::ReplaceMarkers { r, upd } => {
                let bad_shape = r.any_node(&|n| matches!(n, Re::Neg(_) | Re::Minus(..) | Re::Any) || matches!(n, Re::Inter(v) if v.is_empty()));
                let has_inter = r.any_node(&|n| matches!(n, Re::Inter(_) | Re::And(..)));
                let injective_fix0 = {
                    // effective update on the markers 0..=MAXM
                    let img: Vec<usize> = (0..=MAX_MARKER).map(|m| lookup(upd, m).unwrap_or(m)).collect();
                    let set: BTreeSet<usize> = img.iter().copied().collect();
                    img[0] == 0 && set.len() == img.len()
                };
                if bad_shape || (has_inter && !injective_fix0) {
                    r.sanitize()
                } else {
                    Re::ReplaceMarkers { r: Box::new(r.sanitize()), upd: upd.clone() }
                }
            }
            _ => self.map_children(&mut |c| c.sanitize()),
        }
    }
}

/// Largest marker the generators use.
pub const MAX_MARKER: usize = 4;

// ---------------------------------------------------------------------------
// Alphabet classes

#[derive(Clone, Debug)]
pub struct Classes {
    pub class_of: [u16; 256],
    pub members: Vec<Vec<u8>>,
}

impl Classes {
    pub fn from_sets(sets: &[Vec<u8>]) -> Classes {
        // signature of a byte = which sets contain it
        let mut sig: Vec<Vec<bool>> = vec![Vec::with_capacity(sets.len()); 256];
        for s in sets {
            let mut m = [false; 256];
            for b in s {
                m[*b as usize] = true;
            }
            for b in 0..256 {
                sig[b].push(m[b]);
            }
        }
        let mut ids: BTreeMap<Vec<bool>, u16> = BTreeMap::new();
        let mut class_of = [0u16; 256];
        let mut members: Vec<Vec<u8>> = vec![];
        for b in 0..256 {
            let next = ids.len() as u16;
            let id = *ids.entry(sig[b].clone()).or_insert(next);
            if id as usize == members.len() {
                members.push(vec![]);
            }
            members[id as usize].push(b as u8);
            class_of[b] = id;
        }
        Classes { class_of, members }
    }
    pub fn n(&self) -> usize {
        self.members.len()
    }
    pub fn rep(&self, c: usize) -> u8 {
        self.members[c][0]
    }
    fn set(&self, bytes: &[u8]) -> BTreeSet<u16> {
        bytes.iter().map(|b| self.class_of[*b as usize]).collect()
    }
}

fn utf8_sets() -> Vec<Vec<u8>> {
    let r = |a: u8, b: u8| (a..=b).collect::<Vec<u8>>();
    vec![r(0x00, 0x7F), r(0xC2, 0xDF), r(0x80, 0xBF), vec![0xE0], r(0xA0, 0xBF), r(0xE1, 0xEC), r(0xEE, 0xEF), vec![0xED], r(0x80, 0x9F), vec![0xF0], r(0x90, 0xBF), r(0xF1, 0xF3), vec![0xF4], r(0x80, 0x8F)]
}

fn json_sets() -> Vec<Vec<u8>> {
    let mut v = utf8_sets();
    v.push((0x00..=0x1F).collect());
    v.push(vec![b'"']);
    v.push(vec![b'\\']);
    v.push(b"\"\\/bfnrt".to_vec());
    v.push(vec![b'u']);
    v.push((b'0'..=b'9').chain(b'a'..=b'f').chain(b'A'..=b'F').collect());
    v
}

fn collect_sets(re: &Re, out: &mut Vec<Vec<u8>>) {
    use Re::*;
    let blank = || b" \t\n".to_vec();
    match re {
        Byte(b) => out.push(vec![*b]),
        ByteFrom(v) | ByteNotFrom(v) => out.push(v.clone()),
        Named(n) => out.push(n.bytes()),
        Word(s) => s.bytes().for_each(|b| out.push(vec![b])),
        Blanks | BlanksStrict => out.push(blank()),
        Mark { table, .. } => {
            // one set per byte: the update is a function of the byte
            for (b, _) in table {
                out.push(vec![*b])
            }
        }
        MarkBytes { bytes, .. } => out.push(bytes.clone()),
        Utf8Cps | Utf8 => out.extend(utf8_sets()),
        JsonString => out.extend(json_sets()),
        Cat { spaced: true, .. }
        | Terminated { spaced: true, .. }
        | List { spaced: true, .. }
        | NonEmptyList { spaced: true, .. }
        | Repeat { spaced: true, .. }
        | RepeatAtMost { spaced: true, .. }
        | SepList { spaced: true, .. }
        | SepNonEmptyList { spaced: true, .. }
        | SepCat { spaced: true, .. }
        | SepRepeat { spaced: true, .. }
        | SepRepeatAtMost { spaced: true, .. }
        | Delimited { spaced: true, .. } => out.push(blank()),
        _ => {}
    }
    for c in re.children() {
        collect_sets(c, out);
    }
}

pub fn classes_of(re: &Re) -> Classes {
    let mut sets = vec![];
    collect_sets(re, &mut sets);
    Classes::from_sets(&sets)
}

// ---------------------------------------------------------------------------
// Core terms and derivatives

pub type Letter = (u16, u32); // (class, marker)

#[derive(Clone, PartialEq, Eq, PartialOrd, Ord, Hash, Debug)]
pub enum Core {
    Empty,
    Eps,
    Leaf(BTreeSet<Letter>),
    /// right-nested concatenation
    Cat(Rc<Core>, Rc<Core>),
    /// sorted, duplicate-free, flattened, ≥ 2 elements, no `Empty`
    Alt(Vec<Rc<Core>>),
    /// marker-unifying intersection (operands sorted)
    And(Rc<Core>, Rc<Core>),
    /// complement among unmarked words; the operand is unmarked
    Not(Rc<Core>),
    Star(Rc<Core>),
    /// language-level relabelling: the words of the operand with every letter
    /// replaced by its image (total table over classes × markers of the operand)
    Map(Rc<BTreeMap<Letter, Letter>>, Rc<Core>),
}

pub type T = Rc<Core>;

fn rc(c: Core) -> T {
    Rc::new(c)
}
pub fn empty() -> T {
    rc(Core::Empty)
}
pub fn eps() -> T {
    rc(Core::Eps)
}
pub fn leaf(s: BTreeSet<Letter>) -> T {
    if s.is_empty() {
        empty()
    } else {
        rc(Core::Leaf(s))
    }
}
pub fn cat(a: T, b: T) -> T {
    match (&*a, &*b) {
        (Core::Empty, _) | (_, Core::Empty) => empty(),
        (Core::Eps, _) => b,
        (_, Core::Eps) => a,
        (Core::Cat(x, y), _) => cat(x.clone(), cat(y.clone(), b)),
        _ => rc(Core::Cat(a, b)),
    }
}
pub fn cat_all(v: impl IntoIterator<Item = T>) -> T {
    let v: Vec<T> = v.into_iter().collect();
    v.into_iter().rev().fold(eps(), |acc, x| cat(x, acc))
}
pub fn alt(v: impl IntoIterator<Item = T>) -> T {
    let mut set: BTreeSet<T> = BTreeSet::new();
    let mut leaves: BTreeSet<Letter> = BTreeSet::new();
    let mut stack: Vec<T> = v.into_iter().collect();
    while let Some(x) = stack.pop() {
        match &*x {
            Core::Empty => {}
            Core::Alt(xs) => stack.extend(xs.iter().cloned()),
            Core::Leaf(s) => leaves.extend(s.iter().copied()),
            _ => {
                set.insert(x);
            }
        }
    }
    if !leaves.is_empty() {
        set.insert(leaf(leaves));
    }
    match set.len() {
        0 => empty(),
        1 => set.into_iter().next().unwrap(),
        _ => rc(Core::Alt(set.into_iter().collect())),
    }
}
pub fn sigma_star() -> T {
    rc(Core::Not(empty()))
}
pub fn and(a: T, b: T) -> T {
    let is_univ = |x: &T| matches!(&**x, Core::Not(y) if **y == Core::Empty);
    match (&*a, &*b) {
        (Core::Empty, _) | (_, Core::Empty) => return empty(),
        (Core::Eps, _) => return if nullable(&b) { eps() } else { empty() },
        (_, Core::Eps) => return if nullable(&a) { eps() } else { empty() },
        _ => {}
    }
    if is_univ(&a) {
        return b;
    }
    if is_univ(&b) {
        return a;
    }
    if a <= b {
        rc(Core::And(a, b))
    } else {
        rc(Core::And(b, a))
    }
}
pub fn not(a: T) -> T {
    match &*a {
        Core::Not(x) => x.clone(),
        _ => rc(Core::Not(a)),
    }
}
pub fn star(a: T) -> T {
    match &*a {
        Core::Empty | Core::Eps => eps(),
        Core::Star(_) => a,
        _ => rc(Core::Star(a)),
    }
}
pub fn map_(f: Rc<BTreeMap<Letter, Letter>>, a: T) -> T {
    match &*a {
        Core::Empty | Core::Eps => a,
        _ => rc(Core::Map(f, a)),
    }
}
pub fn plus(a: T) -> T {
    cat(a.clone(), star(a))
}
pub fn opt(a: T) -> T {
    alt([a, eps()])
}

pub fn nullable(t: &Core) -> bool {
    match t {
        Core::Empty | Core::Leaf(_) => false,
        Core::Eps | Core::Star(_) => true,
        Core::Cat(a, b) | Core::And(a, b) => nullable(a) && nullable(b),
        Core::Alt(v) => v.iter().any(|x| nullable(x)),
        Core::Not(a) => !nullable(a),
        Core::Map(_, a) => nullable(a),
    }
}

pub fn term_size(t: &Core) -> usize {
    match t {
        Core::Empty | Core::Eps | Core::Leaf(_) => 1,
        Core::Cat(a, b) | Core::And(a, b) => 1 + term_size(a) + term_size(b),
        Core::Alt(v) => 1 + v.iter().map(|x| term_size(x)).sum::<usize>(),
        Core::Not(a) | Core::Star(a) | Core::Map(_, a) => 1 + term_size(a),
    }
}

/// Derivative with respect to one marked letter.
pub fn deriv(t: &T, l: Letter) -> T {
    match &**t {
        Core::Empty | Core::Eps => empty(),
        Core::Leaf(s) => {
            if s.contains(&l) {
                eps()
            } else {
                empty()
            }
        }
        Core::Cat(a, b) => {
            let left = cat(deriv(a, l), b.clone());
            if nullable(a) {
                alt([left, deriv(b, l)])
            } else {
                left
            }
        }
        Core::Alt(v) => alt(v.iter().map(|x| deriv(x, l))),
        Core::And(a, b) => {
            let (c, m) = l;
            if m == 0 {
                and(deriv(a, l), deriv(b, l))
            } else {
                let (am, a0) = (deriv(a, l), deriv(a, (c, 0)));
                let (bm, b0) = (deriv(b, l), deriv(b, (c, 0)));
                alt([and(am.clone(), bm.clone()), and(am, b0), and(a0, bm)])
            }
        }
        Core::Not(a) => {
            if l.1 == 0 {
                not(deriv(a, l))
            } else {
                empty()
            }
        }
        Core::Star(a) => cat(deriv(a, l), t.clone()),
        Core::Map(f, a) => map_(f.clone(), alt(f.iter().filter(|(_, img)| **img == l).map(|(pre, _)| deriv(a, *pre)))),
    }
}

fn has_not(t: &Core) -> bool {
    match t {
        Core::Empty | Core::Eps | Core::Leaf(_) => false,
        Core::Cat(a, b) | Core::And(a, b) => has_not(a) || has_not(b),
        Core::Alt(v) => v.iter().any(|x| has_not(x)),
        Core::Not(_) => true,
        Core::Star(a) | Core::Map(_, a) => has_not(a),
    }
}

/// Relabelling. Without complement below, relabelling the leaves is the
/// relabelling of the words. With a complement below (only generated by the
/// separate "relabel above complement" sub-check) the language-level reading of
/// the doc comment ("For all bytes b of self, overwrites its marker with m if
/// f(b) == Some(m), and leave it unchanged if f(b) == None") is used.
fn relabel(t: &T, n_classes: usize, f: &dyn Fn(Letter) -> Letter) -> T {
    if has_not(t) {
        let mut ms = BTreeSet::new();
        ms.insert(0u32);
        markers_of(t, &mut ms);
        let mut table = BTreeMap::new();
        for c in 0..n_classes as u16 {
            for m in &ms {
                table.insert((c, *m), f((c, *m)));
            }
        }
        return map_(Rc::new(table), t.clone());
    }
    relabel_leaves(t, f)
}

fn relabel_leaves(t: &T, f: &dyn Fn(Letter) -> Letter) -> T {
    match &**t {
        Core::Empty | Core::Eps => t.clone(),
        Core::Leaf(s) => leaf(s.iter().map(|l| f(*l)).collect()),
        Core::Cat(a, b) => cat(relabel_leaves(a, f), relabel_leaves(b, f)),
        Core::Alt(v) => alt(v.iter().map(|x| relabel_leaves(x, f))),
        Core::And(a, b) => and(relabel_leaves(a, f), relabel_leaves(b, f)),
        Core::Not(_) | Core::Map(..) => unreachable!("relabel_leaves below a complement"),
        Core::Star(a) => star(relabel_leaves(a, f)),
    }
}

pub fn markers_of(t: &Core, out: &mut BTreeSet<u32>) {
    match t {
        Core::Empty | Core::Eps => {}
        Core::Leaf(s) => out.extend(s.iter().map(|l| l.1)),
        Core::Cat(a, b) | Core::And(a, b) => {
            markers_of(a, out);
            markers_of(b, out)
        }
        Core::Alt(v) => v.iter().for_each(|x| markers_of(x, out)),
        Core::Not(a) | Core::Star(a) => markers_of(a, out),
        Core::Map(f, _) => out.extend(f.values().map(|l| l.1)),
    }
}

/// Lowers an AST to a core term over the classes `cl` (which must refine every
/// byte set of the AST: use `classes_of`).
pub fn lower(re: &Re, cl: &Classes) -> T {
    use Re::*;
    let all: BTreeSet<u16> = (0..cl.n() as u16).collect();
    let set0 = |s: BTreeSet<u16>| leaf(s.into_iter().map(|c| (c, 0u32)).collect());
    let bytes = |v: &[u8]| set0(cl.set(v));
    let blank = || bytes(b" \t\n");
    let blanks = || star(blank());
    let lo = |r: &Re| lower(r, cl);
    // r1 S r2 S ... rn
    let sep_cat = |items: Vec<T>, sep: T| -> T {
        let mut it = items.into_iter();
        match it.next() {
            None => eps(),
            Some(first) => it.fold(first, |acc, r| cat_all([acc, sep.clone(), r])),
        }
    };
    let spaced_sep = |sep: T| cat_all([blanks(), sep, blanks()]);
    match re {
        Byte(b) => bytes(&[*b]),
        ByteFrom(v) => bytes(v),
        ByteNotFrom(v) => {
            let ex = cl.set(v);
            set0(all.difference(&ex).copied().collect())
        }
        AnyByte => set0(all.clone()),
        Named(n) => bytes(&n.bytes()),
        Word(s) => cat_all(s.bytes().map(|b| bytes(&[b]))),
        Blanks => blanks(),
        BlanksStrict => plus(blank()),
        Any => star(set0(all.clone())),
        Epsilon => eps(),
        Empty => empty(),
        Cat { items, spaced } => {
            let v: Vec<T> = items.iter().map(lo).collect();
            if *spaced {
                sep_cat(v, blanks())
            } else {
                cat_all(v)
            }
        }
        Union(v) => alt(v.iter().map(lo)),
        Inter(v) => v.iter().map(lo).fold(sigma_star(), and),
        Terminated { a, b, spaced } => {
            if *spaced {
                cat_all([lo(a), blanks(), lo(b)])
            } else {
                cat(lo(a), lo(b))
            }
        }
        Or(a, b) => alt([lo(a), lo(b)]),
        And(a, b) => and(lo(a), lo(b)),
        Neg(a) => not(lo(a)),
        Minus(a, b) => and(lo(a), not(lo(b))),
        List { r, spaced } => {
            let x = lo(r);
            if *spaced {
                // "Spaces are not inserted when considering only 0 or 1 iteration"
                alt([eps(), cat(x.clone(), star(cat(blanks(), x)))])
            } else {
                star(x)
            }
        }
        NonEmptyList { r, spaced } => {
            let x = lo(r);
            if *spaced {
                cat(x.clone(), star(cat(blanks(), x)))
            } else {
                plus(x)
            }
        }
        Optional(r) => opt(lo(r)),
        Repeat { r, n, spaced } => {
            let x = lo(r);
            let v = vec![x; *n];
            if *spaced {
                sep_cat(v, blanks())
            } else {
                cat_all(v)
            }
        }
        RepeatAtMost { r, n, spaced } => {
            let x = lo(r);
            alt((0..=*n).map(|i| {
                let v = vec![x.clone(); i];
                if *spaced {
                    sep_cat(v, blanks())
                } else {
                    cat_all(v)
                }
            }))
        }
        SepNonEmptyList { r, sep, spaced } => {
            let (x, s) = (lo(r), lo(sep));
            let s = if *spaced { spaced_sep(s) } else { s };
            cat(x.clone(), star(cat(s, x)))
        }
        SepList { r, sep, spaced } => {
            let (x, s) = (lo(r), lo(sep));
            let s = if *spaced { spaced_sep(s) } else { s };
            alt([eps(), cat(x.clone(), star(cat(s, x)))])
        }
        SepCat { items, sep, spaced } => {
            let s = lo(sep);
            let s = if *spaced { spaced_sep(s) } else { s };
            sep_cat(items.iter().map(lo).collect(), s)
        }
        SepRepeat { r, n, sep, spaced } => {
            let s = lo(sep);
            let s = if *spaced { spaced_sep(s) } else { s };
            sep_cat(vec![lo(r); *n], s)
        }
        SepRepeatAtMost { r, n, sep, spaced } => {
            let s = lo(sep);
            let s = if *spaced { spaced_sep(s) } else { s };
            let x = lo(r);
            alt((0..=*n).map(|i| sep_cat(vec![x.clone(); i], s.clone())))
        }
        Delimited { r, open, close, spaced } => {
            if *spaced {
                cat_all([lo(open), blanks(), lo(r), blanks(), lo(close)])
            } else {
                cat_all([lo(open), lo(r), lo(close)])
            }
        }
        Mark { r, table } => {
            // class → marker (the classes refine the singletons of the table)
            let mut upd: BTreeMap<u16, u32> = BTreeMap::new();
            for (b, m) in table {
                upd.entry(cl.class_of[*b as usize]).or_insert(*m as u32);
            }
            relabel(&lo(r), cl.n(), &|(c, m)| (c, upd.get(&c).copied().unwrap_or(m)))
        }
        MarkAll { r, m } => relabel(&lo(r), cl.n(), &|(c, _)| (c, *m as u32)),
        MarkBytes { r, bytes, m } => {
            let s = cl.set(bytes);
            relabel(&lo(r), cl.n(), &|(c, old)| (c, if s.contains(&c) { *m as u32 } else { old }))
        }
        ReplaceMarkers { r, upd } => relabel(&lo(r), cl.n(), &|(c, m)| (c, lookup(upd, m as usize).map(|x| x as u32).unwrap_or(m))),
        Utf8Cps => lower_utf8_cps(cl),
        Utf8 => star(lower_utf8_cps(cl)),
        JsonString => {
            // doc: 0x22 ( unescaped | \\["\\/bfnrt] | \\u[0-9a-fA-F]{4} )* 0x22, the
            // quoted content marked 1, unescaped = UTF-8 code point sequences
            // without the bytes 0x00..=0x1F, '"', '\\'
            let b = |v: &[u8]| set0(cl.set(v));
            let forbidden: Vec<u8> = (0x00..=0x1F).chain(*b"\"\\").collect();
            let ok_byte = set0(all.difference(&cl.set(&forbidden)).copied().collect());
            let unescaped = and(lower_utf8_cps(cl), ok_byte);
            let simple = cat(b(b"\\"), b(b"\"\\/bfnrt"));
            let hex: Vec<u8> = (b'0'..=b'9').chain(b'a'..=b'f').chain(b'A'..=b'F').collect();
            let uni = cat_all([b(b"\\"), b(b"u"), b(&hex), b(&hex), b(&hex), b(&hex)]);
            let content = star(alt([unescaped, simple, uni]));
            let content = relabel_leaves(&content, &|(c, _)| (c, 1));
            cat_all([b(b"\""), content, b(b"\"")])
        }
    }
}

fn lower_utf8_cps(cl: &Classes) -> T {
    let r = |a: u8, b: u8| leaf(cl.set(&(a..=b).collect::<Vec<u8>>()).into_iter().map(|c| (c, 0)).collect());
    let cont = || r(0x80, 0xBF);
    alt([
        r(0x00, 0x7F),
        cat(r(0xC2, 0xDF), cont()),
        cat_all([r(0xE0, 0xE0), r(0xA0, 0xBF), cont()]),
        cat_all([alt([r(0xE1, 0xEC), r(0xEE, 0xEF)]), cont(), cont()]),
        cat_all([r(0xED, 0xED), r(0x80, 0x9F), cont()]),
        cat_all([r(0xF0, 0xF0), r(0x90, 0xBF), cont(), cont()]),
        cat_all([r(0xF1, 0xF3), cont(), cont(), cont()]),
        cat_all([r(0xF4, 0xF4), r(0x80, 0x8F), cont(), cont()]),
    ])
}

// ---------------------------------------------------------------------------
// Reference transducer

#[derive(Clone, Copy, Debug, PartialEq, Eq)]
pub enum Tr {
    Dead,
    To { marker: usize, target: usize },
    Ambiguous { m1: usize, m2: usize },
}

#[derive(Clone, Debug)]
pub struct RefAut {
    pub classes: Classes,
    pub root: usize,
    pub nullable: Vec<bool>,
    pub live: Vec<bool>,
    /// per state, per class
    pub trans: Vec<Vec<Tr>>,
    /// length of a shortest accepted continuation
    pub dist: Vec<usize>,
}

#[derive(Clone, Debug, PartialEq, Eq)]
pub enum RefErr {
    TooLarge,
}

impl RefAut {
    pub fn build(root: T, classes: Classes, max_states: usize) -> Result<RefAut, RefErr> {
        let mut ms = BTreeSet::new();
        ms.insert(0u32);
        markers_of(&root, &mut ms);
        let ms: Vec<u32> = ms.into_iter().collect();
        let nc = classes.n();
        let mut ids: HashMap<T, usize> = HashMap::new();
        let mut terms: Vec<T> = vec![];
        let mut succ: Vec<Vec<Vec<usize>>> = vec![]; // state → class → marker idx → state
        ids.insert(root.clone(), 0);
        terms.push(root);
        let mut i = 0;
        // total work bound (term nodes produced by derivation)
        let mut budget: usize = 3_000_000;
        while i < terms.len() {
            let t = terms[i].clone();
            let mut row = vec![vec![0usize; ms.len()]; nc];
            for c in 0..nc {
                for (mi, m) in ms.iter().enumerate() {
                    let d = deriv(&t, (c as u16, *m));
                    let sz = term_size(&d);
                    budget = budget.saturating_sub(sz);
                    if sz > 3_000 || budget == 0 {
                        return Err(RefErr::TooLarge);
                    }
                    let id = match ids.get(&d) {
                        Some(id) => *id,
                        None => {
                            let id = terms.len();
                            if id >= max_states {
                                return Err(RefErr::TooLarge);
                            }
                            ids.insert(d.clone(), id);
                            terms.push(d);
                            id
                        }
                    };
                    row[c][mi] = id;
                }
            }
            succ.push(row);
            i += 1;
        }
        let n = terms.len();
        let nullable_v: Vec<bool> = terms.iter().map(|t| nullable(t)).collect();
        // distance to acceptance (backward BFS)
        let mut pred: Vec<Vec<usize>> = vec![vec![]; n];
        for (s, row) in succ.iter().enumerate() {
            for per_c in row {
                for t in per_c {
                    pred[*t].push(s);
                }
            }
        }
        let mut dist = vec![usize::MAX; n];
        let mut q: VecDeque<usize> = VecDeque::new();
        for s in 0..n {
            if nullable_v[s] {
                dist[s] = 0;
                q.push_back(s);
            }
        }
        while let Some(s) = q.pop_front() {
            for p in &pred[s] {
                if dist[*p] == usize::MAX {
                    dist[*p] = dist[s] + 1;
                    q.push_back(*p);
                }
            }
        }
        let live: Vec<bool> = dist.iter().map(|d| *d != usize::MAX).collect();
        let trans: Vec<Vec<Tr>> = succ
            .iter()
            .map(|row| {
                row.iter()
                    .map(|per_m| {
                        let alive: Vec<(usize, usize)> = per_m.iter().enumerate().filter(|(_, t)| live[**t]).map(|(mi, t)| (ms[mi] as usize, *t)).collect();
                        match alive.len() {
                            0 => Tr::Dead,
                            1 => Tr::To { marker: alive[0].0, target: alive[0].1 },
                            _ => Tr::Ambiguous { m1: alive[0].0, m2: alive[1].0 },
                        }
                    })
                    .collect()
            })
            .collect();
        Ok(RefAut { classes, root: 0, nullable: nullable_v, live, trans, dist })
    }

    pub fn from_re(re: &Re, max_states: usize) -> Result<RefAut, RefErr> {
        let cl = classes_of(re);
        let root = lower(re, &cl);
        RefAut::build(root, cl, max_states)
    }

    pub fn n_states(&self) -> usize {
        self.trans.len()
    }

    pub fn is_empty(&self) -> bool {
        !self.live[self.root]
    }

    /// language ⊆ {ε}
    pub fn sub_eps(&self) -> bool {
        self.is_empty() || self.trans[self.root].iter().all(|t| *t == Tr::Dead)
    }

    /// States reachable from the root through unambiguous live transitions; an
    /// ambiguity met on the way is returned with the (representative) byte
    /// prefix leading to it.
    pub fn reachable(&self) -> Result<Vec<usize>, (Vec<u8>, u8, usize, usize)> {
        if self.is_empty() {
            return Ok(vec![]);
        }
        let n = self.n_states();
        let mut parent: Vec<Option<(usize, u8)>> = vec![None; n];
        let mut seen = vec![false; n];
        let mut order = vec![];
        let mut q = VecDeque::from([self.root]);
        seen[self.root] = true;
        while let Some(s) = q.pop_front() {
            order.push(s);
            for (c, tr) in self.trans[s].iter().enumerate() {
                match tr {
                    Tr::Dead => {}
                    Tr::To { target, .. } => {
                        if !seen[*target] {
                            seen[*target] = true;
                            parent[*target] = Some((s, self.classes.rep(c)));
                            q.push_back(*target);
                        }
                    }
                    Tr::Ambiguous { m1, m2 } => {
                        let mut w = vec![];
                        let mut cur = s;
                        while let Some((p, b)) = parent[cur] {
                            w.push(b);
                            cur = p;
                        }
                        w.reverse();
                        return Err((w, self.classes.rep(c), *m1, *m2));
                    }
                }
            }
        }
        Ok(order)
    }

    /// Markers of an accepted word, `None` for a rejected one. Must only be
    /// called on unambiguous automata.
    pub fn run(&self, w: &[u8]) -> Option<Vec<usize>> {
        if self.is_empty() {
            return None;
        }
        let mut s = self.root;
        let mut out = Vec::with_capacity(w.len());
        for b in w {
            match self.trans[s][self.classes.class_of[*b as usize] as usize] {
                Tr::To { marker, target } => {
                    out.push(marker);
                    s = target;
                }
                _ => return None,
            }
        }
        if self.nullable[s] {
            Some(out)
        } else {
            None
        }
    }

    /// A random accepted word of length close to `target_len` (exactly, when
    /// the language has one; never longer than `max_len`), with its markers.
    pub fn sample_accepted(&self, rng: &mut vpcore::SplitMix, target_len: usize, max_len: usize) -> Option<(Vec<u8>, Vec<usize>)> {
        if self.is_empty() || self.dist[self.root] > max_len {
            return None;
        }
        let mut s = self.root;
        let mut w = vec![];
        let mut ms = vec![];
        loop {
            let len = w.len();
            if self.nullable[s] && (len >= target_len || rng.below(8) == 0) {
                break;
            }
            // candidate edges that keep acceptance reachable within max_len
            let cands: Vec<(usize, usize, usize)> = self.trans[s]
                .iter()
                .enumerate()
                .filter_map(|(c, tr)| match tr {
                    Tr::To { marker, target } if len + 1 + self.dist[*target] <= max_len => Some((c, *marker, *target)),
                    _ => None,
                })
                .collect();
            if cands.is_empty() {
                if self.nullable[s] {
                    break;
                }
                return None;
            }
            // towards the target length: wander; beyond it: go home
            let pick = if len >= target_len {
                *cands.iter().min_by_key(|(_, _, t)| self.dist[*t]).unwrap()
            } else {
                cands[rng.below(cands.len() as u64) as usize]
            };
            let mem = &self.classes.members[pick.0];
            w.push(mem[rng.below(mem.len() as u64) as usize]);
            ms.push(pick.1);
            s = pick.2;
        }
        Some((w, ms))
    }
}

// ---------------------------------------------------------------------------
// Plain automaton (copy of the library value) and product exploration

#[derive(Clone, Debug, Serialize, Deserialize, PartialEq, Eq)]
pub struct SimpleAut {
    pub nb_states: usize,
    pub initial: usize,
    pub finals: BTreeSet<usize>,
    /// (source, byte) → (target, marker), sorted by key
    pub trans: Vec<((usize, u8), (usize, usize))>,
}

impl From<&LibAutomaton> for SimpleAut {
    fn from(a: &LibAutomaton) -> Self {
        let mut trans: Vec<_> = a.transitions.iter().map(|(k, v)| (*k, *v)).collect();
        trans.sort();
        SimpleAut { nb_states: a.nb_states, initial: a.initial_state, finals: a.final_states.iter().copied().collect(), trans }
    }
}

pub struct Indexed {
    pub nb: usize,
    pub initial: usize,
    pub fin: Vec<bool>,
    /// state*256 + byte → (target, marker)
    pub tab: Vec<Option<(usize, usize)>>,
    /// can reach a final state
    pub coreach: Vec<bool>,
    pub reach: Vec<bool>,
}

impl SimpleAut {
    /// Structural invariants of a compiled automaton ("The set of states is
    /// implicitly represented by the range 0..nb_states", one transition per
    /// (state, byte) — the map guarantees the latter once copied).
    pub fn structural(&self) -> Result<(), String> {
        if self.initial >= self.nb_states.max(1) {
            return Err(format!("initial state {} >= nb_states {}", self.initial, self.nb_states));
        }
        if let Some(f) = self.finals.iter().find(|f| **f >= self.nb_states) {
            return Err(format!("final state {f} >= nb_states {}", self.nb_states));
        }
        for ((s, b), (t, _)) in &self.trans {
            if *s >= self.nb_states || *t >= self.nb_states {
                return Err(format!("transition ({s},{b})->{t} outside 0..{}", self.nb_states));
            }
        }
        for w in self.trans.windows(2) {
            if w[0].0 == w[1].0 {
                return Err(format!("two transitions for {:?}", w[0].0));
            }
        }
        Ok(())
    }

    pub fn index(&self) -> Indexed {
        let nb = self.nb_states.max(1);
        let mut fin = vec![false; nb];
        for f in &self.finals {
            if *f < nb {
                fin[*f] = true;
            }
        }
        let mut tab = vec![None; nb * 256];
        let mut pred: Vec<Vec<usize>> = vec![vec![]; nb];
        for ((s, b), (t, m)) in &self.trans {
            if *s < nb && *t < nb {
                tab[*s * 256 + *b as usize] = Some((*t, *m));
                pred[*t].push(*s);
            }
        }
        let mut coreach = fin.clone();
        let mut st: Vec<usize> = (0..nb).filter(|s| fin[*s]).collect();
        while let Some(s) = st.pop() {
            for p in &pred[s] {
                if !coreach[*p] {
                    coreach[*p] = true;
                    st.push(*p);
                }
            }
        }
        let mut reach = vec![false; nb];
        let init = self.initial.min(nb - 1);
        reach[init] = true;
        let mut st = vec![init];
        while let Some(s) = st.pop() {
            for b in 0..256 {
                if let Some((t, _)) = tab[s * 256 + b] {
                    if !reach[t] {
                        reach[t] = true;
                        st.push(t);
                    }
                }
            }
        }
        Indexed { nb, initial: init, fin, tab, coreach, reach }
    }

    pub fn run(&self, w: &[u8]) -> Option<Vec<usize>> {
        let ix = self.index();
        ix.run(w)
    }
}

impl Indexed {
    pub fn run(&self, w: &[u8]) -> Option<Vec<usize>> {
        let mut s = self.initial;
        let mut out = vec![];
        for b in w {
            let (t, m) = self.tab[s * 256 + *b as usize]?;
            out.push(m);
            s = t;
        }
        if self.fin[s] {
            Some(out)
        } else {
            None
        }
    }
}

#[derive(Clone, Debug)]
pub struct Mismatch {
    /// short stable kind
    pub kind: &'static str,
    /// byte word leading to the mismatching pair
    pub word: Vec<u8>,
    pub detail: String,
}

#[derive(Clone, Debug, Default)]
pub struct ProductStats {
    pub pairs: usize,
    pub accepting_pairs: usize,
}

fn path(parent: &[Option<(usize, u8)>], mut i: usize) -> Vec<u8> {
    let mut w = vec![];
    while let Some((p, b)) = parent[i] {
        w.push(b);
        i = p;
    }
    w.reverse();
    w
}

/// Decides language-and-marker equality of a compiled automaton and the
/// reference transducer (which must be unambiguous) for all words.
pub fn compare_with_ref(a: &SimpleAut, r: &RefAut) -> Result<ProductStats, Mismatch> {
    let ix = a.index();
    // every byte of an alphabet class behaves like its representative
    for s in 0..ix.nb {
        if !ix.reach[s] {
            continue;
        }
        for mem in &r.classes.members {
            let first = ix.tab[s * 256 + mem[0] as usize];
            // dead targets are equivalent to missing transitions
            let norm = |x: Option<(usize, usize)>| x.filter(|(t, _)| ix.coreach[*t]);
            if let Some(b) = mem.iter().find(|b| norm(ix.tab[s * 256 + **b as usize]) != norm(first)) {
                return Err(Mismatch {
                    kind: "class-not-uniform",
                    word: vec![],
                    detail: format!("state {s}: bytes {} and {} belong to the same alphabet class of the expression but have transitions {:?} vs {:?}", mem[0], b, first, ix.tab[s * 256 + *b as usize]),
                });
            }
        }
    }
    if r.is_empty() {
        return if ix.coreach[ix.initial] {
            Err(Mismatch { kind: "accepts-extra", word: vec![], detail: "the reference language is empty but a final state is reachable in the compiled automaton".into() })
        } else {
            Ok(ProductStats { pairs: 1, accepting_pairs: 0 })
        };
    }
    let mut ids: HashMap<(usize, usize), usize> = HashMap::new();
    let mut pairs: Vec<(usize, usize)> = vec![];
    let mut parent: Vec<Option<(usize, u8)>> = vec![];
    ids.insert((ix.initial, r.root), 0);
    pairs.push((ix.initial, r.root));
    parent.push(None);
    let mut stats = ProductStats::default();
    let mut i = 0;
    while i < pairs.len() {
        let (q, s) = pairs[i];
        if ix.fin[q] != r.nullable[s] {
            return Err(Mismatch {
                kind: if ix.fin[q] { "accepts-extra" } else { "rejects-valid" },
                word: path(&parent, i),
                detail: format!("compiled automaton {} this word, the reference {}", if ix.fin[q] { "accepts" } else { "rejects" }, if r.nullable[s] { "accepts" } else { "rejects" }),
            });
        }
        if ix.fin[q] {
            stats.accepting_pairs += 1;
        }
        for c in 0..r.classes.n() {
            let b = r.classes.rep(c);
            let lib = ix.tab[q * 256 + b as usize].filter(|(t, _)| ix.coreach[*t]);
            match (lib, r.trans[s][c]) {
                (None, Tr::Dead) => {}
                (Some((t, m)), Tr::Dead) => {
                    let mut w = path(&parent, i);
                    w.push(b);
                    return Err(Mismatch { kind: "accepts-extra", word: w, detail: format!("after the prefix, byte {b} leads to a live state {t} (marker {m}) of the compiled automaton, but no word of the reference language has this prefix") });
                }
                (None, Tr::To { marker, .. }) => {
                    let mut w = path(&parent, i);
                    w.push(b);
                    return Err(Mismatch { kind: "rejects-valid", word: w, detail: format!("the reference can extend this prefix to an accepted word (marker {marker} on the last byte), the compiled automaton has no live transition (raw: {:?})", ix.tab[q * 256 + b as usize]) });
                }
                (Some((t, m)), Tr::To { marker, target }) => {
                    if m != marker {
                        let mut w = path(&parent, i);
                        w.push(b);
                        return Err(Mismatch { kind: "marker", word: w, detail: format!("last byte {b}: compiled automaton emits marker {m}, reference marker {marker}") });
                    }
                    if !ids.contains_key(&(t, target)) {
                        ids.insert((t, target), pairs.len());
                        pairs.push((t, target));
                        parent.push(Some((i, b)));
                    }
                }
                (_, Tr::Ambiguous { .. }) => {
                    return Err(Mismatch { kind: "harness:ambiguous-reference", word: path(&parent, i), detail: "compare_with_ref called on an ambiguous reference".into() });
                }
            }
        }
        i += 1;
    }
    stats.pairs = pairs.len();
    Ok(stats)
}

/// Language-and-marker equivalence of two automata over all 256 bytes.
pub fn compare_automata(a: &SimpleAut, b: &SimpleAut) -> Result<ProductStats, Mismatch> {
    let (ia, ib) = (a.index(), b.index());
    if !ia.coreach[ia.initial] || !ib.coreach[ib.initial] {
        return if ia.coreach[ia.initial] == ib.coreach[ib.initial] {
            Ok(ProductStats { pairs: 1, accepting_pairs: 0 })
        } else {
            Err(Mismatch { kind: "emptiness", word: vec![], detail: "one language is empty, the other is not".into() })
        };
    }
    let mut ids: HashMap<(usize, usize), usize> = HashMap::new();
    let mut pairs = vec![(ia.initial, ib.initial)];
    let mut parent: Vec<Option<(usize, u8)>> = vec![None];
    ids.insert(pairs[0], 0);
    let mut stats = ProductStats::default();
    let mut i = 0;
    while i < pairs.len() {
        let (p, q) = pairs[i];
        if ia.fin[p] != ib.fin[q] {
            return Err(Mismatch { kind: "acceptance", word: path(&parent, i), detail: format!("first accepts: {}, second accepts: {}", ia.fin[p], ib.fin[q]) });
        }
        if ia.fin[p] {
            stats.accepting_pairs += 1;
        }
        for byte in 0..=255u8 {
            let x = ia.tab[p * 256 + byte as usize].filter(|(t, _)| ia.coreach[*t]);
            let y = ib.tab[q * 256 + byte as usize].filter(|(t, _)| ib.coreach[*t]);
            match (x, y) {
                (None, None) => {}
                (Some((t1, m1)), Some((t2, m2))) => {
                    if m1 != m2 {
                        let mut w = path(&parent, i);
                        w.push(byte);
                        return Err(Mismatch { kind: "marker", word: w, detail: format!("markers {m1} vs {m2} on the last byte") });
                    }
                    if !ids.contains_key(&(t1, t2)) {
                        ids.insert((t1, t2), pairs.len());
                        pairs.push((t1, t2));
                        parent.push(Some((i, byte)));
                    }
                }
                _ => {
                    let mut w = path(&parent, i);
                    w.push(byte);
                    return Err(Mismatch { kind: "transition", word: w, detail: format!("live transition on the last byte: first {x:?}, second {y:?}") });
                }
            }
        }
        i += 1;
    }
    stats.pairs = pairs.len();
    Ok(stats)
}

// ---------------------------------------------------------------------------
// Harness serializer, from the documented format of `serialization.rs`:
// little-endian; `usize` as `u64`; `Vec<T>` = length (usize) then the elements;
// sets and maps as the vector of their elements sorted (maps: by key); tuples
// and structs field by field; `Automaton { nb_states, initial_state,
// final_states, transitions }`, transitions: key (usize, u8), value
// (usize, usize).

pub fn serialize_automaton(a: &SimpleAut) -> Vec<u8> {
    let mut out = vec![];
    let u = |out: &mut Vec<u8>, x: usize| out.extend_from_slice(&(x as u64).to_le_bytes());
    u(&mut out, a.nb_states);
    u(&mut out, a.initial);
    u(&mut out, a.finals.len());
    for f in &a.finals {
        u(&mut out, *f);
    }
    let mut tr = a.trans.clone();
    tr.sort_by_key(|e| e.0);
    u(&mut out, tr.len());
    for ((s, b), (t, m)) in tr {
        u(&mut out, s);
        out.push(b);
        u(&mut out, t);
        u(&mut out, m);
    }
    out
}
