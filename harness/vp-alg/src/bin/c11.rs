//! C11 — curve types implement the group law; encodings are canonical and
//! checked.
//!
//! Oracle: the affine big-integer group laws of `vp_alg::model` (short
//! Weierstrass over Z_p and over Fp2, twisted Edwards over Z_p). Library points
//! are mapped to model points through their public coordinate accessors and
//! the canonical field encodings; model points are mapped to library points
//! through the public (on-curve-checking or unchecked) coordinate constructors.
//! Encodings: a checked decoder either rejects or returns a point of the curve
//! (of the subgroup where promised) whose encoding is exactly the input.
//!
//! Layout: `vp_alg::curvemodel` (model-side helpers), `vp_alg::c11core`
//! (case types, strategies, family-generic checks, the universal decoder
//! oracle), this file (Weierstrass families with the CurveExt/CurveAffine
//! interface) and `../c11_families.rs` (Jubjub, secp256k1, Curve25519,
//! hash-to-curve), included textually.
//!
//! Regression sub-checks (must-hold oracles) for the defects this check found
//! and that were repaired in /repo: `.ct_eq` (F3), `.jacobian` (F4),
//! `.uncompressed_flagged`, `.encoding_read_raw`,
//! `bn256::G2.decode_noncanonical_coefficient`, `secp256k1.identity_accessors`
//! (F23), `secp256k1.sec1_tags`, `secp256k1.batch_normalize_computed_identity`,
//! `*.batch_normalize_edge`, `curve25519.noncanonical` (F25).
//! Known finding kept unrepaired: `bls12_381::G{1,2}.scalar_outside_subgroup`
//! (signatures `G1Projective:mul:proj*scalar:outside-subgroup`,
//! `G2Projective:mul:proj*scalar:outside-subgroup`): blst's GLV/GLS scalar
//! multiplication is only correct on the prime-order subgroup; the `.scalar`
//! sub-checks exclude (point outside the subgroup x scalar >= 2^64) and count
//! the exclusions in a class label.
//! Uncompressed / raw decoders promise on-curve + canonical only (property C16);
//! subgroup membership is required of the compressed decoders only.
//!
//! SENSITIVITY (2026-10-04; mutants applied to a scratch worktree of /repo with a
//! copy of the harness pointed at it, never to /repo; quick tier, VERIF_SEED=1;
//! "caught" = a violation signature that the unchanged tree does not produce):
//!   M1 g1.rs from_compressed without `& p.is_torsion_free()`
//!        -> caught: G1Affine:from_bytes:non-subgroup, G1Affine:serde:non-subgroup
//!   M2 jubjub/curve.rs ConstantTimeEq for JubjubExtended compares only u*z'
//!        -> caught: JubjubExtended:eq (jubjub.ops)
//!   M3 g1.rs add_mixed through blst_p1_add_affine (not "or_double")
//!        -> caught: G1Projective:add:proj+affine, G1Projective:mul:other-representation
//!   M4 jubjub/curve.rs from_bytes_inner without the ZIP-216 rejection
//!        -> caught: JubjubAffine:from_bytes:noncanonical (jubjub.noncanonical, jubjub.encoding)
//!   M5 derive/curve.rs mixed addition without the `rhs.is_identity()` select
//!        -> caught: bn256::G1:add:proj+affine, bn256::G2:add:proj+affine (+ &affine+&proj)
//!   M6 curve25519/affine.rs from_edwards without the sign correction of x
//!        -> caught: Curve25519:neg, Curve25519:sub:proj-proj, Curve25519:mul:proj*scalar,
//!           Curve25519Affine:from_bytes:roundtrip

use std::sync::OnceLock;

use group::{
    cofactor::CofactorGroup,
    prime::PrimeCurveAffine,
    Curve, Group, GroupEncoding, UncompressedEncoding,
};
use midnight_curves::{serde::SerdeObject, CurveAffine, CurveExt};
use num_bigint::BigUint;
use num_traits::{One, Zero};
use proptest::prelude::*;
use serde::{Deserialize, Serialize};
use subtle::{Choice, ConditionallySelectable, ConstantTimeEq};
use vp_alg::{achk, c11core::*, curvemodel::*, gchk, *};
use vpcore::{ensure, CaseResult, Failure, Prop, SplitMix, Verdict};

// ---------------------------------------------------------------------------
// Codec helpers

fn ge_dec<T: GroupEncoding>(b: &[u8]) -> Option<T> {
    let mut r = T::Repr::default();
    r.as_mut().copy_from_slice(b);
    T::from_bytes(&r).into()
}
fn ge_dec_u<T: GroupEncoding>(b: &[u8]) -> Option<T> {
    let mut r = T::Repr::default();
    r.as_mut().copy_from_slice(b);
    T::from_bytes_unchecked(&r).into()
}
fn ge_enc<T: GroupEncoding>(t: &T) -> Vec<u8> {
    t.to_bytes().as_ref().to_vec()
}
fn ue_dec<T: UncompressedEncoding>(b: &[u8]) -> Option<T> {
    let mut r = T::Uncompressed::default();
    r.as_mut().copy_from_slice(b);
    T::from_uncompressed(&r).into()
}
fn ue_dec_u<T: UncompressedEncoding>(b: &[u8]) -> Option<T> {
    let mut r = T::Uncompressed::default();
    r.as_mut().copy_from_slice(b);
    T::from_uncompressed_unchecked(&r).into()
}
fn ue_enc<T: UncompressedEncoding>(t: &T) -> Vec<u8> {
    t.to_uncompressed().as_ref().to_vec()
}
fn so_dec<T: SerdeObject>(b: &[u8]) -> Option<T> {
    T::from_raw_bytes(b)
}
fn so_dec_u<T: SerdeObject>(b: &[u8]) -> Option<T> {
    Some(T::from_raw_bytes_unchecked(b))
}
fn so_read<T: SerdeObject>(b: &[u8]) -> Option<T> {
    let mut r = b;
    let v = T::read_raw(&mut r).ok()?;
    if r.is_empty() {
        Some(v)
    } else {
        None
    }
}
fn so_read_u<T: SerdeObject>(b: &[u8]) -> Option<T> {
    let mut r = b;
    Some(T::read_raw_unchecked(&mut r))
}
fn so_enc<T: SerdeObject>(t: &T) -> Vec<u8> {
    t.to_raw_bytes()
}
fn so_write<T: SerdeObject>(t: &T) -> Vec<u8> {
    let mut v = vec![];
    t.write_raw(&mut v).expect("write to Vec");
    v
}
fn json_dec<T: serde::de::DeserializeOwned>(b: &[u8]) -> Option<T> {
    let s: Vec<String> = b.iter().map(|x| x.to_string()).collect();
    serde_json::from_str(&format!("[{}]", s.join(","))).ok()
}
fn json_enc<T: Serialize>(t: &T) -> Vec<u8> {
    let v: Vec<u8> = serde_json::from_str(&serde_json::to_string(t).expect("serialize")).expect("array of bytes");
    v
}

macro_rules! fam_statics {
    ($model_ty:ty, $mk_model:expr, $order:expr, $tries:expr, $mults:expr) => {
        fn model() -> &'static $model_ty {
            static M: OnceLock<$model_ty> = OnceLock::new();
            M.get_or_init(|| $mk_model)
        }
        fn order() -> &'static BigUint {
            static R: OnceLock<BigUint> = OnceLock::new();
            R.get_or_init(|| $order)
        }
        fn torsion() -> &'static Vec<Pt<Self>> {
            static T: OnceLock<Vec<<$model_ty as CurveModel>::Pt>> = OnceLock::new();
            T.get_or_init(|| {
                if !Self::COFACTOR {
                    return vec![];
                }
                let m = Self::model();
                let mut v = torsion_points(m, Self::order(), $tries, $mults);
                if !<$model_ty as CurveModel>::EDWARDS {
                    // points with x = 0 have order 3 on y^2 = x^3 + b
                    for flip in [false, true] {
                        if let Some(p) = m.lift(&m.fm().zero(), flip) {
                            if !m.is_identity(&m.mul(&p, Self::order())) && !v.contains(&p) {
                                v.push(p);
                            }
                        }
                    }
                }
                v
            })
        }
    };
}

// ---------------------------------------------------------------------------
// Short Weierstrass families with the CurveExt / CurveAffine interface
// (BLS12-381 G1, G2; BN254 G1, G2)

#[derive(Clone, Debug, Serialize, Deserialize)]
enum LSpec {
    Zero,
    One,
    Two,
    MinusOne,
    Rand(u64),
}

#[derive(Clone, Debug, Serialize, Deserialize)]
struct JacCase {
    p: PSpec,
    rep: u8,
    aux: u64,
    lambda: LSpec,
    perturb: bool,
}

fn jac_strategy(cofactor: bool) -> BoxedStrategy<JacCase> {
    let l = prop_oneof![
        1 => Just(LSpec::Zero),
        2 => Just(LSpec::One),
        2 => Just(LSpec::Two),
        1 => Just(LSpec::MinusOne),
        4 => any::<u64>().prop_map(LSpec::Rand),
    ];
    (pspec(cofactor), 0u8..4, any::<u64>(), l, any::<bool>())
        .prop_map(|(p, rep, aux, lambda, perturb)| JacCase { p, rep, aux, lambda, perturb })
        .boxed()
}

macro_rules! weier_family {
    ($modname:ident, $F:ident, $G:ty, $A:ty, $Base:ty, $Scalar:ty, $to_base:expr, $from_base:expr) => {
        mod $modname {
            use super::*;
            type F = $F;

            fn to_base(x: &Fe<F>) -> $Base {
                ($to_base)(x)
            }
            fn from_base(x: &$Base) -> Fe<F> {
                ($from_base)(x)
            }

            /// Operator forms beyond the `group` traits, CurveExt / CurveAffine
            /// predicates, coordinate constructors and accessors.
            pub fn extras(c: &Ctx<F>, aux: u64) -> Result<(), Failure> {
                let m = F::model();
                let (p, q, pa, qa) = (c.p, c.q, c.pa, c.qa);
                let add = m.add(&c.mp, &c.mq);
                let sub = m.sub(&c.mp, &c.mq);
                gchk!(F, "add:&proj+&proj", &p + &q, add.clone());
                gchk!(F, "add:&proj+proj", &p + q, add.clone());
                gchk!(F, "sub:&proj-&proj", &p - &q, sub.clone());
                gchk!(F, "sub:&proj-proj", &p - q, sub.clone());
                gchk!(F, "add:&proj+&affine", &p + &qa, add.clone());
                gchk!(F, "add:&proj+affine", &p + qa, add.clone());
                gchk!(F, "sub:&proj-&affine", &p - &qa, sub.clone());
                gchk!(F, "sub:&proj-affine", &p - qa, sub.clone());
                gchk!(F, "add:&affine+&proj", &pa + &q, add.clone());
                gchk!(F, "add:affine+proj", pa + q, add.clone());
                gchk!(F, "add:affine+&proj", pa + &q, add.clone());
                gchk!(F, "add:&affine+proj", &pa + q, add.clone());
                gchk!(F, "sub:&affine-&proj", &pa - &q, sub.clone());
                gchk!(F, "sub:affine-proj", pa - q, sub.clone());
                gchk!(F, "sub:affine-&proj", pa - &q, sub.clone());
                gchk!(F, "sub:&affine-proj", &pa - q, sub.clone());
                gchk!(F, "add:affine+affine", pa + qa, add.clone());
                gchk!(F, "sub:affine-affine", pa - qa, sub.clone());
                gchk!(F, "neg:&proj", -&p, m.neg(&c.mp));
                achk!(F, "neg", -pa, m.neg(&c.mp));
                achk!(F, "neg:&affine", -&pa, m.neg(&c.mp));
                // predicates
                for (what, g) in [("P", p), ("P+Q", p + q), ("identity", <$G>::identity()), ("P-P'", p - c.p2), ("2P", p.double())] {
                    ensure!(bool::from(CurveExt::is_on_curve(&g)), format!("{}:is_on_curve", F::GN), "{} is_on_curve({what}) false; P={:?} Q={:?}", F::GN, c.mp, c.mq);
                }
                ensure!(bool::from(CurveAffine::is_on_curve(&pa)), format!("{}:is_on_curve", F::AN), "{} is_on_curve(P) false; P={:?}", F::AN, c.mp);
                ensure!(bool::from(PrimeCurveAffine::is_identity(&pa)) == m.is_identity(&c.mp), format!("{}:is_identity", F::AN), "{} is_identity; P={:?}", F::AN, c.mp);
                gchk!(F, "to_curve", PrimeCurveAffine::to_curve(&pa), c.mp.clone());
                achk!(F, "identity", <$A as PrimeCurveAffine>::identity(), m.identity());
                achk!(F, "generator", <$A as PrimeCurveAffine>::generator(), gm::<F>("generator", &<$G>::generator())?);
                // coordinates / from_xy
                match m.xy(&c.mp) {
                    Some((x, y)) => {
                        let co: Option<midnight_curves::Coordinates<$A>> = pa.coordinates().into();
                        let co = co.ok_or_else(|| Failure::new(format!("{}:coordinates", F::AN), format!("coordinates() = None for the non-identity point {:?}", c.mp)))?;
                        ensure!(from_base(co.x()) == x && from_base(co.y()) == y, format!("{}:coordinates", F::AN), "coordinates() of {:?} are ({:?},{:?})", c.mp, co.x(), co.y());
                        let r: Option<$A> = <$A>::from_xy(to_base(&x), to_base(&y)).into();
                        let r = r.ok_or_else(|| Failure::new(format!("{}:from_xy", F::AN), format!("from_xy refused the curve point {:?}", c.mp)))?;
                        achk!(F, "from_xy", r, c.mp.clone());
                        // off the curve: y + delta
                        let y2 = m.fm().add(&y, &m.fm().from_u64(1 + aux % 7));
                        let bad = m.from_xy(x.clone(), y2.clone());
                        // (0,0) is the library's encoding of the identity: not judged
                        if m.fm().is_zero(&x) && m.fm().is_zero(&y2) {
                            return Ok(());
                        }
                        let r: Option<$A> = <$A>::from_xy(to_base(&x), to_base(&y2)).into();
                        ensure!(r.is_some() == m.on_curve(&bad), format!("{}:from_xy", F::AN), "from_xy({x:?},{y2:?}).is_some() = {}, model on-curve = {}", r.is_some(), m.on_curve(&bad));
                        let r: Option<midnight_curves::Coordinates<$A>> = midnight_curves::Coordinates::<$A>::from_xy(to_base(&x), to_base(&y2)).into();
                        ensure!(r.is_some() == m.on_curve(&bad), format!("{}:Coordinates::from_xy", F::AN), "Coordinates::from_xy accepted an off-curve pair");
                    }
                    None => {
                        // doc comment says None for the identity, in-repo callers
                        // (serde::Compressed::encode) rely on Some((0,0)): not judged,
                        // but if Some the coordinates must be (0,0)
                        let co: Option<midnight_curves::Coordinates<$A>> = pa.coordinates().into();
                        if let Some(co) = co {
                            ensure!(m.fm().is_zero(&from_base(co.x())) && m.fm().is_zero(&from_base(co.y())), format!("{}:coordinates", F::AN), "coordinates() of the identity are not (0,0)");
                        }
                    }
                }
                Ok(())
            }

            pub fn scalar_extras(c: &Ctx<F>, kp: &Pt<F>) -> Result<(), Failure> {
                let m = F::model();
                let (p, pa, s) = (c.p, c.pa, c.s);
                gchk!(F, "mul:&proj*&scalar", &p * &s, kp.clone());
                gchk!(F, "mul:&proj*scalar", &p * s, kp.clone());
                gchk!(F, "mul:affine*scalar", pa * s, kp.clone());
                gchk!(F, "mul:affine*&scalar", pa * &s, kp.clone());
                gchk!(F, "mul:&affine*&scalar", &pa * &s, kp.clone());
                gchk!(F, "mul:&affine*scalar", &pa * s, kp.clone());
                // k*P + (-k)*P = identity for P in the subgroup (through the library's own addition)
                if in_subgroup::<F>(&c.mp) {
                    let neg_s = -s;
                    ensure!(bool::from((p * s + p * neg_s).is_identity()), format!("{}:mul", F::GN), "k*P + (-k)*P != identity for P={:?} k={}", c.mp, c.kb);
                }
                // endo: (x, y) -> (zeta x, y) with zeta a primitive cube root of unity
                let e = gm::<F>("endo", &p.endo())?;
                match (m.xy(&c.mp), m.xy(&e)) {
                    (None, None) => {}
                    (Some((x, y)), Some((ex, ey))) => {
                        let f = m.fm();
                        let cube = |v: &Fe<F>| f.mul(&f.square(v), v);
                        ensure!(ey == y && cube(&ex) == cube(&x) && (ex != x || f.is_zero(&x)), format!("{}:endo", F::GN), "endo({:?}) = {e:?}", c.mp);
                    }
                    _ => return Err(Failure::new(format!("{}:endo", F::GN), format!("endo({:?}) = {e:?}", c.mp))),
                }
                Ok(())
            }

            /// jacobian_coordinates / new_jacobian against Y^2 = X^3 + b Z^6,
            /// (X/Z^2, Y/Z^3).
            pub fn jacobian(b: &Fe<F>, c: &JacCase) -> CaseResult {
                let m = F::model();
                let f = m.fm();
                let r = resolve::<F>(&c.p)?;
                let t = resolve::<F>(&PSpec::SmallMul(3 + c.aux % 60))?;
                let p = build_rep::<F>(&r, c.rep, &t);
                let (jx, jy, jz) = p.jacobian_coordinates();
                let (x, y, z) = (from_base(&jx), from_base(&jy), from_base(&jz));
                let sig = format!("{}:jacobian_coordinates", F::NAME);
                match m.xy(&r.m) {
                    None => ensure!(f.is_zero(&z), sig, "jacobian_coordinates(identity) has Z = {z:?}"),
                    Some((ax, ay)) => {
                        ensure!(!f.is_zero(&z), sig, "jacobian_coordinates({:?}) has Z = 0", r.m);
                        ensure!(jacobian_eq(f, b, &x, &y, &z), sig.clone(), "jacobian_coordinates({:?}) = ({x:?},{y:?},{z:?}) does not satisfy Y^2 = X^3 + b Z^6 (representation path {})", r.m, c.rep % 4);
                        let zi = f.inv(&z).unwrap();
                        let zi2 = f.square(&zi);
                        ensure!(f.mul(&x, &zi2) == ax && f.mul(&y, &f.mul(&zi2, &zi)) == ay, sig, "jacobian_coordinates({:?}) does not map to (X/Z^2, Y/Z^3)", r.m);
                    }
                }
                // new_jacobian on (x l^2, y l^3, l)
                let l = match c.lambda {
                    LSpec::Zero => f.zero(),
                    LSpec::One => f.one(),
                    LSpec::Two => f.from_u64(2),
                    LSpec::MinusOne => f.neg(&f.one()),
                    LSpec::Rand(s) => f.random(&mut SplitMix(s)),
                };
                let sig = format!("{}:new_jacobian", F::NAME);
                let (want, tx, ty) = match (m.xy(&r.m), f.is_zero(&l)) {
                    (Some((ax, ay)), false) => {
                        let l2 = f.square(&l);
                        (r.m.clone(), f.mul(&ax, &l2), f.mul(&ay, &f.mul(&l2, &l)))
                    }
                    // Z = 0 is the identity whatever X, Y with Y^2 = X^3 (take (l'^2, l'^3))
                    _ => {
                        let u = f.from_u64(1 + c.aux % 5);
                        (m.identity(), f.square(&u), f.mul(&f.square(&u), &u))
                    }
                };
                let tz = if m.is_identity(&want) { f.zero() } else { l.clone() };
                let ty = if c.perturb && !m.is_identity(&want) { f.add(&ty, &f.one()) } else { ty };
                let valid = jacobian_eq(f, b, &tx, &ty, &tz);
                let got: Option<$G> = <$G>::new_jacobian(to_base(&tx), to_base(&ty), to_base(&tz)).into();
                ensure!(got.is_some() == valid, sig.clone(), "new_jacobian({tx:?},{ty:?},{tz:?}).is_some() = {}, but Y^2 = X^3 + b Z^6 is {valid} (affine point {:?}, lambda {l:?})", got.is_some(), want);
                if let Some(g) = got {
                    let gmod = gm::<F>("new_jacobian", &g)?;
                    ensure!(gmod == want, sig, "new_jacobian({tx:?},{ty:?},{tz:?}) represents {gmod:?}, expected {want:?}");
                }
                // round trip
                let back: Option<$G> = <$G>::new_jacobian(jx, jy, jz).into();
                match back {
                    Some(g) => ensure!(gm::<F>("new_jacobian", &g)? == r.m, format!("{}:jacobian_roundtrip", F::NAME), "new_jacobian(jacobian_coordinates(P)) != P for P={:?}", r.m),
                    None => return Err(Failure::new(format!("{}:jacobian_roundtrip", F::NAME), format!("new_jacobian rejects jacobian_coordinates(P), P={:?} path {}", r.m, c.rep % 4))),
                }
                let lc = match c.lambda {
                    LSpec::Zero => "Z=0",
                    LSpec::One => "Z=1",
                    LSpec::Two => "Z=2",
                    LSpec::MinusOne => "Z=-1",
                    LSpec::Rand(_) => "Z=random",
                };
                Ok(Verdict::of(true, F::NAME).with(format!("P:{}", r.class)).with(lc).with(if c.perturb { "off-curve triple" } else { "on-curve triple" }).with(if c.rep % 4 == 0 { "rep Z=1" } else { "rep Z!=1" }))
            }

            pub fn constants(b: &Fe<F>) -> CaseResult {
                let m = F::model();
                ensure!(from_base(&<$A as CurveAffine>::b()) == *b && from_base(&<$G as CurveExt>::b()) == *b, format!("{}:b", F::NAME), "curve constant b");
                ensure!(m.fm().is_zero(&from_base(&<$A as CurveAffine>::a())) && m.fm().is_zero(&from_base(&<$G as CurveExt>::a())), format!("{}:a", F::NAME), "curve constant a");
                let g = gm::<F>("generator", &<$G>::generator())?;
                ensure!(m.on_curve(&g) && !m.is_identity(&g), format!("{}:generator", F::NAME), "generator off curve");
                ensure!(m.is_identity(&m.mul(&g, F::order())), format!("{}:generator", F::NAME), "r * generator != identity");
                Ok(Verdict::nontrivial(format!("{}:constants", F::NAME)))
            }
        }
    };
}

// --- BLS12-381 G1
struct BlsG1;
impl Fam for BlsG1 {
    type M = Weierstrass;
    type G = midnight_curves::G1Projective;
    type A = midnight_curves::G1Affine;
    const NAME: &'static str = "bls12_381::G1";
    const GN: &'static str = "G1Projective";
    const AN: &'static str = "G1Affine";
    const COFACTOR: bool = true;
    const COORD_BITS: u64 = 381;
    fam_statics!(
        Weierstrass,
        Weierstrass { f: Zp::new(modulus::<midnight_curves::Fp>()), a: BigUint::zero(), b: BigUint::from(4u32) },
        modulus::<midnight_curves::Fq>(),
        2,
        3
    );
    fn sub_generator() -> Self::G {
        Self::G::generator()
    }
    fn a_to_m(a: &Self::A) -> WPoint {
        if bool::from(a.is_identity()) {
            None
        } else {
            Some((to_big(&a.x()), to_big(&a.y())))
        }
    }
    fn m_to_a(p: &WPoint) -> Self::A {
        match p {
            None => Self::A::identity(),
            Some((x, y)) => Option::from(Self::A::from_xy(from_big(x), from_big(y))).expect("from_xy of a curve point"),
        }
    }
    fn g_ct_eq(a: &Self::G, b: &Self::G) -> Choice {
        a.ct_eq(b)
    }
    fn a_ct_eq(a: &Self::A, b: &Self::A) -> Choice {
        a.ct_eq(b)
    }
}
weier_family!(
    bls_g1,
    BlsG1,
    midnight_curves::G1Projective,
    midnight_curves::G1Affine,
    midnight_curves::Fp,
    midnight_curves::Fq,
    |x: &BigUint| from_big::<midnight_curves::Fp>(x),
    |x: &midnight_curves::Fp| to_big(x)
);

// --- BLS12-381 G2
fn bls_fp2(x: &E2) -> midnight_curves::bls12_381::Fp2 {
    midnight_curves::bls12_381::Fp2::new(from_big(&x[0]), from_big(&x[1]))
}
fn bls_fp2_m(x: &midnight_curves::bls12_381::Fp2) -> E2 {
    [to_big(&x.c0()), to_big(&x.c1())]
}
struct BlsG2;
impl Fam for BlsG2 {
    type M = Weierstrass2;
    type G = midnight_curves::G2Projective;
    type A = midnight_curves::G2Affine;
    const NAME: &'static str = "bls12_381::G2";
    const GN: &'static str = "G2Projective";
    const AN: &'static str = "G2Affine";
    const COFACTOR: bool = true;
    const COORD_BITS: u64 = 381;
    fam_statics!(
        Weierstrass2,
        {
            let f = Zp::new(modulus::<midnight_curves::Fp>());
            let beta = f.neg(&BigUint::one());
            Weierstrass2 { e: Ext2 { f, beta }, b: [BigUint::from(4u32), BigUint::from(4u32)] }
        },
        modulus::<midnight_curves::Fq>(),
        2,
        3
    );
    fn sub_generator() -> Self::G {
        Self::G::generator()
    }
    fn a_to_m(a: &Self::A) -> W2Point {
        if bool::from(a.is_identity()) {
            None
        } else {
            Some((bls_fp2_m(&a.x()), bls_fp2_m(&a.y())))
        }
    }
    fn m_to_a(p: &W2Point) -> Self::A {
        match p {
            None => Self::A::identity(),
            Some((x, y)) => Option::from(Self::A::from_xy(bls_fp2(x), bls_fp2(y))).expect("from_xy of a curve point"),
        }
    }
    fn g_ct_eq(a: &Self::G, b: &Self::G) -> Choice {
        a.ct_eq(b)
    }
    fn a_ct_eq(a: &Self::A, b: &Self::A) -> Choice {
        a.ct_eq(b)
    }
}
weier_family!(
    bls_g2,
    BlsG2,
    midnight_curves::G2Projective,
    midnight_curves::G2Affine,
    midnight_curves::bls12_381::Fp2,
    midnight_curves::Fq,
    bls_fp2,
    bls_fp2_m
);

// --- BN254 G1
use midnight_curves::bn256;
struct BnG1;
impl Fam for BnG1 {
    type M = Weierstrass;
    type G = bn256::G1;
    type A = bn256::G1Affine;
    const NAME: &'static str = "bn256::G1";
    const GN: &'static str = "bn256::G1";
    const AN: &'static str = "bn256::G1Affine";
    const COFACTOR: bool = false;
    const COORD_BITS: u64 = 254;
    fam_statics!(
        Weierstrass,
        Weierstrass { f: Zp::new(modulus::<bn256::Fq>()), a: BigUint::zero(), b: BigUint::from(3u32) },
        modulus::<bn256::Fr>(),
        0,
        0
    );
    fn sub_generator() -> Self::G {
        <Self::G as Group>::generator()
    }
    fn a_to_m(a: &Self::A) -> WPoint {
        if bool::from(PrimeCurveAffine::is_identity(a)) {
            None
        } else {
            Some((to_big(&a.x), to_big(&a.y)))
        }
    }
    fn m_to_a(p: &WPoint) -> Self::A {
        match p {
            None => <Self::A as PrimeCurveAffine>::identity(),
            Some((x, y)) => Option::from(Self::A::from_xy(from_big(x), from_big(y))).expect("from_xy of a curve point"),
        }
    }
    fn g_ct_eq(a: &Self::G, b: &Self::G) -> Choice {
        a.ct_eq(b)
    }
    fn a_ct_eq(a: &Self::A, b: &Self::A) -> Choice {
        a.ct_eq(b)
    }
}
weier_family!(
    bn_g1,
    BnG1,
    bn256::G1,
    bn256::G1Affine,
    bn256::Fq,
    bn256::Fr,
    |x: &BigUint| from_big::<bn256::Fq>(x),
    |x: &bn256::Fq| to_big(x)
);

// --- BN254 G2
fn bn_fq2(x: &E2) -> bn256::Fq2 {
    bn256::Fq2::new(from_big(&x[0]), from_big(&x[1]))
}
fn bn_fq2_m(x: &bn256::Fq2) -> E2 {
    let b = x.to_bytes();
    [BigUint::from_bytes_le(&b[..32]), BigUint::from_bytes_le(&b[32..])]
}
struct BnG2;
impl Fam for BnG2 {
    type M = Weierstrass2;
    type G = bn256::G2;
    type A = bn256::G2Affine;
    const NAME: &'static str = "bn256::G2";
    const GN: &'static str = "bn256::G2";
    const AN: &'static str = "bn256::G2Affine";
    const COFACTOR: bool = true;
    const COORD_BITS: u64 = 254;
    fam_statics!(
        Weierstrass2,
        {
            // b' = 3 / (9 + u)
            let f = Zp::new(modulus::<bn256::Fq>());
            let beta = f.neg(&BigUint::one());
            let e = Ext2 { f, beta };
            let xi_inv = e.inv(&[BigUint::from(9u32), BigUint::one()]).unwrap();
            let b = e.mul(&[BigUint::from(3u32), BigUint::zero()], &xi_inv);
            Weierstrass2 { e, b }
        },
        modulus::<bn256::Fr>(),
        2,
        3
    );
    fn sub_generator() -> Self::G {
        <Self::G as Group>::generator()
    }
    fn a_to_m(a: &Self::A) -> W2Point {
        if bool::from(PrimeCurveAffine::is_identity(a)) {
            None
        } else {
            Some((bn_fq2_m(&a.x), bn_fq2_m(&a.y)))
        }
    }
    fn m_to_a(p: &W2Point) -> Self::A {
        match p {
            None => <Self::A as PrimeCurveAffine>::identity(),
            Some((x, y)) => Option::from(Self::A::from_xy(bn_fq2(x), bn_fq2(y))).expect("from_xy of a curve point"),
        }
    }
    fn g_ct_eq(a: &Self::G, b: &Self::G) -> Choice {
        a.ct_eq(b)
    }
    fn a_ct_eq(a: &Self::A, b: &Self::A) -> Choice {
        a.ct_eq(b)
    }
}
weier_family!(bn_g2, BnG2, bn256::G2, bn256::G2Affine, bn256::Fq2, bn256::Fr, bn_fq2, bn_fq2_m);

include!("../c11_families.rs");

// ---------------------------------------------------------------------------
// Sub-check registration

const OPS_RULE: &str = "operand pair by class {identity, generator, k*G small/random, curve point outside the subgroup, torsion point, torsion+k*G, Q=P, Q=-P} x projective representation path {Z=1, via mixed add, via add+sub, via mixed sub}; every operator form against the affine model; non-trivial = an exceptional class (not two independent random points in Z=1 form); distinct by case digest";
const CT_RULE: &str = "same operand space; ConstantTimeEq of projective and affine points against model equality over pairs reached through different computation paths; non-trivial as for ops";
const SCALAR_RULE: &str = "operand x scalar {0,1,2,r-1,r-small,small,2^i,random}: every Mul form against double-and-add in the affine model; subgroup predicates against r*P in the model; non-trivial = scalar or operand from a boundary class";
const ENC_RULE: &str = "valid encodings of every operand class through every encoder/decoder pair; 1-2 bit flips (flag bits weighted), first/last byte replaced, coordinate+p, random bytes, randomised second half: decoder accepts => point on curve (in subgroup where promised) and re-encoding equals the input; non-trivial = mutated encoding or non-random operand";
const BATCH_EDGE_RULE: &str = "batch_normalize on empty slices (equal lengths) and on a single identity must not panic";
const JAC_RULE: &str = "jacobian_coordinates(P) over representation paths satisfies Y^2=X^3+bZ^6 and maps to (X/Z^2,Y/Z^3); new_jacobian(x l^2, y l^3, l) for l in {0,1,2,-1,random}, on/off curve; every case non-trivial";

#[allow(clippy::too_many_arguments)]
fn weier_subs<F: Fam>(
    p: &Prop,
    bls: bool,
    scale: u32,
    extras: fn(&Ctx<F>, u64) -> Result<(), Failure>,
    scalar_extras: fn(&Ctx<F>, &Pt<F>) -> Result<(), Failure>,
    more_scalar: fn(&Ctx<F>) -> Result<(), Failure>,
    jacobian: fn(&Fe<F>, &JacCase) -> CaseResult,
    constants: fn(&Fe<F>) -> CaseResult,
    b: Fe<F>,
    codecs: Vec<Codec<F>>,
    second_name: &str,
    codecs_uncompressed: Vec<Codec<F>>,
) {
    let n = |q: u32, t: u32| p.tier.pick(q, t) / scale;
    p.sub(&format!("{}.ops", F::NAME), OPS_RULE, n(8000, 320_000), 16, || op_strategy(F::COFACTOR), |c| {
        let ctx = context::<F>(c)?;
        ops_generic::<F>(&ctx, true)?;
        extras(&ctx, c.aux)?;
        if !bls {
            ct_generic::<F>(&ctx)?;
        }
        verdict(&ctx)
    });
    if bls {
        // separate: F3 would otherwise end every stream of .ops
        p.sub(&format!("{}.ct_eq", F::NAME), CT_RULE, n(4000, 160_000), 16, || op_strategy(F::COFACTOR), |c| {
            let ctx = context::<F>(c)?;
            ct_generic::<F>(&ctx)?;
            verdict(&ctx)
        });
    }
    let scalar_case = |c: &OpCase| -> CaseResult {
        let ctx = context::<F>(c)?;
        // KNOWN FINDING (kept in .scalar_outside_subgroup): blst multiplies through the
        // GLV (G1) / GLS (G2) endomorphisms, which act as a scalar only on the prime-order
        // subgroup; the decomposition is trivial (and the result right) for small scalars.
        // Excluded here: point outside the subgroup x scalar >= 2^64.
        if bls && ctx.kb.bits() > 64 && !in_subgroup::<F>(&ctx.mp) {
            return Ok(Verdict::trivial("excluded: point outside subgroup x scalar >= 2^64 (known finding, see .scalar_outside_subgroup)").with(k_class(&c.k)));
        }
        let kp = scalar_generic::<F>(&ctx)?;
        scalar_extras(&ctx, &kp)?;
        more_scalar(&ctx)?;
        let mut v = verdict(&ctx)?;
        v.nontrivial = !matches!(c.k, KSpec::Rand(_)) || ctx.exceptional;
        Ok(v.with(k_class(&c.k)))
    };
    p.sub(&format!("{}.scalar", F::NAME), SCALAR_RULE, n(400, 16_000), 16, || op_strategy(F::COFACTOR), scalar_case);
    if bls {
        p.sub_cfg(
            &format!("{}.scalar_outside_subgroup", F::NAME),
            "operands outside the prime-order subgroup (curve points, torsion points, torsion + k*G) x scalar classes: Mul forms against the affine model; every case non-trivial",
            n(160, 6_000),
            16,
            24,
            || op_strategy_mode(3).prop_map(|mut c| {
                // scalars for which the endomorphism decomposition is non-trivial
                if !matches!(c.k, KSpec::Rand(_) | KSpec::RMinusSmall(_) | KSpec::Pow2(_)) {
                    c.k = KSpec::Rand(c.aux);
                }
                c
            }).boxed(),
            |c| {
                let ctx = context::<F>(c)?;
                scalar_generic::<F>(&ctx).map_err(|mut f| {
                    // one signature per type: whichever Mul form is compared first
                    f.signature = format!("{}:mul:proj*scalar:outside-subgroup", F::GN);
                    f
                })?;
                let mut v = verdict(&ctx)?;
                v.nontrivial = true;
                Ok(v.with(k_class(&c.k)))
            },
        );
    }
    p.sub(&format!("{}.jacobian", F::NAME), JAC_RULE, n(4000, 120_000), 16, || jac_strategy(F::COFACTOR), |c| jacobian(&b, c));
    p.sub(&format!("{}.encoding", F::NAME), ENC_RULE, n(6000, 240_000), 16, || enc_strategy(F::COFACTOR), |c| enc_check::<F>(&codecs, c));
    if !codecs_uncompressed.is_empty() {
        p.sub(&format!("{}.{second_name}", F::NAME), ENC_RULE, n(6000, 240_000), 16, || enc_strategy(F::COFACTOR), |c| enc_check::<F>(&codecs_uncompressed, c));
    }
    p.enumerate(&format!("{}.constants", F::NAME), "curve constants a, b, generator on curve and of order r (model)", vec![0u8], 1, true, |_| constants(&b));
    p.enumerate(&format!("{}.batch_normalize_edge", F::NAME), BATCH_EDGE_RULE, vec![0u8], 1, true, |_| batch_edge::<F>());
}

#[derive(Clone, Debug, Serialize, Deserialize)]
struct FlaggedCase {
    p: PSpec,
    /// true: compressed encoding followed by noise; false: valid uncompressed
    /// encoding with the top three bits of byte 0 set to `flags`
    compressed_prefix: bool,
    flags: u8,
    aux: u64,
}

/// Regression sub-check for the BLS12-381 uncompressed decoders: flag bits
/// inside an uncompressed-size buffer (formerly accepted: blst's deserialize
/// dispatches on the compression flag). Returns the codecs for the exploring
/// sub-check (subgroup membership not required for uncompressed / raw formats).
fn bls_uncompressed_subs<F: Fam>(p: &Prop, strict: Vec<Codec<F>>, compress: fn(&F::A) -> Vec<u8>) -> Vec<Codec<F>> {
    let strict: Vec<Codec<F>> = strict
        .iter()
        .map(|c| {
            let mut e = c.strict();
            e.lenient_subgroup = true;
            e
        })
        .collect();
    let n = |q: u32, t: u32| p.tier.pick(q, t);
    p.sub(
        &format!("{}.uncompressed_flagged", F::NAME),
        "uncompressed-size buffers that carry flag bits: (a) a valid compressed encoding followed by random bytes, (b) a valid uncompressed encoding with the top three bits of byte 0 set to 1..7; decoder accepts => re-encoding equals the input; every case non-trivial",
        n(400, 16_000),
        16,
        || (pspec_mode(2), any::<bool>(), 1u8..8, any::<u64>()).prop_map(|(p, compressed_prefix, flags, aux)| FlaggedCase { p, compressed_prefix, flags, aux }).boxed(),
        |c| {
            let r = resolve::<F>(&c.p)?;
            for cd in &strict {
                let bytes = if c.compressed_prefix {
                    let mut b = compress(&r.a);
                    b.extend(SplitMix(c.aux).bytes(cd.len - b.len()));
                    b
                } else {
                    let mut b = (cd.enc)(&r.a);
                    b[0] = (b[0] & 0x1f) | (c.flags << 5);
                    b
                };
                decode_oracle(cd, &bytes, if c.compressed_prefix { "compressed encoding + trailing bytes" } else { "uncompressed encoding with flag bits" }, Some((&r.m, true)))?;
            }
            Ok(Verdict::nontrivial(if c.compressed_prefix { "compressed prefix" } else { "flag bits set" }).with(format!("P:{}", r.class)))
        },
    );
    strict
        .iter()
        .map(|c| {
            // uncompressed / raw formats promise on-curve only (property C16); a decoder
            // that also checks the subgroup (G2) is allowed, not required
            let mut e = c.strict();
            e.lenient_subgroup = true;
            e
        })
        .collect()
}

fn main() {
    vpcore::main("C11", "exploration", (900, 10_800), |p| {
        p.assume("big-integer affine group laws of vp_alg::model (short Weierstrass over Z_p and Fp2, twisted Edwards) are the reference; num-bigint is correct");
        p.assume("field encodings used to move coordinates between library and model (to_repr/from_repr, c0/c1, to_bytes) are correct (property C10)");
        p.assume("operands of class 'k*G random' are produced by the library's own scalar multiplication (checked separately in the .scalar sub-checks) and validated on-curve by the model");

        use midnight_curves::{G1Affine, G1Projective, G2Affine, G2Projective};
        // --- BLS12-381 G1
        {
            type F = BlsG1;
            let codecs: Vec<Codec<F>> = vec![
                Codec { name: "G1Affine:from_bytes", len: 48, big_endian: true, flag_bits: 3, slot: 48, enc: ge_enc::<G1Affine>, dec: ge_dec::<G1Affine>, dec_unchecked: Some(ge_dec_u::<G1Affine>), subgroup: true, tolerate_panic: false, exclude: None, lenient_subgroup: false },
                Codec { name: "G1Projective:from_bytes", len: 48, big_endian: true, flag_bits: 3, slot: 48, enc: |a| ge_enc(&G1Projective::from(*a)), dec: |b| ge_dec::<G1Projective>(b).map(|g| g.to_affine()), dec_unchecked: Some(|b| ge_dec_u::<G1Projective>(b).map(|g| g.to_affine())), subgroup: true, tolerate_panic: false, exclude: None, lenient_subgroup: false },
            ];
            let codecs_u: Vec<Codec<F>> = vec![
                Codec { name: "G1Affine:from_uncompressed", len: 96, big_endian: true, flag_bits: 3, slot: 48, enc: ue_enc::<G1Affine>, dec: ue_dec::<G1Affine>, dec_unchecked: Some(ue_dec_u::<G1Affine>), subgroup: true, tolerate_panic: false, exclude: None, lenient_subgroup: false },
                Codec { name: "G1Affine:from_raw_bytes", len: 96, big_endian: true, flag_bits: 3, slot: 48, enc: so_enc::<G1Affine>, dec: so_dec::<G1Affine>, dec_unchecked: Some(so_dec_u::<G1Affine>), subgroup: true, tolerate_panic: false, exclude: None, lenient_subgroup: false },
                Codec { name: "G1Affine:read_raw", len: 96, big_endian: true, flag_bits: 3, slot: 48, enc: so_write::<G1Affine>, dec: so_read::<G1Affine>, dec_unchecked: Some(so_read_u::<G1Affine>), subgroup: true, tolerate_panic: false, exclude: None, lenient_subgroup: false },
            ];
            let codecs = codecs.into_iter().chain([
                Codec { name: "G1Affine:serde", len: 48, big_endian: true, flag_bits: 3, slot: 48, enc: json_enc::<G1Affine>, dec: json_dec::<G1Affine>, dec_unchecked: None, subgroup: true, tolerate_panic: false, exclude: None, lenient_subgroup: false },
                Codec { name: "G1Projective:serde", len: 48, big_endian: true, flag_bits: 3, slot: 48, enc: |a| json_enc(&G1Projective::from(*a)), dec: |b| json_dec::<G1Projective>(b).map(|g| g.to_affine()), dec_unchecked: None, subgroup: true, tolerate_panic: false, exclude: None, lenient_subgroup: false },
            ]).collect();
            weier_subs::<F>(p, true, 1, bls_g1::extras, bls_g1::scalar_extras, bls_g1_more, bls_g1::jacobian, bls_g1::constants, BigUint::from(4u32), codecs, "encoding_uncompressed", bls_uncompressed_subs::<F>(p, codecs_u, ge_enc::<G1Affine>));
        }
        // --- BLS12-381 G2
        {
            type F = BlsG2;
            let codecs: Vec<Codec<F>> = vec![
                Codec { name: "G2Affine:from_bytes", len: 96, big_endian: true, flag_bits: 3, slot: 48, enc: ge_enc::<G2Affine>, dec: ge_dec::<G2Affine>, dec_unchecked: Some(ge_dec_u::<G2Affine>), subgroup: true, tolerate_panic: false, exclude: None, lenient_subgroup: false },
                Codec { name: "G2Projective:from_bytes", len: 96, big_endian: true, flag_bits: 3, slot: 48, enc: |a| ge_enc(&G2Projective::from(*a)), dec: |b| ge_dec::<G2Projective>(b).map(|g| g.to_affine()), dec_unchecked: Some(|b| ge_dec_u::<G2Projective>(b).map(|g| g.to_affine())), subgroup: true, tolerate_panic: false, exclude: None, lenient_subgroup: false },
            ];
            let codecs_u: Vec<Codec<F>> = vec![
                Codec { name: "G2Affine:from_uncompressed", len: 192, big_endian: true, flag_bits: 3, slot: 48, enc: ue_enc::<G2Affine>, dec: ue_dec::<G2Affine>, dec_unchecked: Some(ue_dec_u::<G2Affine>), subgroup: true, tolerate_panic: false, exclude: None, lenient_subgroup: false },
                Codec { name: "G2Affine:from_raw_bytes", len: 192, big_endian: true, flag_bits: 3, slot: 48, enc: so_enc::<G2Affine>, dec: so_dec::<G2Affine>, dec_unchecked: Some(so_dec_u::<G2Affine>), subgroup: true, tolerate_panic: false, exclude: None, lenient_subgroup: false },
                Codec { name: "G2Affine:read_raw", len: 192, big_endian: true, flag_bits: 3, slot: 48, enc: so_write::<G2Affine>, dec: so_read::<G2Affine>, dec_unchecked: Some(so_read_u::<G2Affine>), subgroup: true, tolerate_panic: false, exclude: None, lenient_subgroup: false },
            ];
            let codecs = codecs.into_iter().chain([
                Codec { name: "G2Affine:serde", len: 96, big_endian: true, flag_bits: 3, slot: 48, enc: json_enc::<G2Affine>, dec: json_dec::<G2Affine>, dec_unchecked: None, subgroup: true, tolerate_panic: false, exclude: None, lenient_subgroup: false },
            ]).collect();
            weier_subs::<F>(p, true, 2, bls_g2::extras, bls_g2::scalar_extras, bls_g2_more, bls_g2::jacobian, bls_g2::constants, [BigUint::from(4u32), BigUint::from(4u32)], codecs, "encoding_uncompressed", bls_uncompressed_subs::<F>(p, codecs_u, ge_enc::<G2Affine>));
        }
        // --- BN254 G1
        {
            type F = BnG1;
            use bn256::{G1Affine as A, G1 as G};
            let codecs: Vec<Codec<F>> = vec![
                Codec { name: "bn256::G1Affine:from_bytes", len: 32, big_endian: false, flag_bits: 2, slot: 32, enc: ge_enc::<A>, dec: ge_dec::<A>, dec_unchecked: Some(ge_dec_u::<A>), subgroup: false, tolerate_panic: false, exclude: None, lenient_subgroup: false },
                Codec { name: "bn256::G1:from_bytes", len: 32, big_endian: false, flag_bits: 2, slot: 32, enc: |a| ge_enc(&G::from(*a)), dec: |b| ge_dec::<G>(b).map(|g| g.to_affine()), dec_unchecked: Some(|b| ge_dec_u::<G>(b).map(|g| g.to_affine())), subgroup: false, tolerate_panic: false, exclude: None, lenient_subgroup: false },
                Codec { name: "bn256::G1Affine:from_uncompressed", len: 64, big_endian: false, flag_bits: 0, slot: 32, enc: ue_enc::<A>, dec: ue_dec::<A>, dec_unchecked: Some(ue_dec_u::<A>), subgroup: false, tolerate_panic: false, exclude: None, lenient_subgroup: false },
                Codec { name: "bn256::G1Affine:from_raw_bytes", len: 64, big_endian: false, flag_bits: 0, slot: 32, enc: so_enc::<A>, dec: so_dec::<A>, dec_unchecked: Some(so_dec_u::<A>), subgroup: false, tolerate_panic: false, exclude: None, lenient_subgroup: false },
            ];
            let codecs_r: Vec<Codec<F>> = vec![
                Codec { name: "bn256::G1Affine:read_raw", len: 64, big_endian: false, flag_bits: 0, slot: 32, enc: so_write::<A>, dec: so_read::<A>, dec_unchecked: Some(so_read_u::<A>), subgroup: false, tolerate_panic: false, exclude: None, lenient_subgroup: false },
            ];

            weier_subs::<F>(p, false, 2, bn_g1::extras, bn_g1::scalar_extras, bn_g1_more, bn_g1::jacobian, bn_g1::constants, BigUint::from(3u32), codecs, "encoding_read_raw", codecs_r);
        }
        // --- BN254 G2
        {
            type F = BnG2;
            use bn256::{G2Affine as A, G2 as G};
            let codecs: Vec<Codec<F>> = vec![
                Codec { name: "bn256::G2Affine:from_bytes", len: 64, big_endian: false, flag_bits: 2, slot: 32, enc: ge_enc::<A>, dec: ge_dec::<A>, dec_unchecked: Some(ge_dec_u::<A>), subgroup: false, tolerate_panic: false, exclude: None, lenient_subgroup: false },
                Codec { name: "bn256::G2:from_bytes", len: 64, big_endian: false, flag_bits: 2, slot: 32, enc: |a| ge_enc(&G::from(*a)), dec: |b| ge_dec::<G>(b).map(|g| g.to_affine()), dec_unchecked: Some(|b| ge_dec_u::<G>(b).map(|g| g.to_affine())), subgroup: false, tolerate_panic: false, exclude: None, lenient_subgroup: false },
                Codec { name: "bn256::G2Affine:from_uncompressed", len: 128, big_endian: false, flag_bits: 0, slot: 32, enc: ue_enc::<A>, dec: ue_dec::<A>, dec_unchecked: Some(ue_dec_u::<A>), subgroup: false, tolerate_panic: false, exclude: None, lenient_subgroup: false },
                Codec { name: "bn256::G2Affine:from_raw_bytes", len: 128, big_endian: false, flag_bits: 0, slot: 32, enc: so_enc::<A>, dec: so_dec::<A>, dec_unchecked: Some(so_dec_u::<A>), subgroup: false, tolerate_panic: false, exclude: None, lenient_subgroup: false },
            ];
            let codecs_r: Vec<Codec<F>> = vec![
                Codec { name: "bn256::G2Affine:read_raw", len: 128, big_endian: false, flag_bits: 0, slot: 32, enc: so_write::<A>, dec: so_read::<A>, dec_unchecked: Some(so_read_u::<A>), subgroup: false, tolerate_panic: false, exclude: None, lenient_subgroup: false },
            ];
            // regression: Fq2::from_bytes used to unwrap the coefficient decoders, so a
            // coefficient >= p panicked instead of being rejected
            {
                let pm = modulus::<bn256::Fq>();
                let mut items: Vec<(String, Vec<u8>)> = vec![];
                for len in [64usize, 128] {
                    for slot in 0..len / 32 {
                        for (lab, v) in [("p", pm.clone()), ("p+1", &pm + 1u32), ("2^254-1", (BigUint::one() << 254) - 1u32)] {
                            let mut b = vec![0u8; len];
                            let mut vb = v.to_bytes_le();
                            vb.resize(32, 0);
                            b[32 * slot..32 * slot + 32].copy_from_slice(&vb);
                            items.push((format!("len {len}, coefficient {slot} = {lab}"), b));
                        }
                    }
                }
                let strict: Vec<Codec<F>> = codecs.iter().map(|c| c.strict()).collect();
                p.enumerate(
                    "bn256::G2.decode_noncanonical_coefficient",
                    "all-zero encodings with one Fq coefficient set to p, p+1, 2^254-1: every checked byte decoder must reject (not panic)",
                    items,
                    2,
                    true,
                    |(label, bytes)| {
                        for cd in strict.iter().filter(|c| c.len == bytes.len()) {
                            let got = decode_oracle(cd, bytes, label, None)?;
                            ensure!(got.is_none(), format!("{}:noncanonical", cd.name), "{} accepted {label}", cd.name);
                        }
                        Ok(Verdict::nontrivial("coefficient >= p"))
                    },
                );
            }
            let b = BnG2::model().b.clone();
            weier_subs::<F>(p, false, 4, bn_g2::extras, bn_g2::scalar_extras, bn_g2_more, bn_g2::jacobian, bn_g2::constants, b, codecs, "encoding_read_raw", codecs_r);
        }
        other_families(p);
    });
}
