//! S3 — "wrong output + linear repair" adversary ("S3 proposes, S2 replays").
//!
//! Starting from the honest run of an op, a public *output* is given another
//! value by faulting the assignment that feeds it; the run is replayed under
//! that plan (the library's own witness generation recomputes everything
//! downstream). The harness then evaluates the circuit's gates (with
//! `Expression::evaluate` over the mock prover's tables) around the cells that
//! changed, picks a violated gate row, looks for an advice cell of that row
//! that (a) was written by a native assignment (so it can be faulted), and
//! (b) enters the violated polynomial affinely, solves for it, adds it to the
//! plan and replays. Depth-first, bounded. Every verdict is
//! `MockProver::verify()` on a replayed run; the harness evaluator only guides
//! the search and cannot cause an alarm by itself.

use std::collections::{HashMap, HashSet};

use ff::Field;
use midnight_proofs::{
    dev::{CellValue, MockProver},
    plonk::Expression,
};
use num_bigint::BigUint;
use vpcore::{Failure, SplitMix, Verdict};

use crate::e2::*;

#[derive(Clone, Debug, Default)]
pub struct S3Stats {
    pub searches: usize,
    pub replays: usize,
    pub repairs_found: usize,
    pub dead_ends: usize,
    pub accepted_correct: usize,
}

fn cell(p: &MockProver<F>, col: usize, row: usize, over: &HashMap<(usize, usize), F>) -> F {
    if let Some(v) = over.get(&(col, row)) {
        return *v;
    }
    match p.advice()[col][row] {
        CellValue::Assigned(v) => v,
        _ => F::ZERO,
    }
}

fn eval(p: &MockProver<F>, e: &Expression<F>, row: usize, over: &HashMap<(usize, usize), F>) -> F {
    let n = p.advice().first().map(|c| c.len()).unwrap_or(1) as i64;
    let at = |rot: i32| ((row as i64 + rot as i64).rem_euclid(n)) as usize;
    e.evaluate(
        &|c| c,
        &|_| F::ZERO, // selectors are compiled into fixed columns by MockProver
        &|q| match p.fixed()[q.column_index()][at(q.rotation().0)] {
            CellValue::Assigned(v) => v,
            _ => F::ZERO,
        },
        &|q| cell(p, q.column_index(), at(q.rotation().0), over),
        &|q| match &p.instance()[q.column_index()][at(q.rotation().0)] {
            midnight_proofs::dev::InstanceValue::Assigned(v) => *v,
            _ => F::ZERO,
        },
        &|_| F::ZERO,
        &|a| -a,
        &|a, b| a + b,
        &|a, b| a * b,
        &|a, s| a * s,
    )
}

/// Advice cells (column, absolute row) queried by `e` at `row`.
fn advice_cells(p: &MockProver<F>, e: &Expression<F>, row: usize) -> Vec<(usize, usize)> {
    let n = p.advice().first().map(|c| c.len()).unwrap_or(1) as i64;
    let cells = std::cell::RefCell::new(vec![]);
    e.evaluate(
        &|_| (),
        &|_| (),
        &|_| (),
        &|q| cells.borrow_mut().push((q.column_index(), ((row as i64 + q.rotation().0 as i64).rem_euclid(n)) as usize)),
        &|_| (),
        &|_| (),
        &|_| (),
        &|_, _| (),
        &|_, _| (),
        &|_, _| (),
    );
    let mut v = cells.into_inner();
    v.sort();
    v.dedup();
    v
}

/// Violated (gate index, poly index, row) among `rows`.
fn violated(p: &MockProver<F>, rows: &[usize]) -> Vec<(usize, usize, usize)> {
    let mut out = vec![];
    let none = HashMap::new();
    for (gi, g) in p.cs().gates().iter().enumerate() {
        for (pi, poly) in g.polynomials().iter().enumerate() {
            for &r in rows {
                if eval(p, poly, r, &none) != F::ZERO {
                    out.push((gi, pi, r));
                }
            }
        }
    }
    out
}

fn changed_rows(honest: &MockProver<F>, now: &MockProver<F>) -> Vec<usize> {
    let mut rows = HashSet::new();
    let usable = now.usable_rows().clone();
    for (c, col) in now.advice().iter().enumerate() {
        for r in usable.clone() {
            if col[r] != honest.advice()[c][r] {
                for d in -4i64..=4 {
                    let rr = r as i64 + d;
                    if rr >= 0 && (rr as usize) < usable.end {
                        rows.insert(rr as usize);
                    }
                }
            }
        }
    }
    let mut v: Vec<usize> = rows.into_iter().collect();
    v.sort();
    v
}

/// Candidate wrong values for an output whose honest value is `y`.
fn wrong_outputs(y: F, rng: &mut SplitMix, exhaustive_small: bool) -> Vec<F> {
    let yb = f_to_big(&y);
    let mut v = vec![];
    if yb < BigUint::from(1u32 << 12) {
        let lim = if exhaustive_small { 64u64 } else { 8 };
        // small declared range (bit, byte, remainder, comparison result): walk it
        for c in 0..lim {
            v.push(F::from(c));
        }
        v.push(y + F::ONE);
        v.push(y + F::from(2));
        v.push(y + F::from(3));
    } else {
        v.push(y + F::ONE);
        v.push(y - F::ONE);
        v.push(F::ZERO);
        v.push(F::ONE);
    }
    v.push(F::from(rng.next_u64()));
    v.retain(|c| *c != y);
    v.dedup();
    v
}

#[allow(clippy::too_many_arguments)]
fn search<O: Op>(
    op: &O,
    x: &[BigUint],
    inst: &[F],
    honest: &MockProver<F>,
    cell_to_assign: &HashMap<(usize, usize), usize>,
    plan: HashMap<usize, Fault<F>>,
    depth: usize,
    budget: &mut usize,
    stats: &mut S3Stats,
) -> Result<(), Failure> {
    if *budget == 0 {
        return Ok(());
    }
    *budget -= 1;
    stats.replays += 1;
    let (run, prover) = run_faulted_with_prover(op, x, inst.len(), plan.clone());
    let Some(prover) = prover else { return Ok(()) }; // aborted witness generation
    if run.outcome.accepted() {
        if run.public == inst {
            return Ok(());
        }
        if op.judge(&run.public) {
            stats.accepted_correct += 1;
            return Ok(());
        }
        let cls = op.classify(&run.public).unwrap_or_else(|| "unclassified".into());
        let mut pl: Vec<_> = plan.iter().map(|(k, v)| format!("{k}:{v:?}")).collect();
        pl.sort();
        return Err(Failure::new(
            format!("{}:unsound:S3:{cls}", op.name()),
            format!(
                "MockProver accepts an assignment found by output substitution + linear repair whose public values contradict the reference: inputs x={x:?}; plan (assignment index -> value) {pl:?}; exposed {:?}; honest instance {inst:?}",
                run.public
            ),
        ));
    }
    if depth == 0 {
        stats.dead_ends += 1;
        return Ok(());
    }
    let rows = changed_rows(honest, &prover);
    let viol = violated(&prover, &rows);
    if viol.is_empty() {
        // only lookups / copy constraints are violated: not repairable linearly
        stats.dead_ends += 1;
        return Ok(());
    }
    let none = HashMap::new();
    let mut tried = 0;
    for (gi, pi, row) in viol.into_iter().take(6) {
        let poly = &prover.cs().gates()[gi].polynomials()[pi];
        for (c, r) in advice_cells(&prover, poly, row) {
            let Some(&idx) = cell_to_assign.get(&(c, r)) else { continue };
            if plan.contains_key(&idx) {
                continue;
            }
            let v0 = cell(&prover, c, r, &none);
            let f0 = eval(&prover, poly, row, &none);
            let f1 = eval(&prover, poly, row, &HashMap::from([((c, r), v0 + F::ONE)]));
            let f2 = eval(&prover, poly, row, &HashMap::from([((c, r), v0 + F::from(2))]));
            let a = f1 - f0;
            if a == F::ZERO || f2 - f1 != a {
                continue; // not affine in this cell (or independent of it)
            }
            let v_star = v0 - f0 * a.invert().unwrap();
            stats.repairs_found += 1;
            let mut p2 = plan.clone();
            p2.insert(idx, Fault::Set(v_star));
            search(op, x, inst, honest, cell_to_assign, p2, depth - 1, budget, stats)?;
            tried += 1;
            if tried >= 8 || *budget == 0 {
                return Ok(());
            }
        }
    }
    Ok(())
}

/// Runs the S3 adversary on one input tuple.
pub fn check_s3<O: Op>(op: &O, x: &[BigUint], seed: u64, max_outputs: usize, depth: usize, budget_per_search: usize) -> Result<(S3Stats, Verdict), Failure> {
    let mut stats = S3Stats::default();
    let Some(inst) = op.reference(x) else {
        return Ok((stats, Verdict::trivial("out-of-domain-input-skipped")));
    };
    let (honest_run, honest) = run_faulted_with_prover(op, x, inst.len(), HashMap::new());
    let Some(honest) = honest else {
        return Err(Failure::new(format!("{}:incomplete:{}", op.name(), honest_run.outcome.label()), format!("honest run failed: {:?}", honest_run.outcome)));
    };
    if !honest_run.outcome.accepted() || honest_run.public != inst {
        return Err(Failure::new(format!("{}:readback-mismatch", op.name()), format!("{:?} {:?} vs {:?}", honest_run.outcome, honest_run.public, inst)));
    }
    // absolute cell -> assignment index (last write wins)
    let mut cell_to_assign = HashMap::new();
    for rec in &honest_run.log {
        if let Some(r) = rec.abs_row {
            cell_to_assign.insert((rec.column, r), rec.index);
        }
    }
    // assignments feeding each public output: the advice cells linked to the instance
    let perm = honest.permutation();
    let cols = perm.columns().to_vec();
    use rayon::iter::ParallelIterator;
    let mapping: Vec<Vec<(usize, usize)>> = perm.mapping().map(|c| c.collect::<Vec<_>>()).collect();
    let ci = cols.iter().position(|c| *c.column_type() == midnight_proofs::plonk::Any::Instance && c.index() == 1);
    let mut out_assign: Vec<(usize, usize)> = vec![]; // (instance position, assignment index)
    if let Some(ci) = ci {
        for pos in op.n_input_scalars().min(inst.len())..inst.len() {
            let start = (ci, pos);
            let mut cur = mapping[start.0][start.1];
            let mut steps = 0;
            while cur != start && steps < 1 << 16 {
                let col = cols[cur.0];
                if let midnight_proofs::plonk::Any::Advice(_) = col.column_type() {
                    if let Some(&idx) = cell_to_assign.get(&(col.index(), cur.1)) {
                        out_assign.push((pos, idx));
                        break;
                    }
                }
                cur = mapping[cur.0][cur.1];
                steps += 1;
            }
        }
    }
    let mut rng = SplitMix(seed);
    // choose outputs (all if few)
    let mut chosen = out_assign.clone();
    while chosen.len() > max_outputs {
        let i = rng.below(chosen.len() as u64) as usize;
        chosen.remove(i);
    }
    for (pos, idx) in chosen {
        for y in wrong_outputs(inst[pos], &mut rng, true).into_iter().take(24) {
            stats.searches += 1;
            let mut budget = budget_per_search;
            search(op, x, &inst, &honest, &cell_to_assign, HashMap::from([(idx, Fault::Set(y))]), depth, &mut budget, &mut stats)?;
        }
    }
    let nt = stats.repairs_found > 0;
    Ok((stats.clone(), Verdict::of(nt, "S3").with(op.name())))
}
