//! Case description (replayable), mutation application, fixture bundle.

use std::path::{Path, PathBuf};
use std::sync::OnceLock;

use midnight_proofs::utils::SerdeFormat;
use serde::{Deserialize, Serialize};
use vp_circ::e6::Fix;

#[derive(Clone, Copy, Debug, PartialEq, Eq, Hash, Serialize, Deserialize)]
pub enum Fmt {
    Processed,
    RawBytes,
}

impl Fmt {
    pub fn serde(self) -> SerdeFormat {
        match self {
            Fmt::Processed => SerdeFormat::Processed,
            Fmt::RawBytes => SerdeFormat::RawBytes,
        }
    }
    pub fn tag(self) -> &'static str {
        match self {
            Fmt::Processed => "P",
            Fmt::RawBytes => "R",
        }
    }
    pub fn g1(self) -> usize {
        match self {
            Fmt::Processed => 48,
            Fmt::RawBytes => 96,
        }
    }
}

pub const FMTS: [Fmt; 2] = [Fmt::Processed, Fmt::RawBytes];

/// The valid encoding a case starts from; it also selects the entry points.
#[derive(Clone, Debug, PartialEq, Eq, Hash, Serialize, Deserialize)]
pub enum Obj {
    /// `MidnightVK::read`; a key that decodes is then used to verify.
    Vk { fix: Fix, fmt: Fmt },
    /// `plonk::VerifyingKey::read::<_, MidnightCircuit<Fix>>` and `read_from_cs` on the plonk part of the key.
    PlonkVk { fix: Fix, fmt: Fmt },
    /// `ParamsVerifierKZG::read`.
    Params { fmt: Fmt },
    /// `ZkStdLibArch::read` on the 16-byte descriptor at the start of a key.
    Arch { fix: Fix },
    /// `verify` (and `batch_verify`) of proof bytes of `fix` under the key of `vk_fix`.
    Proof { fix: Fix, poseidon: bool, vk_fix: Fix },
    /// `ZkirRelation::read` (JSON) + follow-ups.
    ZkirJson { prog: u8 },
    /// `ZkirRelation::read_relation` (bincode) + follow-ups.
    ZkirBin { prog: u8 },
    /// `write_relation` output fed to `read_relation` (must load)
    ZkirRoundtrip { prog: u8 },
    /// report only: `MidnightPK::<Fix>::read`
    Pk { fix: Fix, fmt: Fmt },
    /// report only: `plonk::ProvingKey::read`
    PlonkPk { fix: Fix, fmt: Fmt },
    /// report only: `ParamsKZG::read_custom`
    FullParams { fmt: Fmt },
}

impl Obj {
    pub fn report_only(&self) -> bool {
        matches!(self, Obj::Pk { .. } | Obj::PlonkPk { .. } | Obj::FullParams { .. })
    }
    pub fn tag(&self) -> String {
        match self {
            Obj::Vk { fmt, .. } => format!("vk{}", fmt.tag()),
            Obj::PlonkVk { fmt, .. } => format!("plonkvk{}", fmt.tag()),
            Obj::Params { fmt } => format!("vparams{}", fmt.tag()),
            Obj::Arch { .. } => "arch".into(),
            Obj::Proof { poseidon, fix, vk_fix, .. } => format!("proof-{}{}", if *poseidon { "poseidon" } else { "blake2b" }, if fix == vk_fix { "" } else { "-otherkey" }),
            Obj::ZkirJson { .. } => "zkir-json".into(),
            Obj::ZkirBin { .. } => "zkir-bincode".into(),
            Obj::ZkirRoundtrip { .. } => "zkir-bincode-roundtrip".into(),
            Obj::Pk { fmt, .. } => format!("pk{}", fmt.tag()),
            Obj::PlonkPk { fmt, .. } => format!("plonkpk{}", fmt.tag()),
            Obj::FullParams { fmt } => format!("fullparams{}", fmt.tag()),
        }
    }
    /// (header length, element size) for objects that are `header ‖ elements`.
    pub fn layout(&self) -> Option<(usize, usize)> {
        match self {
            Obj::Vk { fmt, .. } => Some((27, fmt.g1())),
            Obj::PlonkVk { fmt, .. } => Some((6, fmt.g1())),
            Obj::Params { fmt } => Some((0, 2 * fmt.g1())),
            _ => None,
        }
    }
}

#[derive(Clone, Copy, Debug, PartialEq, Eq, Hash, Serialize, Deserialize)]
pub enum ElemKind {
    /// another valid canonical point (7·G)
    OtherValid,
    Identity,
    /// x for which x³+b is not a square
    OffCurve,
    /// on the curve, outside the prime-order subgroup
    NonSubgroup,
    /// a coordinate >= p
    NonCanonical,
    AllFF,
    Zeros,
    /// compression flag bit inverted
    FlipCompressionFlag,
    /// infinity flag set on a non-zero point
    SetInfinityFlag,
    /// sort flag inverted (compressed: the negated point, valid; raw: flag must be 0)
    FlipSortFlag,
}

pub const ELEM_KINDS: [ElemKind; 10] = [
    ElemKind::OtherValid,
    ElemKind::Identity,
    ElemKind::OffCurve,
    ElemKind::NonSubgroup,
    ElemKind::NonCanonical,
    ElemKind::AllFF,
    ElemKind::Zeros,
    ElemKind::FlipCompressionFlag,
    ElemKind::SetInfinityFlag,
    ElemKind::FlipSortFlag,
];

#[derive(Clone, Debug, PartialEq, Eq, Hash, Serialize, Deserialize)]
pub enum Mut {
    Identity,
    Truncate(u32),
    Set { pos: u32, val: u8 },
    /// several byte substitutions at once (little-endian multi-byte fields)
    SetMany(Vec<(u32, u8)>),
    Element { idx: u32, kind: ElemKind },
    /// (position scaled over the length, bit)
    Flips(Vec<(u16, u8)>),
    /// base[..at] ‖ (same object kind of `other`)[at..]
    Splice { other: Fix, at: u32 },
    Append(#[serde(with = "vp_alg::hexbytes")] Vec<u8>),
    /// arbitrary bytes instead of a mutated encoding
    Raw(#[serde(with = "vp_alg::hexbytes")] Vec<u8>),
    /// the 32 bytes at `off` read as a little-endian integer v are replaced by v + r
    /// (r = scalar-field modulus): the non-canonical encoding of the same scalar
    AddModulus { off: u32 },
    /// replace the idx-th JSON token (string literal or number) by `with`
    Token { idx: u32, with: String },
}

impl Mut {
    pub fn tag(&self) -> &'static str {
        match self {
            Mut::Identity => "valid",
            Mut::Truncate(_) => "truncate",
            Mut::Set { .. } => "set-byte",
            Mut::SetMany(_) => "set-bytes",
            Mut::Element { .. } => "element",
            Mut::Flips(_) => "bitflips",
            Mut::Splice { .. } => "splice",
            Mut::Append(_) => "append",
            Mut::Raw(_) => "raw",
            Mut::Token { .. } => "token",
            Mut::AddModulus { .. } => "scalar+r",
        }
    }
}

#[derive(Clone, Debug, PartialEq, Eq, Hash, Serialize, Deserialize)]
pub struct Case {
    pub obj: Obj,
    pub m: Mut,
}

/// What the worker reports for a case.
#[derive(Clone, Debug, Default, Serialize, Deserialize)]
pub struct Outcome {
    pub nontrivial: bool,
    pub classes: Vec<String>,
    pub fail: Option<(String, String)>,
}

// ---------------------------------------------------------------------------
// Bundle: valid encodings produced by the parent, one file each.

pub struct Bundle {
    pub dir: PathBuf,
    cache: std::sync::Mutex<std::collections::HashMap<String, &'static [u8]>>,
}

pub static BUNDLE: OnceLock<Bundle> = OnceLock::new();

impl Bundle {
    pub fn open(dir: &Path) -> Bundle {
        Bundle { dir: dir.to_path_buf(), cache: Default::default() }
    }
    pub fn put(&self, name: &str, bytes: &[u8]) {
        std::fs::write(self.dir.join(name), bytes).expect("cannot write bundle file");
    }
    pub fn get(&self, name: &str) -> &'static [u8] {
        let mut c = self.cache.lock().unwrap();
        if let Some(b) = c.get(name) {
            return b;
        }
        let b: &'static [u8] = Box::leak(std::fs::read(self.dir.join(name)).unwrap_or_else(|e| panic!("bundle file {name}: {e}")).into_boxed_slice());
        c.insert(name.to_string(), b);
        b
    }
    pub fn n_zkir(&self) -> usize {
        String::from_utf8_lossy(self.get("zkir_count")).trim().parse().unwrap()
    }

    /// The valid encoding an object starts from.
    pub fn base(&self, obj: &Obj) -> &'static [u8] {
        match obj {
            Obj::Vk { fix, fmt } => self.get(&format!("vk_{}_{}", *fix as u8, fmt.tag())),
            Obj::PlonkVk { fix, fmt } => &self.get(&format!("vk_{}_{}", *fix as u8, fmt.tag()))[21..],
            Obj::Params { fmt } => self.get(&format!("vparams_{}", fmt.tag())),
            Obj::Arch { fix } => &self.get(&format!("vk_{}_P", *fix as u8))[..16],
            Obj::Proof { fix, poseidon, .. } => self.get(&format!("proof_{}_{}", *fix as u8, if *poseidon { "poseidon" } else { "blake" })),
            Obj::ZkirJson { prog } => self.get(&format!("zkir_{prog}.json")),
            Obj::ZkirBin { prog } => self.get(&format!("zkir_{prog}.bin")),
            Obj::ZkirRoundtrip { prog } => self.get(&format!("zkir_{prog}.exact.bin")),
            Obj::Pk { fix, fmt } => self.get(&format!("pk_{}_{}", *fix as u8, fmt.tag())),
            Obj::PlonkPk { fix, fmt } => &self.get(&format!("pk_{}_{}", *fix as u8, fmt.tag()))[3..],
            Obj::FullParams { fmt } => self.get(&format!("fullparams_{}", fmt.tag())),
        }
    }

    fn other_base(&self, obj: &Obj, other: Fix) -> &'static [u8] {
        let o = match obj.clone() {
            Obj::Vk { fmt, .. } => Obj::Vk { fix: other, fmt },
            Obj::PlonkVk { fmt, .. } => Obj::PlonkVk { fix: other, fmt },
            Obj::Arch { .. } => Obj::Arch { fix: other },
            Obj::Proof { poseidon, vk_fix, .. } => Obj::Proof { fix: other, poseidon, vk_fix },
            Obj::Pk { fmt, .. } => Obj::Pk { fix: other, fmt },
            Obj::PlonkPk { fmt, .. } => Obj::PlonkPk { fix: other, fmt },
            o => o,
        };
        self.base(&o)
    }

    /// The mutated input of a case and the number of byte positions (over the
    /// common prefix) in which it differs from the valid encoding.
    pub fn input(&self, c: &Case) -> (Vec<u8>, usize) {
        let base = self.base(&c.obj);
        let mut v = base.to_vec();
        match &c.m {
            Mut::Identity => {}
            Mut::Truncate(n) => v.truncate(*n as usize),
            Mut::Set { pos, val } => {
                if let Some(b) = v.get_mut(*pos as usize) {
                    *b = *val
                }
            }
            Mut::SetMany(l) => {
                for (pos, val) in l {
                    if let Some(b) = v.get_mut(*pos as usize) {
                        *b = *val
                    }
                }
            }
            Mut::Element { idx, kind } => {
                if let Some((h, es)) = c.obj.layout() {
                    let at = h + *idx as usize * es;
                    if at + es <= v.len() {
                        let g2 = matches!(c.obj, Obj::Params { .. });
                        let compressed = es == 48 || (g2 && es == 96);
                        let new = crate::points::element(g2, compressed, *kind, &v[at..at + es]);
                        v[at..at + es].copy_from_slice(&new);
                    }
                }
            }
            Mut::Flips(l) => {
                // bodies only: header bytes are enumerated exhaustively elsewhere
                let h = c.obj.layout().map(|l| l.0).unwrap_or(0).min(v.len());
                for (p, bit) in l {
                    if v.len() > h {
                        let i = h + vpcore::idx(*p, v.len() - h);
                        v[i] ^= 1 << (bit & 7);
                    }
                }
            }
            Mut::Splice { other, at } => {
                let o = self.other_base(&c.obj, *other);
                let at = (*at as usize).min(v.len());
                v.truncate(at);
                if at < o.len() {
                    v.extend_from_slice(&o[at..]);
                }
            }
            Mut::Append(extra) => v.extend_from_slice(extra),
            Mut::Raw(raw) => v = raw.clone(),
            Mut::Token { idx, with } => v = crate::zk::replace_token(&v, *idx as usize, with),
            Mut::AddModulus { off } => {
                const R_LE: [u8; 32] = [0x01, 0, 0, 0, 0xff, 0xff, 0xff, 0xff, 0xfe, 0x5b, 0xfe, 0xff, 0x02, 0xa4, 0xbd, 0x53, 0x05, 0xd8, 0xa1, 0x09, 0x08, 0xd8, 0x39, 0x33, 0x48, 0x7d, 0x9d, 0x29, 0x53, 0xa7, 0xed, 0x73];
                let off = *off as usize;
                if off + 32 <= v.len() {
                    let mut carry = 0u16;
                    let mut out = [0u8; 32];
                    for i in 0..32 {
                        let t = v[off + i] as u16 + R_LE[i] as u16 + carry;
                        out[i] = t as u8;
                        carry = t >> 8;
                    }
                    if carry == 0 {
                        v[off..off + 32].copy_from_slice(&out);
                    }
                }
            }
        }
        let mut diff = v.iter().zip(base.iter()).filter(|(a, b)| a != b).count();
        if matches!(c.m, Mut::AddModulus { .. }) && diff > 0 {
            // one substituted scalar (same value, non-canonical encoding) counts as one position
            diff = 1;
        }
        (v, diff)
    }
}

pub fn hex_prefix(b: &[u8], max: usize) -> String {
    if b.len() <= max {
        hex::encode(b)
    } else {
        format!("{}… ({} bytes)", hex::encode(&b[..max]), b.len())
    }
}

/// Stable identity of a panic site: `vpcore::panic_signature` with the cargo
/// registry / rustc source prefixes removed and digit runs collapsed.
pub fn stable_panic(p: &str) -> String {
    let mut q = p.to_string();
    for marker in ["/.cargo/registry/src/", "/rustc/"] {
        if let Some(i) = q.find(marker) {
            let rest = &q[i + marker.len()..];
            if let Some(j) = rest.find('/') {
                q = format!("{}{}", if marker == "/rustc/" { "rustc/" } else { "" }, &rest[j + 1..]);
            }
        }
    }
    let q = q.replace("/repo/", "");
    let (loc, msg) = match q.find(": ") {
        Some(i) => (q[..i].to_string(), q[i..].to_string()),
        None => (q.clone(), String::new()),
    };
    let mut out = loc;
    let mut prev_hash = false;
    let mut n = 0;
    for ch in msg.chars() {
        if n >= 90 {
            break;
        }
        if ch.is_ascii_digit() {
            if !prev_hash {
                out.push('#');
                n += 1;
            }
            prev_hash = true;
        } else {
            prev_hash = false;
            out.push(if ch == '\n' { ' ' } else { ch });
            n += 1;
        }
    }
    out
}
