//! ZKIR part of C16: seed programs, JSON token mutator, loaders and the
//! follow-up calls on every program that loads.

use std::collections::HashMap;

use group::Group;
use midnight_curves::{Fr as JubjubScalar, JubjubSubgroup};
use midnight_zk_stdlib::{MidnightCircuit, Relation};
use midnight_zkir::{Instruction, IrType, IrValue, Operation, ZkirRelation};

use crate::alloc::guarded;
use crate::types::Outcome;

pub const SEEDS: [&str; 5] = [
    // 0: native arithmetic, constants
    r#"{"instructions":[{"op":{"load":"Native"},"outputs":["v0","v1"]},{"op":"add","inputs":["v0","v1"],"outputs":["s"]},{"op":"mul","inputs":["s","v1"],"outputs":["m"]},{"op":"neg","inputs":["m"],"outputs":["n"]},{"op":"is_equal","inputs":["n","Native:0x05"],"outputs":["b"]},{"op":"assert_not_equal","inputs":["v0","v1"]},{"op":"publish","inputs":["n","b"]}]}"#,
    // 1: big integers and bytes
    r#"{"instructions":[{"op":{"load":{"BigUint":64}},"outputs":["x","y"]},{"op":{"load":{"Bytes":2}},"outputs":["bs"]},{"op":"mul","inputs":["x","y"],"outputs":["xy"]},{"op":{"into_bytes":16},"inputs":["xy"],"outputs":["bytes"]},{"op":{"from_bytes":"Native"},"inputs":["bs"],"outputs":["n"]},{"op":{"mod_exp":3},"inputs":["x","y"],"outputs":["e"]},{"op":"publish","inputs":["bytes","n","e"]}]}"#,
    // 2: Jubjub
    r#"{"instructions":[{"op":{"load":"JubjubPoint"},"outputs":["p"]},{"op":{"load":"JubjubScalar"},"outputs":["s"]},{"op":"mul","inputs":["s","p"],"outputs":["sp"]},{"op":"add","inputs":["sp","Jubjub:GENERATOR"],"outputs":["q"]},{"op":"affine_coordinates","inputs":["q"],"outputs":["qx","qy"]},{"op":"publish","inputs":["qx","qy"]}]}"#,
    // 3: Poseidon and inner product
    r#"{"instructions":[{"op":{"load":"Native"},"outputs":["a","b","c","d"]},{"op":"poseidon","inputs":["a","b"],"outputs":["h"]},{"op":"inner_product","inputs":["a","b","c","d"],"outputs":["ip"]},{"op":{"load":"Bool"},"outputs":["t"]},{"op":"publish","inputs":["h","ip","t"]}]}"#,
    // 4: SHA-256 (expensive follow-ups: few mutations only)
    r#"{"instructions":[{"op":{"load":{"Bytes":4}},"outputs":["m"]},{"op":"sha256","inputs":["m"],"outputs":["h"]},{"op":"publish","inputs":["h"]}]}"#,
];

/// Byte ranges of the JSON tokens we mutate: string literals (with quotes) and numbers.
pub fn tokens(s: &[u8]) -> Vec<(usize, usize)> {
    let mut out = vec![];
    let mut i = 0;
    while i < s.len() {
        match s[i] {
            b'"' => {
                let st = i;
                i += 1;
                while i < s.len() && s[i] != b'"' {
                    if s[i] == b'\\' {
                        i += 1;
                    }
                    i += 1;
                }
                i = (i + 1).min(s.len());
                out.push((st, i));
            }
            b'0'..=b'9' | b'-' => {
                let st = i;
                while i < s.len() && matches!(s[i], b'0'..=b'9' | b'-' | b'.' | b'e' | b'E' | b'+') {
                    i += 1;
                }
                out.push((st, i));
            }
            _ => i += 1,
        }
    }
    out
}

pub fn replace_token(s: &[u8], idx: usize, with: &str) -> Vec<u8> {
    let t = tokens(s);
    match t.get(idx) {
        Some((a, b)) => [&s[..*a], with.as_bytes(), &s[*b..]].concat(),
        None => s.to_vec(),
    }
}

/// Replacement texts for a token (the second component marks "huge size").
pub fn replacements(is_string: bool) -> Vec<&'static str> {
    if is_string {
        vec![
            "\"\"", "\"v0\"", "\"zz\"", "\"0\"", "\"1\"", "\"2\"", "\"0xdead\"", "\"Native:0x05\"", "\"Native:-0x01\"", "\"Native:0x\"", "\"BigUint:0xff\"", "\"Jubjub:GENERATOR\"", "\"Jubjub:IDENTITY\"",
            "\"Jubjub:00\"", "\"JubjubScalar:0x03\"", "\"a:b:c\"", "\"load\"", "\"publish\"", "\"Native\"", "\"Bool\"", "\"JubjubPoint\"", "\"JubjubScalar\"", "\"BigUint\"", "\"Bytes\"", "\"poseidon\"", "\"sha512\"", "null", "7", "[]", "{}",
        ]
    } else {
        vec!["0", "1", "2", "8", "31", "32", "33", "64", "255", "256", "1024", "4096", "-1", "1.5", "1e2", "\"8\"", "null", "[]"]
    }
}

pub const HUGE_NUMBERS: [&str; 8] = ["65536", "16777216", "4294967295", "4294967296", "1099511627776", "9223372036854775807", "18446744073709551615", "18446744073709551616"];

fn leak(s: String) -> &'static str {
    Box::leak(s.into_boxed_str())
}

/// A type-correct witness for the `Load` instructions (None when a declared
/// size is too large for the harness itself to materialize).
fn witness_for(prog: &[Instruction]) -> Option<HashMap<&'static str, IrValue>> {
    let mut w: HashMap<&'static str, IrValue> = HashMap::new();
    for i in prog {
        if let Operation::Load(t) = i.operation {
            for name in &i.outputs {
                let v: IrValue = match t {
                    IrType::Bool => true.into(),
                    IrType::Bytes(n) => {
                        if n > 4096 {
                            return None;
                        }
                        vec![7u8; n].into()
                    }
                    IrType::Native => midnight_curves::Fq::from(3).into(),
                    IrType::BigUint(n) => {
                        if n == 0 {
                            num_bigint::BigUint::from(0u8).into()
                        } else {
                            num_bigint::BigUint::from(if n >= 2 { 3u8 } else { 1u8 }).into()
                        }
                    }
                    IrType::JubjubPoint => JubjubSubgroup::generator().into(),
                    IrType::JubjubScalar => JubjubScalar::from(5).into(),
                };
                w.insert(leak(name.clone()), v);
            }
        }
    }
    Some(w)
}

fn classify_panic(entry: &str, p: &str) -> String {
    if p.contains("proofs/src/dev/cost_model.rs") {
        "panic:cost-model-unwrap".to_string()
    } else if p.contains("bincode") && p.contains("capacity overflow") {
        // one defect (unchecked length field), several lines (Vec<u8> / Vec<T>)
        format!("panic:{entry}:bincode/src/features/impl_alloc.rs: capacity overflow")
    } else {
        format!("panic:{entry}:{}", crate::types::stable_panic(p))
    }
}

/// Loads a program from `input` and runs the follow-ups. `json`: which loader.
pub fn run(json: bool, input: &[u8], diff: usize, out: &mut Outcome) {
    let n = input.len();
    let entry = if json { "ZkirRelation::read" } else { "ZkirRelation::read_relation" };
    let loaded = if json {
        let text: &'static str = leak(String::from_utf8_lossy(input).into_owned());
        guarded(entry, n, || ZkirRelation::read(text).map_err(|e| format!("{e:?}")))
    } else {
        guarded(entry, n, || {
            let mut r = input;
            <ZkirRelation as Relation>::read_relation(&mut r).map_err(|e| format!("{e}"))
        })
    };
    let rel = match loaded {
        Err(p) => {
            out.fail = Some((classify_panic(entry, &p), format!("{entry} panicked: {p}; input {}", crate::types::hex_prefix(input, 600))));
            return;
        }
        Ok(Err(e)) => {
            if std::env::var("VP_C16_DEBUG").is_ok() {
                eprintln!("load error: {e}");
            }
            out.nontrivial = diff <= 8;
            out.classes.push("load-err".into());
            return;
        }
        Ok(Ok(rel)) => rel,
    };
    out.nontrivial = true;
    out.classes.push("loaded".into());

    // ---- judged: the loader itself (above) and used_chips ----------------------
    match guarded("ZkirRelation::used_chips", n, || rel.used_chips()) {
        Ok(a) => out.classes.push(format!("arch:jubjub={},poseidon={},sha256={}", a.jubjub as u8, a.poseidon as u8, a.sha2_256 as u8)),
        Err(p) => {
            out.fail = Some((classify_panic("ZkirRelation::used_chips", &p), format!("used_chips panicked on a program that loaded: {p}; program bytes {}", crate::types::hex_prefix(input, 1200))));
            return;
        }
    }

    // ---- report only (scope of C16 = decoding; compiling a program is judged by C18):
    // every entry point below is announced as `ir-compile:*`; panics are counted here,
    // aborts / refused allocations kill the worker and are counted by the parent.
    let ro = |out: &mut Outcome, what: &str, p: &str| {
        let site = if p.contains("proofs/src/dev/cost_model.rs") { "cost-model-unwrap".to_string() } else { crate::types::stable_panic(p).chars().take(70).collect() };
        out.classes.push(format!("report-only:ir-compile:{what}:panic:{site}"));
    };
    let mut enc = vec![];
    let prog: Option<Vec<Instruction>> = match guarded("ir-compile:write_relation", n, || rel.write_relation(&mut enc)) {
        Ok(Ok(())) => {
            let enc2 = enc.clone();
            let dec = vpcore::catch(move || bincode::decode_from_slice::<Vec<Instruction>, _>(&enc2, bincode::config::standard()).ok().map(|x| x.0)).ok().flatten();
            if !json && enc[..] != input[..enc.len().min(input.len())] {
                out.classes.push("bincode-noncanonical-accepted".into());
            }
            dec
        }
        Ok(Err(_)) => None,
        Err(p) => {
            ro(out, "write_relation", &p);
            None
        }
    };
    match guarded("ir-compile:from_relation+min_k", n, || MidnightCircuit::from_relation(&rel).min_k()) {
        Ok(k) => out.classes.push(format!("report-only:ir-compile:min_k:ok:k{}", if k <= 12 { "<=12" } else { ">12" })),
        Err(p) => ro(out, "min_k", &p),
    }
    match guarded("ir-compile:public_inputs(empty)", n, || rel.public_inputs(HashMap::new()).map(|v| v.len()).map_err(|e| format!("{e:?}"))) {
        Ok(Ok(_)) => out.classes.push("report-only:ir-compile:pi-empty:ok".into()),
        Ok(Err(_)) => out.classes.push("report-only:ir-compile:pi-empty:err".into()),
        Err(p) => ro(out, "pi-empty", &p),
    }
    match prog.as_deref().and_then(witness_for) {
        None => out.classes.push("report-only:ir-compile:witness-skipped".into()),
        Some(w) => match guarded("ir-compile:public_inputs(witness)", n, || rel.public_inputs(w).map(|v| v.len()).map_err(|e| format!("{e:?}"))) {
            Ok(Ok(_)) => out.classes.push("report-only:ir-compile:pi-witness:ok".into()),
            Ok(Err(_)) => out.classes.push("report-only:ir-compile:pi-witness:err".into()),
            Err(p) => ro(out, "pi-witness", &p),
        },
    }
}

/// The bincode encoding of a seed program (parent side, valid input).
pub fn seed_bincode(json: &'static str) -> Vec<u8> {
    let rel = ZkirRelation::read(json).expect("seed program must load");
    let mut v = vec![];
    rel.write_relation(&mut v).expect("seed program must encode");
    v
}
