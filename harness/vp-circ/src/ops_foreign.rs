//! C05 — operations of the foreign-field chip (`FieldChip`) and of the
//! big-unsigned-integer gadget (`BigUintGadget`) as harness relations, their
//! reference models (num-bigint), limb decoders written from the documented
//! representation, a runner that also returns the *values* of the logged
//! assignments (needed by structured fault plans), and the structured fault
//! plans the property names (±B, wrong quotient / carries, "+m distributed
//! over the limbs" of a normalisation output).
//!
//! Representation of an emulated element (field_chip.rs, doc comment of
//! `AssignedField`): limbs `[x_0..x_{n-1}]` in base `B = 2^LOG2_BASE` denote
//! the integer `1 + sum_i B^i x_i`; an element is *well-formed* when every
//! limb is in `[0, B)` and the most significant one in `[0, 2^t)` with
//! `t = bits(m) - (n-1)*LOG2_BASE` (`well_formed_log2_bounds`). Hence a
//! residue `r` has the canonical representation "limbs of `(r-1) mod m`" and
//! possibly a second one, "limbs of `(r-1) mod m + m`", when that is below
//! `2^bits(m)`; zero is unique.

use std::{
    collections::HashMap,
    marker::PhantomData,
    sync::{Mutex, OnceLock},
};

use midnight_circuits::{
    field::{
        decomposition::chip::{P2RDecompositionChip, P2RDecompositionConfig},
        foreign::{
            nb_field_chip_columns,
            params::{FieldEmulationParams, MultiEmulationParams as MEP},
            FieldChip, FieldChipConfig,
        },
        NativeChip, NativeGadget,
    },
    instructions::*,
    testing_utils::FromScratch,
    types::{AssignedBigUint, AssignedBit, AssignedByte, AssignedField, AssignedNative},
    CircuitField,
};
use midnight_proofs::{
    circuit::{verif_hooks, Layouter, SimpleFloorPlanner, Value},
    dev::{CellValue, InstanceValue, MockProver},
    plonk::{k_from_circuit, Any, Circuit, ConstraintSystem, Error},
};
use midnight_zk_stdlib::{MidnightCircuit, ZkStdLib, ZkStdLibArch};
use num_bigint::{BigInt, BigUint};
use num_integer::Integer;
use num_traits::{One, ToPrimitive, Zero};
use rayon::iter::ParallelIterator;
use serde::{Deserialize, Serialize};
use vpcore::{CaseResult, Failure, SplitMix, Verdict};

use crate::e2::{self, big_to_f, f_to_big, AssignRecord, Fault, Op, OpRel, Outcome, F};

pub type NG = NativeGadget<F, P2RDecompositionChip<F>, NativeChip<F>>;

// ---------------------------------------------------------------------------
// Emulated fields

/// An emulated field compiled in over the BLS12-381 scalar field.
pub trait EmField: Clone + Copy + Send + Sync + std::fmt::Debug + 'static {
    type K: CircuitField;
    type P: FieldEmulationParams<F, Self::K>;
    const NAME: &'static str;
    /// Documented in `params.rs` (cross-checked against the trait constants by
    /// `assert_params`).
    const LOG2_BASE: u32;
    const NB_LIMBS: usize;
    /// The modulus, from the curve specifications (cross-checked).
    const MODULUS_HEX: &'static str;
    /// Reachable through `ZkStdLib`? Otherwise a FromScratch circuit is used.
    const VIA_STD: bool;
    fn arch() -> ZkStdLibArch {
        ZkStdLibArch::default()
    }
    fn std_chip(_std: &ZkStdLib) -> &FieldChip<F, Self::K, Self::P, NG> {
        panic!("{} is not exposed by ZkStdLib", Self::NAME)
    }
}

#[derive(Clone, Copy, Debug)]
pub struct SecpBase;
#[derive(Clone, Copy, Debug)]
pub struct SecpScalar;
#[derive(Clone, Copy, Debug)]
pub struct BlsBase;
#[derive(Clone, Copy, Debug)]
pub struct C25519Base;
#[derive(Clone, Copy, Debug)]
pub struct C25519Scalar;

impl EmField for SecpBase {
    type K = midnight_curves::k256::Fp;
    type P = MEP;
    const NAME: &'static str = "secp256k1_base";
    const LOG2_BASE: u32 = 64;
    const NB_LIMBS: usize = 4;
    const MODULUS_HEX: &'static str = "fffffffffffffffffffffffffffffffffffffffffffffffffffffffefffffc2f";
    const VIA_STD: bool = true;
    fn arch() -> ZkStdLibArch {
        ZkStdLibArch { secp256k1: true, ..Default::default() }
    }
    fn std_chip(std: &ZkStdLib) -> &FieldChip<F, Self::K, MEP, NG> {
        std.secp256k1_curve().base_field_chip()
    }
}

impl EmField for SecpScalar {
    type K = midnight_curves::k256::Fq;
    type P = MEP;
    const NAME: &'static str = "secp256k1_scalar";
    const LOG2_BASE: u32 = 64;
    const NB_LIMBS: usize = 4;
    const MODULUS_HEX: &'static str = "fffffffffffffffffffffffffffffffebaaedce6af48a03bbfd25e8cd0364141";
    const VIA_STD: bool = true;
    fn arch() -> ZkStdLibArch {
        ZkStdLibArch { secp256k1: true, ..Default::default() }
    }
    fn std_chip(std: &ZkStdLib) -> &FieldChip<F, Self::K, MEP, NG> {
        std.secp256k1_scalar()
    }
}

impl EmField for BlsBase {
    type K = midnight_curves::Fp;
    type P = MEP;
    const NAME: &'static str = "bls12_381_base";
    const LOG2_BASE: u32 = 56;
    const NB_LIMBS: usize = 7;
    const MODULUS_HEX: &'static str =
        "1a0111ea397fe69a4b1ba7b6434bacd764774b84f38512bf6730d2a0f6b0f6241eabfffeb153ffffb9feffffffffaaab";
    const VIA_STD: bool = true;
    fn arch() -> ZkStdLibArch {
        ZkStdLibArch { bls12_381: true, ..Default::default() }
    }
    fn std_chip(std: &ZkStdLib) -> &FieldChip<F, Self::K, MEP, NG> {
        std.bls12_381_curve().base_field_chip()
    }
}

impl EmField for C25519Base {
    type K = midnight_curves::curve25519::Fp;
    type P = MEP;
    const NAME: &'static str = "curve25519_base";
    const LOG2_BASE: u32 = 64;
    const NB_LIMBS: usize = 4;
    const MODULUS_HEX: &'static str = "7fffffffffffffffffffffffffffffffffffffffffffffffffffffffffffffed";
    const VIA_STD: bool = false;
}

impl EmField for C25519Scalar {
    type K = midnight_curves::curve25519::Scalar;
    type P = MEP;
    const NAME: &'static str = "curve25519_scalar";
    const LOG2_BASE: u32 = 51;
    const NB_LIMBS: usize = 5;
    const MODULUS_HEX: &'static str = "1000000000000000000000000000000014def9dea2f79cd65812631a5cf5d3ed";
    const VIA_STD: bool = false;
}

pub type AF<Fd> = AssignedField<F, <Fd as EmField>::K, <Fd as EmField>::P>;
pub type Chip<Fd> = FieldChip<F, <Fd as EmField>::K, <Fd as EmField>::P, NG>;

/// Harness-side model of the representation of a field.
#[derive(Clone, Debug)]
pub struct FModel {
    pub m: BigUint,
    pub lb: u32,
    pub n: usize,
    pub bits: u64,
}

pub fn model<Fd: EmField>() -> FModel {
    let m = BigUint::parse_bytes(Fd::MODULUS_HEX.as_bytes(), 16).unwrap();
    let bits = m.bits();
    FModel { m, lb: Fd::LOG2_BASE, n: Fd::NB_LIMBS, bits }
}

impl FModel {
    pub fn base(&self) -> BigUint {
        BigUint::one() << self.lb
    }
    /// log2 of the bound of limb i of a well-formed element.
    pub fn limb_bits(&self, i: usize) -> u64 {
        if i + 1 == self.n {
            self.bits - (self.n as u64 - 1) * self.lb as u64
        } else {
            self.lb as u64
        }
    }
    fn split(&self, mut v: BigUint) -> Vec<BigUint> {
        let b = self.base();
        let mut out = vec![];
        for _ in 0..self.n {
            let (q, r) = v.div_rem(&b);
            out.push(r);
            v = q;
        }
        assert!(v.is_zero());
        out
    }
    /// Canonical limbs of the residue r (limbs of (r-1) mod m).
    pub fn canon_limbs(&self, r: &BigUint) -> Vec<BigUint> {
        let r = r % &self.m;
        let v = (&r + &self.m - BigUint::one()) % &self.m;
        self.split(v)
    }
    pub fn encode(&self, r: &BigUint) -> Vec<F> {
        self.canon_limbs(r).iter().map(big_to_f).collect()
    }
    /// The limb integer sum_i B^i l_i of a well-formed limb vector.
    pub fn limb_int(&self, limbs: &[F]) -> Option<BigUint> {
        if limbs.len() != self.n {
            return None;
        }
        let mut v = BigUint::zero();
        for (i, l) in limbs.iter().enumerate().rev() {
            let l = f_to_big(l);
            if l.bits() > self.limb_bits(i) {
                return None;
            }
            v = (v << self.lb) + l;
        }
        Some(v)
    }
    /// Residue denoted by a well-formed limb vector; `None` if not well-formed.
    pub fn decode(&self, limbs: &[F]) -> Option<BigUint> {
        self.limb_int(limbs).map(|v| (v + BigUint::one()) % &self.m)
    }
    /// Default number of chunks of `assigned_to_le_chunks` (field_chip.rs): per-limb
    /// chunks when the chunk size divides LOG2_BASE, else chunks of the NUM_BITS bits.
    pub fn default_chunks(&self, c: usize) -> usize {
        if self.lb as usize % c == 0 {
            (self.lb as usize / c) * self.n
        } else {
            (self.bits as usize).div_ceil(c)
        }
    }
    /// Upper end (inclusive) of the residues that have two well-formed
    /// representations: r in [1, 2^bits - m].
    pub fn two_rep_max(&self) -> BigUint {
        (BigUint::one() << self.bits) - &self.m
    }
}

/// Panics unless the harness constants agree with the compiled parameters.
pub fn assert_params<Fd: EmField>() {
    let md = model::<Fd>();
    assert_eq!(md.m, <Fd::K as CircuitField>::modulus(), "{}: modulus", Fd::NAME);
    assert_eq!(Fd::LOG2_BASE, <Fd::P as FieldEmulationParams<F, Fd::K>>::LOG2_BASE, "{}: LOG2_BASE", Fd::NAME);
    assert_eq!(Fd::NB_LIMBS as u32, <Fd::P as FieldEmulationParams<F, Fd::K>>::NB_LIMBS, "{}: NB_LIMBS", Fd::NAME);
}

fn to_k<Fd: EmField>(x: &BigUint) -> Fd::K {
    let m = model::<Fd>().m;
    <Fd::K as CircuitField>::from_biguint(&(x % m)).expect("reduced value")
}

pub fn hex(x: &BigUint) -> String {
    x.to_str_radix(16)
}
pub fn unhex(s: &str) -> BigUint {
    BigUint::parse_bytes(s.as_bytes(), 16).expect("hex constant")
}

// ---------------------------------------------------------------------------
// Programs over field registers

/// Registers: the `n_field` inputs first, then one new register per step.
/// Constants are hex strings (residues).
#[derive(Clone, Debug, Serialize, Deserialize, PartialEq, Eq)]
pub enum Step {
    Add(usize, usize),
    Sub(usize, usize),
    Mul(usize, usize),
    /// `mul(x, y, Some(k))`
    MulK(usize, usize, String),
    Div(usize, usize),
    Neg(usize),
    Inv(usize),
    Inv0(usize),
    AddC(usize, String),
    MulC(usize, String),
    Lin(Vec<(String, usize)>, String),
    Fixed(String),
    /// `select(bit, x, y)`: x if the bit is set.
    Select(usize, usize, usize),
    /// `assigned_from_le_bits(bits[lo..hi])`
    FromBits(usize, usize),
    /// `assigned_from_le_bytes(bytes[lo..hi])`
    FromBytes(usize, usize),
}

#[derive(Clone, Debug, Serialize, Deserialize, PartialEq, Eq)]
pub enum Term {
    Expose(usize),
    IsZero(usize),
    IsEq(usize, usize),
    IsNe(usize, usize),
    IsEqFixed(usize, String),
    ToBits(usize, Option<usize>, bool),
    ToBytes(usize, Option<usize>),
    /// `assigned_to_le_chunks(x, nb_bits_per_chunk, nb_chunks)`
    ToChunks(usize, usize, Option<usize>),
    AssertEq(usize, usize),
    AssertNe(usize, usize),
    AssertEqFixed(usize, String),
    AssertNeFixed(usize, String),
    AssertNonZero(usize),
}

#[derive(Clone, Debug, Serialize, Deserialize, PartialEq, Eq)]
pub struct Prog {
    pub n_field: usize,
    pub n_bits: usize,
    pub n_bytes: usize,
    pub steps: Vec<Step>,
    pub term: Term,
}

impl Prog {
    pub fn unary(step: Step) -> Prog {
        Prog { n_field: 1, n_bits: 0, n_bytes: 0, steps: vec![step], term: Term::Expose(1) }
    }
    pub fn binary(step: Step) -> Prog {
        Prog { n_field: 2, n_bits: 0, n_bytes: 0, steps: vec![step], term: Term::Expose(2) }
    }
    pub fn term1(term: Term) -> Prog {
        Prog { n_field: 1, n_bits: 0, n_bytes: 0, steps: vec![], term }
    }
    pub fn term2(term: Term) -> Prog {
        Prog { n_field: 2, n_bits: 0, n_bytes: 0, steps: vec![], term }
    }
    pub fn n_inputs(&self) -> usize {
        self.n_field + self.n_bits + self.n_bytes
    }
    pub fn short(&self) -> String {
        let s = format!("{:?}|{:?}", self.steps, self.term);
        let s: String = s.chars().filter(|c| !c.is_whitespace()).collect();
        format!("in{}b{}y{}:{}", self.n_field, self.n_bits, self.n_bytes, s)
    }
    /// Does a lazily-evaluated (possibly un-normalised) register feed another
    /// step or the terminal? (non-triviality rule "un-normalised chain")
    pub fn has_lazy_use(&self) -> bool {
        let lazy: Vec<usize> = self
            .steps
            .iter()
            .enumerate()
            .filter(|(_, s)| matches!(s, Step::Add(..) | Step::Sub(..) | Step::Neg(..) | Step::AddC(..) | Step::MulC(..) | Step::Lin(..) | Step::Select(..)))
            .map(|(i, _)| self.n_field + i)
            .collect();
        let uses_step = |s: &Step| -> Vec<usize> {
            match s {
                Step::Add(a, b) | Step::Sub(a, b) | Step::Mul(a, b) | Step::MulK(a, b, _) | Step::Div(a, b) | Step::Select(_, a, b) => vec![*a, *b],
                Step::Neg(a) | Step::Inv(a) | Step::Inv0(a) | Step::AddC(a, _) | Step::MulC(a, _) => vec![*a],
                Step::Lin(t, _) => t.iter().map(|(_, i)| *i).collect(),
                Step::Fixed(_) | Step::FromBits(..) | Step::FromBytes(..) => vec![],
            }
        };
        let uses_term: Vec<usize> = match &self.term {
            Term::Expose(a) | Term::IsZero(a) | Term::IsEqFixed(a, _) | Term::ToBits(a, _, _) | Term::ToBytes(a, _) | Term::ToChunks(a, _, _) | Term::AssertEqFixed(a, _) | Term::AssertNeFixed(a, _) | Term::AssertNonZero(a) => vec![*a],
            Term::IsEq(a, b) | Term::IsNe(a, b) | Term::AssertEq(a, b) | Term::AssertNe(a, b) => vec![*a, *b],
        };
        self.steps.iter().flat_map(uses_step).chain(uses_term).any(|r| lazy.contains(&r))
    }
}

/// What the reference interpreter produces.
#[derive(Clone, Debug, PartialEq, Eq)]
pub enum Out {
    Elem(BigUint),
    Bit(bool),
    /// canonical little-endian bits
    Bits(Vec<bool>),
    Bytes(Vec<u8>),
    /// little-endian chunks of the given bit size (canonical ones)
    Chunks(Vec<BigUint>, usize),
    /// an assertion that holds
    Unit,
}

fn inv_mod(a: &BigUint, m: &BigUint) -> Option<BigUint> {
    if (a % m).is_zero() {
        return None;
    }
    // m is prime
    Some(a.modpow(&(m - BigUint::from(2u8)), m))
}

/// Reference semantics over residues (num-bigint). `None`: outside the
/// documented domain (division by zero, inversion of zero, a violated
/// assertion, a value that does not fit the requested number of bits/bytes).
pub fn interpret(md: &FModel, prog: &Prog, x: &[BigUint]) -> Option<Out> {
    let m = &md.m;
    if x.len() != prog.n_inputs() {
        return None;
    }
    let mut r: Vec<BigUint> = x[..prog.n_field].iter().map(|v| v % m).collect();
    let bits: Vec<bool> = x[prog.n_field..prog.n_field + prog.n_bits].iter().map(|b| !b.is_zero()).collect();
    let bytes: Vec<u8> = x[prog.n_field + prog.n_bits..].iter().map(|b| b.to_u8().unwrap_or(0)).collect();
    let c = |s: &String| unhex(s) % m;
    for s in &prog.steps {
        let v = match s {
            Step::Add(a, b) => (&r[*a] + &r[*b]) % m,
            Step::Sub(a, b) => (&r[*a] + m - &r[*b]) % m,
            Step::Mul(a, b) => (&r[*a] * &r[*b]) % m,
            Step::MulK(a, b, k) => (&r[*a] * &r[*b] * c(k)) % m,
            Step::Div(a, b) => (&r[*a] * inv_mod(&r[*b], m)?) % m,
            Step::Neg(a) => (m - &r[*a]) % m,
            Step::Inv(a) => inv_mod(&r[*a], m)?,
            Step::Inv0(a) => inv_mod(&r[*a], m).unwrap_or_else(BigUint::zero),
            Step::AddC(a, k) => (&r[*a] + c(k)) % m,
            Step::MulC(a, k) => (&r[*a] * c(k)) % m,
            Step::Lin(t, k) => t.iter().fold(c(k), |acc, (ci, i)| (acc + c(ci) * &r[*i]) % m),
            Step::Fixed(k) => c(k),
            Step::Select(b, a, bb) => {
                if bits[*b] {
                    r[*a].clone()
                } else {
                    r[*bb].clone()
                }
            }
            Step::FromBits(lo, hi) => bits[*lo..*hi].iter().rev().fold(BigUint::zero(), |acc, b| (acc << 1) + BigUint::from(*b as u8)) % m,
            Step::FromBytes(lo, hi) => BigUint::from_bytes_le(&bytes[*lo..*hi]) % m,
        };
        r.push(v);
    }
    Some(match &prog.term {
        Term::Expose(a) => Out::Elem(r[*a].clone()),
        Term::IsZero(a) => Out::Bit(r[*a].is_zero()),
        Term::IsEq(a, b) => Out::Bit(r[*a] == r[*b]),
        Term::IsNe(a, b) => Out::Bit(r[*a] != r[*b]),
        Term::IsEqFixed(a, k) => Out::Bit(r[*a] == c(k)),
        Term::ToBits(a, nb, _) => {
            let nb = nb.unwrap_or(md.bits as usize);
            if r[*a].bits() as usize > nb {
                return None;
            }
            Out::Bits((0..nb).map(|i| r[*a].bit(i as u64)).collect())
        }
        Term::ToBytes(a, nb) => {
            let nb = nb.unwrap_or((md.bits as usize).div_ceil(8));
            let mut b = r[*a].to_bytes_le();
            if r[*a].is_zero() {
                b.clear();
            }
            if b.len() > nb {
                return None;
            }
            b.resize(nb, 0);
            Out::Bytes(b)
        }
        Term::ToChunks(a, c, nc) => {
            let total = nc.unwrap_or(md.default_chunks(*c));
            if r[*a].bits() as usize > total * c {
                return None;
            }
            let mask = (BigUint::one() << *c) - BigUint::one();
            Out::Chunks((0..total).map(|i| (&r[*a] >> (i * c)) & &mask).collect(), *c)
        }
        Term::AssertEq(a, b) => (r[*a] == r[*b]).then_some(Out::Unit)?,
        Term::AssertNe(a, b) => (r[*a] != r[*b]).then_some(Out::Unit)?,
        Term::AssertEqFixed(a, k) => (r[*a] == c(k)).then_some(Out::Unit)?,
        Term::AssertNeFixed(a, k) => (r[*a] != c(k)).then_some(Out::Unit)?,
        Term::AssertNonZero(a) => (!r[*a].is_zero()).then_some(Out::Unit)?,
    })
}

/// Marker of the harness-side length check of returned vectors.
pub const LENGTH_CHECK: &str = "harness-length-check";

/// The circuit of a program, generic in the provider of the native bit/byte
/// instructions (ZkStdLib or a from-scratch NativeGadget).
pub fn field_body<Fd, N, L>(prog: &Prog, chip: &Chip<Fd>, nat: &N, l: &mut L, x: Value<Vec<BigUint>>) -> Result<(), Error>
where
    Fd: EmField,
    L: Layouter<F>,
    N: AssignmentInstructions<F, AssignedBit<F>>
        + AssignmentInstructions<F, AssignedByte<F>>
        + PublicInputInstructions<F, AssignedBit<F>>
        + PublicInputInstructions<F, AssignedByte<F>>
        + PublicInputInstructions<F, AssignedNative<F>>,
{
    let nf = prog.n_field;
    let nb = prog.n_bits;
    // all inputs are assigned first (the fault-plan builders rely on it)
    let mut r: Vec<AF<Fd>> = vec![];
    for i in 0..nf {
        let a: AF<Fd> = chip.assign(l, x.clone().map(|x| to_k::<Fd>(&x[i])))?;
        r.push(a);
    }
    let mut bits: Vec<AssignedBit<F>> = vec![];
    for i in 0..nb {
        let b: AssignedBit<F> = nat.assign(l, x.clone().map(|x| !x[nf + i].is_zero()))?;
        bits.push(b);
    }
    let mut bytes: Vec<AssignedByte<F>> = vec![];
    for i in 0..prog.n_bytes {
        let b: AssignedByte<F> = nat.assign(l, x.clone().map(|x| x[nf + nb + i].to_u8().unwrap_or(0)))?;
        bytes.push(b);
    }
    for a in &r {
        chip.constrain_as_public_input(l, a)?;
    }
    for b in &bits {
        nat.constrain_as_public_input(l, b)?;
    }
    for b in &bytes {
        nat.constrain_as_public_input(l, b)?;
    }
    let k = |s: &String| to_k::<Fd>(&unhex(s));
    for s in &prog.steps {
        let v: AF<Fd> = match s {
            Step::Add(a, b) => chip.add(l, &r[*a], &r[*b])?,
            Step::Sub(a, b) => chip.sub(l, &r[*a], &r[*b])?,
            Step::Mul(a, b) => chip.mul(l, &r[*a], &r[*b], None)?,
            Step::MulK(a, b, c) => chip.mul(l, &r[*a], &r[*b], Some(k(c)))?,
            Step::Div(a, b) => chip.div(l, &r[*a], &r[*b])?,
            Step::Neg(a) => chip.neg(l, &r[*a])?,
            Step::Inv(a) => chip.inv(l, &r[*a])?,
            Step::Inv0(a) => chip.inv0(l, &r[*a])?,
            Step::AddC(a, c) => chip.add_constant(l, &r[*a], k(c))?,
            Step::MulC(a, c) => chip.mul_by_constant(l, &r[*a], k(c))?,
            Step::Lin(t, c) => {
                let terms: Vec<(Fd::K, AF<Fd>)> = t.iter().map(|(ci, i)| (k(ci), r[*i].clone())).collect();
                chip.linear_combination(l, &terms, k(c))?
            }
            Step::Fixed(c) => chip.assign_fixed(l, k(c))?,
            Step::Select(b, a, bb) => chip.select(l, &bits[*b], &r[*a], &r[*bb])?,
            Step::FromBits(lo, hi) => chip.assigned_from_le_bits(l, &bits[*lo..*hi])?,
            Step::FromBytes(lo, hi) => chip.assigned_from_le_bytes(l, &bytes[*lo..*hi])?,
        };
        r.push(v);
    }
    match &prog.term {
        Term::Expose(a) => chip.constrain_as_public_input(l, &r[*a]),
        Term::IsZero(a) => {
            let b = chip.is_zero(l, &r[*a])?;
            nat.constrain_as_public_input(l, &b)
        }
        Term::IsEq(a, b) => {
            let b = chip.is_equal(l, &r[*a], &r[*b])?;
            nat.constrain_as_public_input(l, &b)
        }
        Term::IsNe(a, b) => {
            let b = chip.is_not_equal(l, &r[*a], &r[*b])?;
            nat.constrain_as_public_input(l, &b)
        }
        Term::IsEqFixed(a, c) => {
            let b = chip.is_equal_to_fixed(l, &r[*a], k(c))?;
            nat.constrain_as_public_input(l, &b)
        }
        Term::ToBits(a, n, canon) => {
            let bs = chip.assigned_to_le_bits(l, &r[*a], *n, *canon)?;
            bs.iter().try_for_each(|b| nat.constrain_as_public_input(l, b))
        }
        Term::ToBytes(a, n) => {
            let bs = chip.assigned_to_le_bytes(l, &r[*a], *n)?;
            bs.iter().try_for_each(|b| nat.constrain_as_public_input(l, b))
        }
        Term::ToChunks(a, c, nc) => {
            let cs = chip.assigned_to_le_chunks(l, &r[*a], *c, *nc)?;
            // MockProver pads the instance column with zeros, so a result of the wrong
            // length would go unnoticed: checked here (the message is recognised by the
            // checks below and reported as a violation, never as an abort)
            let want = nc.unwrap_or(model::<Fd>().default_chunks(*c));
            if cs.len() != want {
                return Err(Error::Synthesis(format!("{LENGTH_CHECK}: assigned_to_le_chunks(nb_bits_per_chunk={c}, nb_chunks={nc:?}) returned {} chunks instead of {want}", cs.len())));
            }
            cs.iter().try_for_each(|b| nat.constrain_as_public_input(l, b))
        }
        Term::AssertEq(a, b) => chip.assert_equal(l, &r[*a], &r[*b]),
        Term::AssertNe(a, b) => chip.assert_not_equal(l, &r[*a], &r[*b]),
        Term::AssertEqFixed(a, c) => chip.assert_equal_to_fixed(l, &r[*a], k(c)),
        Term::AssertNeFixed(a, c) => chip.assert_not_equal_to_fixed(l, &r[*a], k(c)),
        Term::AssertNonZero(a) => chip.assert_non_zero(l, &r[*a]),
    }
}

/// A program over the emulated field `Fd` as an engine op.
#[derive(Clone, Debug)]
pub struct FOp<Fd: EmField> {
    pub prog: Prog,
    _p: PhantomData<Fd>,
}

impl<Fd: EmField> FOp<Fd> {
    pub fn new(prog: Prog) -> Self {
        FOp { prog, _p: PhantomData }
    }
    pub fn md(&self) -> FModel {
        model::<Fd>()
    }
    fn n_in_scalars(&self) -> usize {
        self.prog.n_field * Fd::NB_LIMBS + self.prog.n_bits + self.prog.n_bytes
    }
    /// Decodes the exposed inputs (field inputs to residues).
    fn dec_inputs(&self, public: &[F]) -> Option<Vec<BigUint>> {
        let md = self.md();
        let n = Fd::NB_LIMBS;
        if public.len() < self.n_in_scalars() {
            return None;
        }
        let mut x = vec![];
        for i in 0..self.prog.n_field {
            x.push(md.decode(&public[i * n..(i + 1) * n])?);
        }
        let mut pos = self.prog.n_field * n;
        for _ in 0..self.prog.n_bits {
            let b = f_to_big(&public[pos]);
            if b > BigUint::one() {
                return None;
            }
            x.push(b);
            pos += 1;
        }
        for _ in 0..self.prog.n_bytes {
            let b = f_to_big(&public[pos]);
            if b.bits() > 8 {
                return None;
            }
            x.push(b);
            pos += 1;
        }
        Some(x)
    }
    fn reference_impl(&self, x: &[BigUint]) -> Option<Vec<F>> {
        let md = self.md();
        let out = interpret(&md, &self.prog, x)?;
        let mut v = vec![];
        for xi in &x[..self.prog.n_field] {
            v.extend(md.encode(xi));
        }
        for b in &x[self.prog.n_field..self.prog.n_field + self.prog.n_bits] {
            v.push(F::from(!b.is_zero() as u64));
        }
        for b in &x[self.prog.n_field + self.prog.n_bits..] {
            v.push(big_to_f(b));
        }
        match out {
            Out::Elem(r) => v.extend(md.encode(&r)),
            Out::Bit(b) => v.push(F::from(b as u64)),
            Out::Bits(bs) => v.extend(bs.iter().map(|b| F::from(*b as u64))),
            Out::Bytes(bs) => v.extend(bs.iter().map(|b| F::from(*b as u64))),
            Out::Chunks(cs, _) => v.extend(cs.iter().map(big_to_f)),
            Out::Unit => {}
        }
        Some(v)
    }
    fn judge_impl(&self, public: &[F]) -> bool {
        let md = self.md();
        let Some(x) = self.dec_inputs(public) else { return false };
        let Some(out) = interpret(&md, &self.prog, &x) else { return false };
        let rest = &public[self.n_in_scalars()..];
        match out {
            Out::Elem(r) => md.decode(rest) == Some(r),
            Out::Bit(b) => rest.len() == 1 && rest[0] == F::from(b as u64),
            Out::Bits(bs) => {
                if let Term::ToBits(a, _, false) = &self.prog.term {
                    // non-canonical decomposition allowed: any bit vector of the right
                    // length whose value is congruent to the residue
                    let _ = a;
                    if rest.len() != bs.len() || rest.iter().any(|b| f_to_big(b) > BigUint::one()) {
                        return false;
                    }
                    let v = rest.iter().rev().fold(BigUint::zero(), |acc, b| (acc << 1) + f_to_big(b));
                    let want = bs.iter().rev().fold(BigUint::zero(), |acc, b| (acc << 1) + BigUint::from(*b as u8));
                    v % &md.m == want
                } else {
                    rest.len() == bs.len() && rest.iter().zip(bs.iter()).all(|(p, b)| *p == F::from(*b as u64))
                }
            }
            Out::Bytes(bs) => rest.len() == bs.len() && rest.iter().zip(bs.iter()).all(|(p, b)| *p == F::from(*b as u64)),
            Out::Chunks(cs, c) => {
                // documented: not necessarily canonical, but x = sum_i 2^(i c) chunk_i in K
                if rest.len() != cs.len() || rest.iter().any(|p| f_to_big(p).bits() as usize > c) {
                    return false;
                }
                let v = rest.iter().rev().fold(BigUint::zero(), |acc, p| (acc << c) + f_to_big(p));
                let want = cs.iter().rev().fold(BigUint::zero(), |acc, p| (acc << c) + p);
                v % &md.m == want
            }
            Out::Unit => rest.is_empty(),
        }
    }
}

impl<Fd: EmField> Op for FOp<Fd> {
    fn name(&self) -> String {
        format!("{}:{}", Fd::NAME, self.prog.short())
    }
    fn arch(&self) -> ZkStdLibArch {
        Fd::arch()
    }
    fn circuit<L: Layouter<F>>(&self, std: &ZkStdLib, l: &mut L, x: Value<Vec<BigUint>>) -> Result<(), Error> {
        field_body::<Fd, ZkStdLib, L>(&self.prog, Fd::std_chip(std), std, l, x)
    }
    fn reference(&self, x: &[BigUint]) -> Option<Vec<F>> {
        self.reference_impl(x)
    }
    fn n_input_scalars(&self) -> usize {
        self.n_in_scalars()
    }
    fn decode_inputs(&self, public: &[F]) -> Option<Vec<BigUint>> {
        self.dec_inputs(public)
    }
    fn judge(&self, public: &[F]) -> bool {
        self.judge_impl(public)
    }
}

// ---------------------------------------------------------------------------
// From-scratch circuit for fields ZkStdLib does not expose

#[derive(Clone, Debug)]
pub struct FsConfig {
    ng: P2RDecompositionConfig,
    fc: FieldChipConfig,
}

pub struct FsCircuit<Fd: EmField> {
    prog: Prog,
    x: Value<Vec<BigUint>>,
    _p: PhantomData<Fd>,
}

impl<Fd: EmField> Circuit<F> for FsCircuit<Fd> {
    type Config = FsConfig;
    type FloorPlanner = SimpleFloorPlanner;
    type Params = ();

    fn without_witnesses(&self) -> Self {
        unreachable!()
    }

    fn configure(meta: &mut ConstraintSystem<F>) -> Self::Config {
        let committed = meta.instance_column();
        let instance = meta.instance_column();
        let constants = meta.fixed_column();
        meta.enable_constant(constants);
        let ng = <NG as FromScratch<F>>::configure_from_scratch(meta, &[committed, instance]);
        let cols: Vec<_> = (0..nb_field_chip_columns::<F, Fd::K, Fd::P>()).map(|_| meta.advice_column()).collect();
        let fc = FieldChip::<F, Fd::K, Fd::P, NG>::configure(meta, &cols);
        FsConfig { ng, fc }
    }

    fn synthesize(&self, config: Self::Config, mut layouter: impl Layouter<F>) -> Result<(), Error> {
        let ng = <NG as FromScratch<F>>::new_from_scratch(&config.ng);
        let chip = FieldChip::<F, Fd::K, Fd::P, NG>::new(&config.fc, &ng);
        field_body::<Fd, NG, _>(&self.prog, &chip, &ng, &mut layouter, self.x.clone())?;
        ng.load_from_scratch(&mut layouter)
    }
}

// ---------------------------------------------------------------------------
// Runner returning the values of the logged assignments

pub struct RunX {
    pub outcome: Outcome,
    pub log: Vec<AssignRecord>,
    /// value found in the table at the cell of each log record (after faults)
    pub values: Vec<Option<F>>,
    pub public: Vec<F>,
    /// (read-back runs) for each instance row, the earliest logged assignment
    /// in its copy-constraint class: the cell the exposed value originates from
    pub pi_origin: Vec<Option<usize>>,
}

pub enum XInst {
    Given(Vec<F>),
    ReadBack(usize),
}

/// Same procedure as `e2::run_inner`, for any circuit whose plain instance
/// column is instance column 1, and returning the assigned values.
pub fn run_circuit<C: Circuit<F>>(k: u32, circuit: &C, inst: XInst, plan: HashMap<usize, Fault<F>>) -> RunX {
    let (given, n_pi, readback) = match inst {
        XInst::Given(v) => {
            let n = v.len();
            (v, n, false)
        }
        XInst::ReadBack(n) => (vec![F::from(0); n], n, true),
    };
    verif_hooks::begin::<F>(plan);
    let res = vpcore::catch(|| MockProver::run(k, circuit, vec![vec![], given.clone()]));
    let report = verif_hooks::end();
    let mut prover = match res {
        Err(p) => return RunX { outcome: Outcome::Panic(p), log: report.log, values: vec![], public: given, pi_origin: vec![] },
        Ok(Err(e)) => return RunX { outcome: Outcome::SynthErr(format!("{e:?}")), log: report.log, values: vec![], public: given, pi_origin: vec![] },
        Ok(Ok(p)) => p,
    };
    let values: Vec<Option<F>> = report
        .log
        .iter()
        .map(|r| match r.abs_row.and_then(|row| prover.advice().get(r.column).and_then(|c| c.get(row))) {
            Some(CellValue::Assigned(v)) => Some(*v),
            _ => None,
        })
        .collect();
    let mut public = given;
    let mut pi_origin: Vec<Option<usize>> = vec![];
    if readback {
        let mut cell_log: HashMap<(usize, usize), usize> = HashMap::new();
        for r in report.log.iter() {
            if let Some(row) = r.abs_row {
                cell_log.entry((r.column, row)).or_insert(r.index);
            }
        }
        pi_origin = vec![None; n_pi];
        let perm = prover.permutation();
        let cols = perm.columns().to_vec();
        let mapping: Vec<Vec<(usize, usize)>> = perm.mapping().map(|c| c.collect::<Vec<_>>()).collect();
        let ci = cols.iter().position(|c| *c.column_type() == Any::Instance && c.index() == 1);
        if let Some(ci) = ci {
            for (r, slot) in public.iter_mut().enumerate().take(n_pi) {
                let start = (ci, r);
                let mut cur = mapping[start.0][start.1];
                let mut steps = 0;
                let mut found = false;
                while cur != start && steps < 1 << 20 {
                    let col = cols[cur.0];
                    let v = match col.column_type() {
                        Any::Advice(_) => {
                            if let Some(i) = cell_log.get(&(col.index(), cur.1)) {
                                pi_origin[r] = Some(pi_origin[r].map_or(*i, |o: usize| o.min(*i)));
                            }
                            Some(prover.advice()[col.index()][cur.1])
                        }
                        Any::Fixed => Some(prover.fixed()[col.index()][cur.1]),
                        Any::Instance => None,
                    };
                    if let Some(CellValue::Assigned(v)) = v {
                        if !found {
                            *slot = v;
                            found = true;
                        }
                    }
                    cur = mapping[cur.0][cur.1];
                    steps += 1;
                }
            }
        }
        let inst_col = &mut prover.instance_mut()[1];
        for (r, v) in public.iter().enumerate() {
            if r < inst_col.len() {
                inst_col[r] = InstanceValue::Assigned(*v);
            }
        }
    }
    let verdict = vpcore::catch(|| prover.verify());
    let outcome = match verdict {
        Err(p) => Outcome::Panic(format!("verify: {p}")),
        Ok(Ok(())) => Outcome::Accept,
        Ok(Err(e)) => Outcome::Reject(format!("{} failures; first: {}", e.len(), e.first().map(|f| format!("{f:?}").chars().take(300).collect::<String>()).unwrap_or_default())),
    };
    RunX { outcome, log: report.log, values, public, pi_origin }
}

/// An op that can be run by `run_circuit` (both ZkStdLib relations and
/// from-scratch circuits).
pub trait XOp: Clone + Send + Sync + 'static {
    fn xname(&self) -> String;
    fn xrun(&self, x: &[BigUint], inst: XInst, plan: HashMap<usize, Fault<F>>) -> RunX;
    fn xreference(&self, x: &[BigUint]) -> Option<Vec<F>>;
    fn xjudge(&self, public: &[F]) -> bool;
    fn x_n_input_scalars(&self) -> usize;
    /// Number of public scalars of a run with inputs x even when x is outside
    /// the domain (used by must-reject checks).
    fn x_n_public(&self, x: &[BigUint]) -> usize;
}

fn fs_k<Fd: EmField>(prog: &Prog, x: &[BigUint]) -> Result<u32, String> {
    static CACHE: OnceLock<Mutex<HashMap<String, u32>>> = OnceLock::new();
    let m = CACHE.get_or_init(|| Mutex::new(HashMap::new()));
    let key = format!("{}:{}", Fd::NAME, prog.short());
    if let Some(k) = m.lock().unwrap().get(&key) {
        return Ok(*k);
    }
    let c = FsCircuit::<Fd> { prog: prog.clone(), x: Value::known(x.to_vec()), _p: PhantomData };
    let k = vpcore::catch(|| k_from_circuit(&c))?;
    m.lock().unwrap().insert(key, k);
    Ok(k)
}

/// Runs an `e2::Op` through `run_circuit`.
pub fn run_std_op<O: Op>(op: &O, x: &[BigUint], inst: XInst, plan: HashMap<usize, Fault<F>>) -> RunX {
    let k = match e2::op_k(op, x) {
        Ok(k) => k,
        Err(e) => return RunX { outcome: Outcome::Panic(format!("min_k: {e}")), log: vec![], values: vec![], public: vec![], pi_origin: vec![] },
    };
    let rel = OpRel { op: op.clone() };
    let c = MidnightCircuit::new(&rel, Value::known(vec![]), Value::known(x.to_vec()), Some(op.max_bit_len()));
    run_circuit(k, &c, inst, plan)
}

impl<Fd: EmField> XOp for FOp<Fd> {
    fn xname(&self) -> String {
        self.name()
    }
    fn xrun(&self, x: &[BigUint], inst: XInst, plan: HashMap<usize, Fault<F>>) -> RunX {
        if Fd::VIA_STD {
            run_std_op(self, x, inst, plan)
        } else {
            let k = match fs_k::<Fd>(&self.prog, x) {
                Ok(k) => k,
                Err(e) => return RunX { outcome: Outcome::Panic(format!("min_k: {e}")), log: vec![], values: vec![], public: vec![], pi_origin: vec![] },
            };
            let c = FsCircuit::<Fd> { prog: self.prog.clone(), x: Value::known(x.to_vec()), _p: PhantomData };
            run_circuit(k, &c, inst, plan)
        }
    }
    fn xreference(&self, x: &[BigUint]) -> Option<Vec<F>> {
        self.reference_impl(x)
    }
    fn xjudge(&self, public: &[F]) -> bool {
        self.judge_impl(public)
    }
    fn x_n_input_scalars(&self) -> usize {
        self.n_in_scalars()
    }
    fn x_n_public(&self, _x: &[BigUint]) -> usize {
        let md = self.md();
        self.n_in_scalars()
            + match &self.prog.term {
                Term::Expose(_) => md.n,
                Term::IsZero(_) | Term::IsEq(..) | Term::IsNe(..) | Term::IsEqFixed(..) => 1,
                Term::ToBits(_, n, _) => n.unwrap_or(md.bits as usize),
                Term::ToBytes(_, n) => n.unwrap_or((md.bits as usize).div_ceil(8)),
                Term::ToChunks(_, c, n) => n.unwrap_or(md.default_chunks(*c)),
                _ => 0,
            }
    }
}

// ---------------------------------------------------------------------------
// Generic checks over an XOp (same oracles as e2::check_*; used for
// from-scratch fields and for the extended fault plans)

pub fn xcheck_complete_and_s1<O: XOp>(op: &O, x: &[BigUint], seed: u64) -> CaseResult {
    let name = op.xname();
    let Some(inst) = op.xreference(x) else {
        return Ok(Verdict::trivial("out-of-domain-input-skipped"));
    };
    let run = op.xrun(x, XInst::Given(inst.clone()), HashMap::new());
    if !run.outcome.accepted() {
        return Err(Failure::new(
            format!("{name}:incomplete:{}", run.outcome.label()),
            format!("honest witness for x={x:?} with the reference instance {inst:?} is not accepted: {:?}", run.outcome),
        ));
    }
    if !op.xjudge(&inst) {
        return Err(Failure::new(format!("harness:{name}:judge-rejects-reference"), format!("x={x:?} inst={inst:?}")));
    }
    let mut rng = SplitMix(seed);
    let n_in = op.x_n_input_scalars();
    for pos in 0..inst.len() {
        let variants: Vec<F> = vec![inst[pos] + F::from(1), inst[pos] - F::from(1), F::from(0), F::from(1) - inst[pos], F::from(rng.next_u64())];
        let v = variants[rng.below(variants.len() as u64) as usize];
        if v == inst[pos] {
            continue;
        }
        let mut wrong = inst.clone();
        wrong[pos] = v;
        if op.xjudge(&wrong) {
            continue;
        }
        let r = op.xrun(x, XInst::Given(wrong.clone()), HashMap::new());
        if r.outcome.accepted() {
            return Err(Failure::new(
                format!("{name}:unsound:S1:{}", if pos < n_in { "input-position" } else { "output-position" }),
                format!("honest witness for x={x:?} accepted with wrong instance (position {pos}: {:?} instead of {:?})", wrong[pos], inst[pos]),
            ));
        }
    }
    Ok(Verdict::nontrivial("complete+S1").with(name))
}

/// Completeness for ops whose honest output is not unique (non-canonical
/// decompositions): the library's own witness, read back, must be accepted
/// and judged correct.
pub fn xcheck_complete_readback<O: XOp>(op: &O, x: &[BigUint]) -> CaseResult {
    let name = op.xname();
    let Some(inst) = op.xreference(x) else {
        return Ok(Verdict::trivial("out-of-domain-input-skipped"));
    };
    let r = op.xrun(x, XInst::ReadBack(inst.len()), HashMap::new());
    if !r.outcome.accepted() {
        return Err(Failure::new(format!("{name}:incomplete:{}", r.outcome.label()), format!("honest witness for x={x:?} is not accepted: {:?}", r.outcome)));
    }
    if !op.xjudge(&r.public) {
        return Err(Failure::new(format!("{name}:wrong-honest-output"), format!("honest witness for x={x:?} exposes {:?}, which the reference judges wrong (reference instance {inst:?})", r.public)));
    }
    Ok(Verdict::nontrivial("complete-readback").with(name))
}

#[derive(Clone, Debug, Default)]
pub struct XStats {
    pub runs: usize,
    pub accepted_correct: usize,
    pub rejected: usize,
    pub aborted: usize,
    pub no_effect: usize,
}

impl XStats {
    pub fn label(&self) -> String {
        format!("rej{} ok{} abort{} noeff{}", self.rejected.min(1), self.accepted_correct.min(1), self.aborted.min(1), self.no_effect.min(1))
    }
    pub fn add(&mut self, o: &XStats) {
        self.runs += o.runs;
        self.accepted_correct += o.accepted_correct;
        self.rejected += o.rejected;
        self.aborted += o.aborted;
        self.no_effect += o.no_effect;
    }
}

/// Honest run with read-back; checked against the reference.
pub fn honest_readback<O: XOp>(op: &O, x: &[BigUint], inst: &[F]) -> Result<RunX, Failure> {
    let honest = op.xrun(x, XInst::ReadBack(inst.len()), HashMap::new());
    if !honest.outcome.accepted() || honest.public != inst {
        return Err(Failure::new(
            format!("{}:readback-mismatch", op.xname()),
            format!("honest run with read-back: outcome {:?}, public {:?} vs reference {:?}", honest.outcome, honest.public, inst),
        ));
    }
    Ok(honest)
}

/// Runs the given plans; common oracle (accepted and judged wrong ⇒ violation).
pub fn run_plans<O: XOp>(op: &O, x: &[BigUint], inst: &[F], plans: Vec<(String, HashMap<usize, Fault<F>>)>, stats: &mut XStats) -> Result<(), Failure> {
    let name = op.xname();
    for (kind, plan) in plans {
        let r = op.xrun(x, XInst::ReadBack(inst.len()), plan.clone());
        stats.runs += 1;
        match &r.outcome {
            Outcome::Accept => {
                if r.public == inst && !r.log.iter().any(|l| l.faulted) {
                    stats.no_effect += 1;
                } else if op.xjudge(&r.public) {
                    stats.accepted_correct += 1;
                } else {
                    let mut pl: Vec<_> = plan.iter().map(|(k, v)| format!("{k}:{v:?}")).collect();
                    pl.sort();
                    let sites: Vec<String> = r.log.iter().filter(|l| l.faulted).map(|l| format!("assign#{} col={} row={:?}", l.index, l.column, l.abs_row)).collect();
                    return Err(Failure::new(
                        format!("{name}:unsound:S2:{kind}"),
                        format!(
                            "MockProver accepts a faulted assignment whose public values contradict the reference: inputs x={x:?}; fault plan {pl:?} at {sites:?}; exposed {:?}; honest instance {inst:?}",
                            r.public
                        ),
                    ));
                }
            }
            Outcome::Reject(_) => stats.rejected += 1,
            Outcome::SynthErr(_) | Outcome::Panic(_) => stats.aborted += 1,
        }
    }
    Ok(())
}

/// Generic single-fault S2 (same as `e2::check_s2`) for any XOp, with the
/// extra fault values the property names (±B, ±2^(top limb bits), ±m mod p).
pub fn xfault_values(rng: &mut SplitMix, lb: u32, m: &BigUint) -> Fault<F> {
    match rng.below(16) {
        0 => Fault::Add(F::from(1)),
        1 => Fault::Add(-F::from(1)),
        2 => Fault::Set(F::from(0)),
        3 => Fault::OneMinus,
        4 => Fault::Add(F::from(2)),
        5 => Fault::Add(F::from(1u64 << 8)),
        6 => Fault::Add(F::from(1u64 << 16)),
        7 => Fault::Add(big_to_f(&(BigUint::one() << lb))),
        8 => Fault::Add(-big_to_f(&(BigUint::one() << lb))),
        9 => Fault::Set(big_to_f(&(BigUint::one() << lb))),
        10 => Fault::Set(big_to_f(&((BigUint::one() << lb) - BigUint::one()))),
        11 => Fault::Add(big_to_f(&(m % (BigUint::one() << lb)))),
        12 => Fault::Add(-big_to_f(&(m % (BigUint::one() << lb)))),
        13 => Fault::Set(F::from(1)),
        14 => Fault::Add(big_to_f(&(BigUint::one() << (lb / 2)))),
        _ => Fault::Set(F::from(rng.next_u64()) * F::from(rng.next_u64())),
    }
}

pub fn xcheck_s2<O: XOp>(op: &O, x: &[BigUint], seed: u64, n_faults: usize, exhaustive: bool, lb: u32, m: &BigUint) -> Result<(XStats, Verdict), Failure> {
    let name = op.xname();
    let mut stats = XStats::default();
    let Some(inst) = op.xreference(x) else {
        return Ok((stats, Verdict::trivial("out-of-domain-input-skipped")));
    };
    let honest = honest_readback(op, x, &inst)?;
    let n = honest.log.len();
    if n == 0 {
        return Ok((stats, Verdict::trivial("no-native-assignments")));
    }
    let mut rng = SplitMix(seed);
    let mut plans = vec![];
    if exhaustive {
        for i in 0..n {
            for _ in 0..n_faults.max(1) {
                plans.push(("single".to_string(), HashMap::from([(i, xfault_values(&mut rng, lb, m))])));
            }
        }
    } else {
        for _ in 0..n_faults {
            let i = rng.below(n as u64) as usize;
            plans.push(("single".to_string(), HashMap::from([(i, xfault_values(&mut rng, lb, m))])));
        }
    }
    run_plans(op, x, &inst, plans, &mut stats)?;
    let nt = stats.rejected + stats.accepted_correct > 0;
    Ok((stats.clone(), Verdict::of(nt, "S2x").with(name)))
}

/// S2 for ops whose honest output is not unique (non-canonical
/// decompositions): the baseline is the library's own (read-back) output, which
/// must be accepted and judged correct; sampled single faults as in `xcheck_s2`.
pub fn xcheck_s2_readback<O: XOp>(op: &O, x: &[BigUint], seed: u64, n_faults: usize, lb: u32, m: &BigUint) -> Result<(XStats, Verdict), Failure> {
    let name = op.xname();
    let mut stats = XStats::default();
    if op.xreference(x).is_none() {
        return Ok((stats, Verdict::trivial("out-of-domain-input-skipped")));
    }
    let honest = op.xrun(x, XInst::ReadBack(op.x_n_public(x)), HashMap::new());
    if !honest.outcome.accepted() {
        return Err(Failure::new(format!("{name}:incomplete:{}", honest.outcome.label()), format!("honest witness for x={x:?} is not accepted: {:?}", honest.outcome)));
    }
    if !op.xjudge(&honest.public) {
        return Err(Failure::new(format!("{name}:wrong-honest-output"), format!("honest witness for x={x:?} exposes {:?}", honest.public)));
    }
    let n = honest.log.len();
    let mut rng = SplitMix(seed);
    let mut plans = vec![];
    for _ in 0..n_faults {
        if n > 0 {
            let i = rng.below(n as u64) as usize;
            plans.push(("single".to_string(), HashMap::from([(i, xfault_values(&mut rng, lb, m))])));
        }
    }
    run_plans(op, x, &honest.public, plans, &mut stats)?;
    let nt = stats.rejected + stats.accepted_correct > 0;
    Ok((stats.clone(), Verdict::of(nt, "S2-readback").with(name)))
}

/// Inputs outside the documented domain (violated assertion, division by
/// zero, value not fitting the requested width): no run may be accepted —
/// honest witness generation with read-back, and sampled single faults.
pub fn xcheck_must_reject<O: XOp>(op: &O, x: &[BigUint], seed: u64, n_faults: usize, lb: u32, m: &BigUint) -> CaseResult {
    let name = op.xname();
    if op.xreference(x).is_some() {
        return Ok(Verdict::trivial("in-domain-input-skipped"));
    }
    let n_pub = op.x_n_public(x);
    let r = op.xrun(x, XInst::ReadBack(n_pub), HashMap::new());
    if r.outcome.accepted() && !op.xjudge(&r.public) {
        return Err(Failure::new(
            format!("{name}:accepts-out-of-domain"),
            format!("inputs x={x:?} are outside the documented domain, yet the library's own witness is accepted; exposed {:?}", r.public),
        ));
    }
    if let Outcome::SynthErr(e) | Outcome::Panic(e) = &r.outcome {
        if e.contains(LENGTH_CHECK) {
            return Err(Failure::new(format!("{name}:wrong-output-length"), format!("inputs x={x:?} (outside the domain: must be unsatisfiable): {e}")));
        }
    }
    let first = r.outcome.label();
    let n = r.log.len();
    let mut rng = SplitMix(seed);
    let mut rejected = 0;
    if n > 0 {
        for _ in 0..n_faults {
            let i = rng.below(n as u64) as usize;
            let plan = HashMap::from([(i, xfault_values(&mut rng, lb, m))]);
            let r = op.xrun(x, XInst::ReadBack(n_pub), plan.clone());
            if r.outcome.accepted() && !op.xjudge(&r.public) {
                return Err(Failure::new(
                    format!("{name}:unsound:S2:out-of-domain"),
                    format!("inputs x={x:?} (outside the domain): faulted run {plan:?} accepted; exposed {:?}", r.public),
                ));
            }
            if matches!(r.outcome, Outcome::Reject(_)) {
                rejected += 1;
            }
        }
    }
    // non-trivial when the verdict came from the constraint system
    Ok(Verdict::of(first == "reject" || rejected > 0, format!("must-reject:{first}")).with(name))
}

// ---------------------------------------------------------------------------
// Structured fault plans on the foreign-field regions

/// A normalisation or multiplication region found in the assignment log.
#[derive(Clone, Debug)]
pub struct FRegion {
    pub is_mul: bool,
    /// log indices of the output limbs z (norm: assigned here; mul: copies)
    pub z: Vec<usize>,
    pub u: usize,
    pub vs: Vec<usize>,
}

/// Finds the "Foreign norm" / "Foreign multiplication" regions of the chip of
/// `Fd` in a log, from the (column, offset) pattern of their assignments:
/// norm: n copies (offset 0, columns c..c+n), n outputs (offset 0, columns
/// c+n..c+2n), u (offset 1, column c+n), v_j (offset 1, columns c+n+1..);
/// mul: n copies x, n copies z, n copies y (offset 1, columns c..c+n), u, v_j.
pub fn find_regions<Fd: EmField>(log: &[AssignRecord]) -> Vec<FRegion> {
    let n = Fd::NB_LIMBS;
    let nv = <Fd::P as FieldEmulationParams<F, Fd::K>>::moduli().len();
    let mut out = vec![];
    let mut i = 0;
    while i + 2 * n < log.len() {
        let c0 = log[i].column;
        let row_ok = |start: usize, col0: usize, off: usize, len: usize| -> bool {
            start + len <= log.len() && (0..len).all(|j| log[start + j].column == col0 + j && log[start + j].offset == off)
        };
        if log[i].offset == 0 && row_ok(i, c0, 0, n) && row_ok(i + n, c0 + n, 0, n) {
            // norm?
            let p = i + 2 * n;
            // number of v cells actually used may be lower than the number of moduli
            let mut matched = false;
            for nvv in (0..=nv).rev() {
                if row_ok(p, c0 + n, 1, 1 + nvv) {
                    // make sure it is not followed by more offset-1 cells of the same region
                    out.push(FRegion { is_mul: false, z: (i + n..i + 2 * n).collect(), u: p, vs: (p + 1..p + 1 + nvv).collect() });
                    i = p + 1 + nvv;
                    matched = true;
                    break;
                }
            }
            if matched {
                continue;
            }
            if row_ok(p, c0, 1, n) {
                let q = p + n;
                for nvv in (0..=nv).rev() {
                    if row_ok(q, c0 + n, 1, 1 + nvv) {
                        out.push(FRegion { is_mul: true, z: (i + n..i + 2 * n).collect(), u: q, vs: (q + 1..q + 1 + nvv).collect() });
                        i = q + 1 + nvv;
                        matched = true;
                        break;
                    }
                }
                if matched {
                    continue;
                }
            }
        }
        i += 1;
    }
    out
}

fn bi(x: &BigUint) -> BigInt {
    BigInt::from(x.clone())
}

fn bigint_to_f(x: &BigInt) -> F {
    let p = bi(&e2::modulus());
    let r = ((x % &p) + &p) % &p;
    big_to_f(&r.to_biguint().unwrap())
}

/// "+t*m distributed over the limbs" of the output of a normalisation region:
/// the output limbs are replaced by the limbs of `z + t*m` (another
/// representation of the same residue when it is below 2^bits(m)), and the
/// quotient `u` and the carries `v_j` of the region are re-solved so that all
/// identities of the gate keep holding; the range checks of the new limbs are
/// recomputed by the library from the faulted cells.
pub fn plan_norm_plus_m<Fd: EmField>(reg: &FRegion, values: &[Option<F>], t: i64) -> Option<HashMap<usize, Fault<F>>> {
    if reg.is_mul {
        return None;
    }
    let md = model::<Fd>();
    let m = bi(&md.m);
    let zl: Vec<F> = reg.z.iter().map(|i| values.get(*i).copied().flatten()).collect::<Option<Vec<_>>>()?;
    let z = md.limb_int(&zl)?;
    let w = bi(&z) + BigInt::from(t) * &m;
    if w < BigInt::zero() || w.bits() > (md.n as u64) * md.lb as u64 {
        return None;
    }
    let wl = md.split(w.to_biguint().unwrap());
    let zl = md.split(z);
    let d: Vec<BigInt> = wl.iter().zip(zl.iter()).map(|(a, b)| bi(a) - bi(b)).collect();
    let bp: Vec<BigInt> = (0..md.n).map(|i| bi(&((BigUint::one() << (md.lb as usize * i)) % &md.m))).collect();
    // expr = sum_shifted_x - sum_z - shifts = (u + k_min) m ; z -> z + d
    let s: BigInt = bp.iter().zip(d.iter()).map(|(b, d)| b * d).sum();
    let (tq, rem) = s.div_rem(&m);
    if !rem.is_zero() {
        return None;
    }
    let mut plan = HashMap::new();
    for (i, di) in reg.z.iter().zip(d.iter()) {
        if !di.is_zero() {
            plan.insert(*i, Fault::Add(bigint_to_f(di)));
        }
    }
    plan.insert(reg.u, Fault::Add(bigint_to_f(&(-&tq))));
    let moduli = <Fd::P as FieldEmulationParams<F, Fd::K>>::moduli();
    for (vi, mj) in reg.vs.iter().zip(moduli.iter()) {
        // -sum (bp_i % mj) d_i + tq (m % mj) = dv * mj
        let lhs: BigInt = -bp.iter().zip(d.iter()).map(|(b, d)| (b % mj) * d).sum::<BigInt>() + &tq * (&m % mj);
        let (dv, rem) = lhs.div_rem(mj);
        if !rem.is_zero() {
            return None;
        }
        plan.insert(*vi, Fault::Add(bigint_to_f(&dv)));
    }
    Some(plan)
}

/// Structured plans over the foreign regions of a run: wrong quotient (u±1,
/// u±2^k), wrong carries (v_j±1), ±B / ±1 on output limbs with and without a
/// compensating change of the neighbouring limb (a carry moved between
/// limbs), and the consistent "+m" / "-m" re-representation of norm outputs.
pub fn structured_plans<Fd: EmField>(honest: &RunX, rng: &mut SplitMix, max_plans: usize) -> Vec<(String, HashMap<usize, Fault<F>>)> {
    let md = model::<Fd>();
    let regs = find_regions::<Fd>(&honest.log);
    let b = big_to_f(&md.base());
    let mut all: Vec<(String, HashMap<usize, Fault<F>>)> = vec![];
    for reg in &regs {
        let kind = if reg.is_mul { "mul" } else { "norm" };
        for t in [1i64, -1, 2] {
            if let Some(p) = plan_norm_plus_m::<Fd>(reg, &honest.values, t) {
                all.push((format!("norm:z{:+}m-consistent", t), p));
            }
        }
        all.push((format!("{kind}:u+1"), HashMap::from([(reg.u, Fault::Add(F::from(1)))])));
        all.push((format!("{kind}:u-1"), HashMap::from([(reg.u, Fault::Add(-F::from(1)))])));
        all.push((format!("{kind}:u+2^k"), HashMap::from([(reg.u, Fault::Add(big_to_f(&(BigUint::one() << (rng.below(130) as usize)))))])));
        for v in &reg.vs {
            all.push((format!("{kind}:v+1"), HashMap::from([(*v, Fault::Add(F::from(1)))])));
            all.push((format!("{kind}:v-1"), HashMap::from([(*v, Fault::Add(-F::from(1)))])));
        }
        if !reg.is_mul {
            // carry moved between neighbouring output limbs: z_i += B, z_{i+1} -= 1
            // (same integer, limb out of range) and the reverse
            for i in 0..reg.z.len() - 1 {
                all.push(("norm:z-carry-shift".into(), HashMap::from([(reg.z[i], Fault::Add(b)), (reg.z[i + 1], Fault::Add(-F::from(1)))])));
                all.push(("norm:z-carry-unshift".into(), HashMap::from([(reg.z[i], Fault::Add(-b)), (reg.z[i + 1], Fault::Add(F::from(1)))])));
            }
            for i in 0..reg.z.len() {
                all.push(("norm:z+B".into(), HashMap::from([(reg.z[i], Fault::Add(b))])));
                all.push(("norm:z-B".into(), HashMap::from([(reg.z[i], Fault::Add(-b))])));
                all.push(("norm:z+1".into(), HashMap::from([(reg.z[i], Fault::Add(F::from(1)))])));
            }
            // z + m on the limbs only (quotient not adapted)
            if let Some(p) = plan_norm_plus_m::<Fd>(reg, &honest.values, 1) {
                let only_z: HashMap<usize, Fault<F>> = p.into_iter().filter(|(k, _)| reg.z.contains(k)).collect();
                all.push(("norm:z+m-limbs-only".into(), only_z));
            }
        }
    }
    // keep the consistent plans, sample the rest
    let (keep, mut rest): (Vec<_>, Vec<_>) = all.into_iter().partition(|(k, _)| k.ends_with("consistent"));
    let mut out = keep;
    while out.len() < max_plans && !rest.is_empty() {
        let i = rng.below(rest.len() as u64) as usize;
        out.push(rest.swap_remove(i));
    }
    out
}

/// Plans on the cells an *exposed element* originates from (the inputs, and the
/// result of an `Expose` terminal): "+m distributed over the limbs" applied to
/// the limb cells only, ±B on one limb, a carry moved between neighbouring
/// limbs (same integer, limb out of range). The range checks of these cells
/// were computed by the library from the honest values, so all of these must
/// be rejected (they are accepted only if a limb range check is missing).
/// `elems` lists the offsets (in the instance vector) of the exposed elements.
pub fn exposed_limb_plans<Fd: EmField>(honest: &RunX, elems: &[usize], n_in: usize, rng: &mut SplitMix) -> Vec<(String, HashMap<usize, Fault<F>>)> {
    let md = model::<Fd>();
    let mut plans = vec![];
    for &off in elems {
        if off + md.n > honest.public.len() || off + md.n > honest.pi_origin.len() {
            continue;
        }
        let Some(idx) = honest.pi_origin[off..off + md.n].iter().copied().collect::<Option<Vec<usize>>>() else { continue };
        let mut d = idx.clone();
        d.sort();
        d.dedup();
        if d.len() != md.n {
            continue;
        }
        let what = if Some(&off) == elems.last() && elems.len() > 1 && off % md.n != 0 || off >= n_in { "result" } else { "input" };
        if let Some(z) = md.limb_int(&honest.public[off..off + md.n]) {
            let w = &z + &md.m;
            if w.bits() <= md.n as u64 * md.lb as u64 {
                let wl = md.split(w);
                let zl = md.split(z);
                let mut plan = HashMap::new();
                for i in 0..md.n {
                    let d = bi(&wl[i]) - bi(&zl[i]);
                    if !d.is_zero() {
                        plan.insert(idx[i], Fault::Add(bigint_to_f(&d)));
                    }
                }
                plans.push((format!("{what}:+m-limb-cells"), plan));
            }
        }
        let i = rng.below(md.n as u64) as usize;
        plans.push((format!("{what}:limb+B"), HashMap::from([(idx[i], Fault::Add(big_to_f(&md.base())))])));
        plans.push((format!("{what}:limb-B"), HashMap::from([(idx[i], Fault::Add(-big_to_f(&md.base())))])));
        if md.n > 1 {
            // between limbs 0 and 1 the shift leaves every identity of the mul / norm
            // gates exactly unchanged (B^1 is not reduced by any modulus), so only the
            // range checks of the limbs can reject it; plus one random position
            for i in [0, rng.below(md.n as u64 - 1) as usize] {
                plans.push((format!("{what}:carry-shift"), HashMap::from([(idx[i], Fault::Add(big_to_f(&md.base()))), (idx[i + 1], Fault::Add(-F::from(1)))])));
                plans.push((format!("{what}:carry-unshift"), HashMap::from([(idx[i], Fault::Add(-big_to_f(&md.base()))), (idx[i + 1], Fault::Add(F::from(1)))])));
            }
        }
    }
    plans
}

/// Extended S2 for a field program: structured plans (see above).
pub fn fcheck_s2_structured<Fd: EmField>(op: &FOp<Fd>, x: &[BigUint], seed: u64, max_plans: usize) -> Result<(XStats, Vec<String>, Verdict), Failure> {
    let name = op.xname();
    let mut stats = XStats::default();
    let Some(inst) = op.xreference(x) else {
        return Ok((stats, vec![], Verdict::trivial("out-of-domain-input-skipped")));
    };
    let honest = honest_readback(op, x, &inst)?;
    let mut rng = SplitMix(seed);
    let mut plans = structured_plans::<Fd>(&honest, &mut rng, max_plans);
    let mut elems: Vec<usize> = (0..op.prog.n_field).map(|e| e * Fd::NB_LIMBS).collect();
    if let Term::Expose(_) = op.prog.term {
        elems.push(op.x_n_input_scalars());
    }
    let inp = exposed_limb_plans::<Fd>(&honest, &elems, op.x_n_input_scalars(), &mut rng);
    // the other representation of each exposed range-checked element, consistently
    for (j, off) in elems.iter().enumerate() {
        for t in [1u32, 2] {
            if let Some(p) = plan_transplant_plus_m::<Fd>(&honest, *off, t) {
                if !p.is_empty() {
                    plans.push((format!("{}#{j}:+{t}m-transplant-consistent", if *off >= op.x_n_input_scalars() { "result" } else { "input" }), p));
                }
            }
        }
    }
    // the exactly-consistent carry shifts of the result element always; the rest sampled
    let (first, mut inp): (Vec<_>, Vec<_>) = inp.into_iter().partition(|(k, _)| k.starts_with("result:carry"));
    plans.extend(first.into_iter().take(2));
    while plans.len() < max_plans + 5 && !inp.is_empty() {
        let i = rng.below(inp.len() as u64) as usize;
        plans.push(inp.swap_remove(i));
    }
    // which consistent +m plans were accepted (representation independence)
    let mut labels = vec![];
    for (kind, plan) in plans {
        let mut st = XStats::default();
        run_plans(op, x, &inst, vec![(kind.clone(), plan)], &mut st)?;
        if kind.ends_with("consistent") {
            labels.push(format!("{kind}:{}", if st.accepted_correct > 0 { "accepted-correct" } else if st.rejected > 0 { "rejected" } else { "other" }));
        }
        stats.add(&st);
    }
    let nt = stats.rejected + stats.accepted_correct > 0;
    Ok((stats.clone(), labels, Verdict::of(nt, "S2-structured").with(name)))
}

// ---------------------------------------------------------------------------
// BigUint gadget

pub const BIG_LB: u32 = 96;

#[derive(Clone, Debug, Serialize, Deserialize, PartialEq, Eq)]
pub enum BKind {
    /// assign_biguint + exposure
    Assign,
    AssignFixed(String),
    Add,
    Sub,
    Mul,
    DivRem,
    /// mod_exp(x, n, m): inputs x (width wa), m (width wb)
    ModExp(u64),
    LowerThan,
    IsEqual,
    IsEqualFixed(String),
    ToBits,
    ToBytes,
    /// from_le_bits over `wa` bits
    FromBits,
    /// from_le_bytes over `wa` bytes
    FromBytes,
    /// (x + y) * z - with un-normalised intermediate results inside the gadget
    AddMul,
    /// sub(add(x, y), y) == x
    AddSub,
}

/// One operation of the BigUint gadget; `wa`, `wb`, `wc` are the declared bit
/// widths of the inputs.
#[derive(Clone, Debug, Serialize, Deserialize, PartialEq, Eq)]
pub struct BigOp {
    pub kind: BKind,
    pub wa: u32,
    pub wb: u32,
    pub wc: u32,
}

fn shapes() -> &'static Mutex<HashMap<String, Vec<u32>>> {
    static S: OnceLock<Mutex<HashMap<String, Vec<u32>>>> = OnceLock::new();
    S.get_or_init(|| Mutex::new(HashMap::new()))
}

fn big_limbs(v: &BigUint, n: usize) -> Option<Vec<F>> {
    let mask = (BigUint::one() << BIG_LB) - BigUint::one();
    let mut out = vec![];
    let mut v = v.clone();
    for _ in 0..n {
        out.push(big_to_f(&(&v & &mask)));
        v >>= BIG_LB;
    }
    v.is_zero().then_some(out)
}

fn big_decode(limbs: &[F]) -> Option<BigUint> {
    let mut v = BigUint::zero();
    for l in limbs.iter().rev() {
        let l = f_to_big(l);
        if l.bits() > BIG_LB as u64 {
            return None;
        }
        v = (v << BIG_LB) + l;
    }
    Some(v)
}

fn n_limbs(w: u32) -> usize {
    w.max(1).div_ceil(BIG_LB) as usize
}

#[derive(Clone, Debug, PartialEq, Eq)]
pub enum BOut {
    Ints(Vec<BigUint>),
    Bit(bool),
    Scalars(Vec<F>),
}

impl BigOp {
    pub fn n_big_inputs(&self) -> usize {
        match self.kind {
            BKind::Assign | BKind::ToBits | BKind::ToBytes | BKind::IsEqualFixed(_) => 1,
            BKind::AssignFixed(_) => 0,
            BKind::FromBits | BKind::FromBytes => 0,
            BKind::AddMul => 3,
            _ => 2,
        }
    }
    fn widths(&self) -> Vec<u32> {
        [self.wa, self.wb, self.wc][..self.n_big_inputs()].to_vec()
    }
    /// number of native scalars exposing the inputs
    fn n_in(&self) -> usize {
        match self.kind {
            BKind::FromBits | BKind::FromBytes => self.wa as usize,
            _ => self.widths().iter().map(|w| n_limbs(*w)).sum(),
        }
    }
    fn out_shape(&self, x: &[BigUint]) -> Option<Vec<u32>> {
        // the number of limbs of an exposed result is `nb_bits().div_ceil(96)` of the
        // assigned result (a shape, independent of the inputs); it is recorded by the
        // circuit at synthesis (the k computation synthesises once)
        let _ = e2::op_k(self, x);
        shapes().lock().unwrap().get(&self.name()).cloned()
    }
    /// Reference semantics (num-bigint). `None`: outside the documented domain.
    pub fn interpret(&self, x: &[BigUint]) -> Option<BOut> {
        match &self.kind {
            BKind::FromBits | BKind::FromBytes => {}
            _ => {
                for (v, w) in x.iter().zip(self.widths()) {
                    if v.bits() > w as u64 {
                        return None;
                    }
                }
            }
        }
        Some(match &self.kind {
            BKind::Assign => BOut::Ints(vec![]),
            BKind::AssignFixed(c) => BOut::Ints(vec![unhex(c)]),
            BKind::Add => BOut::Ints(vec![&x[0] + &x[1]]),
            BKind::Sub => {
                if x[0] < x[1] {
                    return None;
                }
                BOut::Ints(vec![&x[0] - &x[1]])
            }
            BKind::Mul => BOut::Ints(vec![&x[0] * &x[1]]),
            BKind::DivRem => {
                if x[1].is_zero() {
                    return None;
                }
                let (q, r) = x[0].div_rem(&x[1]);
                BOut::Ints(vec![q, r])
            }
            BKind::ModExp(n) => {
                if x[1].is_zero() {
                    return None;
                }
                BOut::Ints(vec![x[0].modpow(&BigUint::from(*n), &x[1])])
            }
            BKind::LowerThan => BOut::Bit(x[0] < x[1]),
            BKind::IsEqual => BOut::Bit(x[0] == x[1]),
            BKind::IsEqualFixed(c) => BOut::Bit(x[0] == unhex(c)),
            BKind::ToBits => {
                let n = n_limbs(self.wa) * BIG_LB as usize;
                BOut::Scalars((0..n).map(|i| F::from(x[0].bit(i as u64) as u64)).collect())
            }
            BKind::ToBytes => {
                let n = n_limbs(self.wa) * BIG_LB as usize / 8;
                let mut b = x[0].to_bytes_le();
                b.resize(n, 0);
                BOut::Scalars(b.iter().map(|b| F::from(*b as u64)).collect())
            }
            BKind::FromBits => {
                let v = x.iter().rev().fold(BigUint::zero(), |acc, b| (acc << 1) + BigUint::from(!b.is_zero() as u8));
                BOut::Ints(vec![v])
            }
            BKind::FromBytes => {
                let bytes: Vec<u8> = x.iter().map(|b| b.to_u8().unwrap_or(0)).collect();
                BOut::Ints(vec![BigUint::from_bytes_le(&bytes)])
            }
            BKind::AddMul => BOut::Ints(vec![(&x[0] + &x[1]) * &x[2]]),
            BKind::AddSub => BOut::Ints(vec![x[0].clone()]),
        })
    }
    fn enc_inputs(&self, x: &[BigUint]) -> Option<Vec<F>> {
        match self.kind {
            BKind::FromBits => Some(x.iter().map(|b| F::from(!b.is_zero() as u64)).collect()),
            BKind::FromBytes => Some(x.iter().map(big_to_f).collect()),
            _ => {
                let mut v = vec![];
                for (xi, w) in x.iter().zip(self.widths()) {
                    v.extend(big_limbs(xi, n_limbs(w))?);
                }
                Some(v)
            }
        }
    }
    fn dec_inputs(&self, public: &[F]) -> Option<Vec<BigUint>> {
        if public.len() < self.n_in() {
            return None;
        }
        match self.kind {
            BKind::FromBits => public[..self.n_in()].iter().map(|b| (f_to_big(b) <= BigUint::one()).then(|| f_to_big(b))).collect(),
            BKind::FromBytes => public[..self.n_in()].iter().map(|b| (f_to_big(b).bits() <= 8).then(|| f_to_big(b))).collect(),
            _ => {
                let mut pos = 0;
                let mut x = vec![];
                for w in self.widths() {
                    let n = n_limbs(w);
                    let v = big_decode(&public[pos..pos + n])?;
                    // "Assigns a BigUint (of at most `nb_bits` bits)"
                    if v.bits() > w as u64 {
                        return None;
                    }
                    x.push(v);
                    pos += n;
                }
                Some(x)
            }
        }
    }
}

impl Op for BigOp {
    fn name(&self) -> String {
        format!("biguint:{:?}(wa={},wb={},wc={})", self.kind, self.wa, self.wb, self.wc).replace(' ', "")
    }
    fn circuit<L: Layouter<F>>(&self, std: &ZkStdLib, l: &mut L, x: Value<Vec<BigUint>>) -> Result<(), Error> {
        let g = std.biguint();
        let mut outs: Vec<AssignedBigUint<F>> = vec![];
        let mut shape = vec![];
        let mut bits_in: Vec<AssignedBit<F>> = vec![];
        let mut bytes_in: Vec<AssignedByte<F>> = vec![];
        let mut a: Vec<AssignedBigUint<F>> = vec![];
        match self.kind {
            BKind::FromBits => {
                for i in 0..self.wa as usize {
                    let b: AssignedBit<F> = std.assign(l, x.clone().map(|x| !x[i].is_zero()))?;
                    std.constrain_as_public_input(l, &b)?;
                    bits_in.push(b);
                }
            }
            BKind::FromBytes => {
                for i in 0..self.wa as usize {
                    let b: AssignedByte<F> = std.assign(l, x.clone().map(|x| x[i].to_u8().unwrap_or(0)))?;
                    std.constrain_as_public_input(l, &b)?;
                    bytes_in.push(b);
                }
            }
            _ => {
                for (i, w) in self.widths().into_iter().enumerate() {
                    a.push(g.assign_biguint(l, x.clone().map(|x| x[i].clone()), w)?);
                }
                for ai in &a {
                    g.constrain_as_public_input(l, ai, ai.nb_bits())?;
                }
            }
        }
        match &self.kind {
            BKind::Assign => {}
            BKind::AssignFixed(c) => outs.push(g.assign_fixed_biguint(l, unhex(c))?),
            BKind::Add => outs.push(g.add(l, &a[0], &a[1])?),
            BKind::Sub => outs.push(g.sub(l, &a[0], &a[1])?),
            BKind::Mul => outs.push(g.mul(l, &a[0], &a[1])?),
            BKind::DivRem => {
                let (q, r) = g.div_rem(l, &a[0], &a[1])?;
                outs.push(q);
                outs.push(r);
            }
            BKind::ModExp(n) => outs.push(g.mod_exp(l, &a[0], *n, &a[1])?),
            BKind::LowerThan => {
                let b = g.lower_than(l, &a[0], &a[1])?;
                std.constrain_as_public_input(l, &b)?;
            }
            BKind::IsEqual => {
                let b = g.is_equal(l, &a[0], &a[1])?;
                std.constrain_as_public_input(l, &b)?;
            }
            BKind::IsEqualFixed(c) => {
                let b = g.is_equal_to_fixed(l, &a[0], unhex(c))?;
                std.constrain_as_public_input(l, &b)?;
            }
            BKind::ToBits => {
                let bs = g.to_le_bits(l, &a[0])?;
                bs.iter().try_for_each(|b| std.constrain_as_public_input(l, b))?;
            }
            BKind::ToBytes => {
                let bs = g.to_le_bytes(l, &a[0])?;
                bs.iter().try_for_each(|b| std.constrain_as_public_input(l, b))?;
            }
            BKind::FromBits => outs.push(g.from_le_bits(l, &bits_in)?),
            BKind::FromBytes => outs.push(g.from_le_bytes(l, &bytes_in)?),
            BKind::AddMul => {
                let s = g.add(l, &a[0], &a[1])?;
                outs.push(g.mul(l, &s, &a[2])?);
            }
            BKind::AddSub => {
                let s = g.add(l, &a[0], &a[1])?;
                outs.push(g.sub(l, &s, &a[1])?);
            }
        }
        for o in &outs {
            shape.push(o.nb_bits());
            g.constrain_as_public_input(l, o, o.nb_bits())?;
        }
        shapes().lock().unwrap().insert(self.name(), shape);
        Ok(())
    }
    fn reference(&self, x: &[BigUint]) -> Option<Vec<F>> {
        let out = self.interpret(x)?;
        let mut v = self.enc_inputs(x)?;
        match out {
            BOut::Ints(outs) => {
                // if the circuit cannot even be synthesised no shape is known: use the
                // minimal one so that the completeness check reports the failure
                let shape = match self.out_shape(x) {
                    Some(s) if s.len() == outs.len() => s,
                    _ => outs.iter().map(|o| o.bits().max(1) as u32).collect(),
                };
                for (o, w) in outs.iter().zip(shape) {
                    v.extend(big_limbs(o, n_limbs(w))?);
                }
            }
            BOut::Bit(b) => v.push(F::from(b as u64)),
            BOut::Scalars(s) => v.extend(s),
        }
        Some(v)
    }
    fn n_input_scalars(&self) -> usize {
        self.n_in()
    }
    fn decode_inputs(&self, public: &[F]) -> Option<Vec<BigUint>> {
        self.dec_inputs(public)
    }
    fn judge(&self, public: &[F]) -> bool {
        let Some(x) = self.dec_inputs(public) else { return false };
        let Some(out) = self.interpret(&x) else { return false };
        let rest = &public[self.n_in()..];
        match out {
            BOut::Ints(outs) => {
                let Some(shape) = self.out_shape(&x) else { return false };
                let mut pos = 0;
                for (o, w) in outs.iter().zip(shape) {
                    let n = n_limbs(w);
                    if pos + n > rest.len() || big_decode(&rest[pos..pos + n]).as_ref() != Some(o) {
                        return false;
                    }
                    pos += n;
                }
                pos == rest.len()
            }
            BOut::Bit(b) => rest.len() == 1 && rest[0] == F::from(b as u64),
            BOut::Scalars(s) => rest == s.as_slice(),
        }
    }
}

impl XOp for BigOp {
    fn xname(&self) -> String {
        self.name()
    }
    fn xrun(&self, x: &[BigUint], inst: XInst, plan: HashMap<usize, Fault<F>>) -> RunX {
        run_std_op(self, x, inst, plan)
    }
    fn xreference(&self, x: &[BigUint]) -> Option<Vec<F>> {
        self.reference(x)
    }
    fn xjudge(&self, public: &[F]) -> bool {
        self.judge(public)
    }
    fn x_n_input_scalars(&self) -> usize {
        self.n_in()
    }
    fn x_n_public(&self, x: &[BigUint]) -> usize {
        let outs = match &self.kind {
            BKind::LowerThan | BKind::IsEqual | BKind::IsEqualFixed(_) => 1,
            BKind::ToBits => n_limbs(self.wa) * BIG_LB as usize,
            BKind::ToBytes => n_limbs(self.wa) * BIG_LB as usize / 8,
            _ => self.out_shape(x).map(|s| s.iter().map(|w| n_limbs(*w)).sum()).unwrap_or(0),
        };
        self.n_in() + outs
    }
}

// ===========================================================================
// Catalogue and generators (used by bin/c05.rs and by `visit_ops`)

// ---------------------------------------------------------------------------
// Field op catalogue

#[derive(Clone)]
pub struct Entry {
    pub prog: Prog,
    pub label: &'static str,
    /// inputs are reduced below 2^in_bits (ops with an output width)
    pub in_bits: Option<u64>,
    /// exhaustive single faults in the thorough tier
    pub heavy: bool,
    /// uses the `enforce_canonical = false` path of `assigned_to_le_bits` (known
    /// finding: unsatisfiable when x = 0 mod 2^LOG2_BASE, x is un-normalised, or
    /// x = 0 with a bit bound);
    /// such inputs are excluded (and counted) in the main streams
    pub ecf: bool,
}

/// Is `x` an input on which the `enforce_canonical = false` path is known to be
/// unsatisfiable (adding 1 to the stored representation overflows limb 0)?
/// With a bit bound (`nb_bits` / `nb_chunks` given) zero is affected as well: on
/// that path it is decomposed as the integer m (stored m-1, plus one).
pub fn ecf_known_input(md: &FModel, x: &BigUint, bounded: bool) -> bool {
    let stored = (x % &md.m + &md.m - BigUint::one()) % &md.m;
    (&stored % md.base()) == md.base() - BigUint::one() || (bounded && (x % &md.m).is_zero())
}

pub fn e(prog: Prog, label: &'static str) -> Entry {
    Entry { prog, label, in_bits: None, heavy: false, ecf: false }
}

pub fn small_k(md: &FModel) -> BigUint {
    // below the documented threshold max_limb_bound / (1000 B) = B / 1000
    BigUint::one() << (md.lb - 12)
}

pub fn catalogue(md: &FModel) -> Vec<Entry> {
    let m = &md.m;
    let h = |v: BigUint| hex(&(v % m));
    let one = BigUint::one();
    let b = md.base();
    let consts: Vec<(BigUint, &'static str)> = vec![
        (BigUint::zero(), "c=0"),
        (one.clone(), "c=1"),
        (BigUint::from(3u8), "c=3"),
        (small_k(md), "c=small-pow2"),
        (m - &one, "c=m-1"),
        (m - BigUint::from(2u8), "c=m-2"),
        (b.clone(), "c=B"),
        (&b - &one, "c=B-1"),
        (unhex("1234567890abcdef1234567890abcdef1234567890abcdef1234567890abcd") % m, "c=rand"),
    ];
    let mut v = vec![];
    v.push(e(Prog::term1(Term::Expose(0)), "assign"));
    for (c, _) in consts.iter() {
        v.push(e(Prog { n_field: 0, n_bits: 0, n_bytes: 0, steps: vec![Step::Fixed(h(c.clone()))], term: Term::Expose(0) }, "assign_fixed"));
    }
    v.push(e(Prog::binary(Step::Add(0, 1)), "add"));
    v.push(e(Prog::binary(Step::Sub(0, 1)), "sub"));
    v.push(Entry { heavy: true, ..e(Prog::binary(Step::Mul(0, 1)), "mul") });
    v.push(e(Prog::binary(Step::MulK(0, 1, h(BigUint::from(5u8)))), "mul_k"));
    v.push(e(Prog::binary(Step::MulK(0, 1, h(m - &one))), "mul_k"));
    v.push(e(Prog::binary(Step::Div(0, 1)), "div"));
    v.push(e(Prog::unary(Step::Neg(0)), "neg"));
    v.push(Entry { heavy: true, ..e(Prog::unary(Step::Inv(0)), "inv") });
    v.push(e(Prog::unary(Step::Inv0(0)), "inv0"));
    for (c, _) in consts.iter() {
        v.push(e(Prog::unary(Step::AddC(0, h(c.clone()))), "add_constant"));
    }
    for (c, _) in consts.iter() {
        v.push(e(Prog::unary(Step::MulC(0, h(c.clone()))), "mul_by_constant"));
    }
    v.push(e(
        Prog { n_field: 3, n_bits: 0, n_bytes: 0, steps: vec![Step::Lin(vec![(h(BigUint::from(2u8)), 0), (h(m - &one), 1), (h(small_k(md)), 2)], h(BigUint::from(7u8)))], term: Term::Expose(3) },
        "linear_combination",
    ));
    v.push(e(
        Prog { n_field: 2, n_bits: 0, n_bytes: 0, steps: vec![Step::Lin(vec![(h(one.clone()), 0), (h(one.clone()), 1), (h(one.clone()), 0)], h(BigUint::zero()))], term: Term::Expose(2) },
        "linear_combination",
    ));
    v.push(e(Prog::term1(Term::IsZero(0)), "is_zero"));
    v.push(Entry { heavy: true, ..e(Prog::term2(Term::IsEq(0, 1)), "is_equal") });
    v.push(e(Prog::term2(Term::IsNe(0, 1)), "is_not_equal"));
    for (c, _) in consts.iter().take(6) {
        v.push(e(Prog::term1(Term::IsEqFixed(0, h(c.clone()))), "is_equal_to_fixed"));
    }
    v.push(e(Prog { n_field: 2, n_bits: 1, n_bytes: 0, steps: vec![Step::Select(0, 0, 1)], term: Term::Expose(2) }, "select"));
    // in-domain assertions (the violating direction is in ff.unsat)
    v.push(e(Prog::term2(Term::AssertEq(0, 1)), "assert_equal"));
    v.push(e(Prog::term2(Term::AssertNe(0, 1)), "assert_not_equal"));
    v.push(e(Prog::term1(Term::AssertNonZero(0)), "assert_non_zero"));
    for (c, _) in consts.iter().take(3) {
        v.push(e(Prog::term1(Term::AssertEqFixed(0, h(c.clone()))), "assert_equal_to_fixed"));
        v.push(e(Prog::term1(Term::AssertNeFixed(0, h(c.clone()))), "assert_not_equal_to_fixed"));
    }
    // decompositions
    let bits = md.bits as usize;
    v.push(e(Prog::term1(Term::ToBits(0, None, true)), "to_le_bits"));
    v.push(Entry { in_bits: Some(bits as u64 - 8), ..e(Prog::term1(Term::ToBits(0, Some(bits - 8), true)), "to_le_bits") });
    v.push(Entry { in_bits: Some(9), ..e(Prog::term1(Term::ToBits(0, Some(9), true)), "to_le_bits") });
    v.push(Entry { in_bits: Some(64), ..e(Prog::term1(Term::ToBytes(0, Some(8))), "to_le_bytes") });
    v.push(Entry { in_bits: Some(8 * (bits as u64 / 8)), ..e(Prog::term1(Term::ToBytes(0, Some(bits / 8))), "to_le_bytes") });
    v.push(e(Prog::term1(Term::ToBytes(0, None)), "to_le_bytes"));
    // more bits than the field has: zero padded
    v.push(e(Prog::term1(Term::ToBits(0, Some(bits + 5), true)), "to_le_bits"));
    // chunk size dividing LOG2_BASE (per-limb path)
    let c = if md.lb % 8 == 0 { 8 } else { 17 };
    v.push(e(Prog::term1(Term::ToChunks(0, c, None)), "to_le_chunks"));
    // chunk size not dividing LOG2_BASE (bit path, enforce_canonical = false)
    v.push(Entry { in_bits: Some(15), ecf: true, ..e(Prog::term1(Term::ToChunks(0, 5, Some(3))), "to_le_chunks") });
    v.push(Entry { ecf: true, ..e(Prog::term1(Term::ToChunks(0, 5, None)), "to_le_chunks") });
    v.push(Entry { ecf: true, ..e(Prog::term1(Term::ToBits(0, None, false)), "to_le_bits(non-canonical)") });
    for len in [1usize, md.lb as usize, md.lb as usize + 3, bits - 1, bits] {
        v.push(e(Prog { n_field: 0, n_bits: len, n_bytes: 0, steps: vec![Step::FromBits(0, len)], term: Term::Expose(0) }, "from_le_bits"));
    }
    for len in [1usize, (md.lb / 8) as usize, (md.lb / 8) as usize + 1, bits / 8] {
        v.push(e(Prog { n_field: 0, n_bits: 0, n_bytes: len, steps: vec![Step::FromBytes(0, len)], term: Term::Expose(0) }, "from_le_bytes"));
    }
    v
}

/// Operand classes of the property: {0, 1, m-1, m-2, all-ones limbs, values
/// near 2^LOG2_BASE, the two-representation window, random} plus relations
/// with the previous operand.
pub fn operand(md: &FModel, cls: u8, rng: &mut SplitMix, prev: Option<&BigUint>) -> (BigUint, &'static str) {
    let m = &md.m;
    let one = BigUint::one();
    let b = md.base();
    let rnd = |rng: &mut SplitMix| BigUint::from_bytes_le(&rng.bytes(64)) % m;
    match cls % 12 {
        0 => (BigUint::zero(), "0"),
        1 => (one, "1"),
        2 => (m - &one, "m-1"),
        3 => (m - BigUint::from(2u8), "m-2"),
        4 => {
            // all-ones limbs: of the stored integer v-1, or of the value itself
            let low = (BigUint::one() << (md.lb as usize * (md.n - 1))) - &one;
            let v = match rng.below(4) {
                0 => (&low + &one) % m,                                   // v-1 has n-1 all-ones limbs
                1 => low,                                                 // the value has
                2 => ((BigUint::one() << md.bits) - &one) % m,            // 2^bits - 1 reduced
                _ => ((m >> (md.lb as usize * (md.n - 1))) << (md.lb as usize * (md.n - 1))) - &one, // top limb of m, minus one, all-ones below
            };
            (v % m, "all-ones-limbs")
        }
        5 => {
            let j = 1 + rng.below(md.n as u64 - 1) as usize;
            let p = if rng.below(2) == 0 { b.clone() } else { BigUint::one() << (md.lb as usize * j) };
            let v = match rng.below(4) {
                0 => &p - &one,
                1 => p,
                2 => &p + &one,
                _ => &p + BigUint::from(2u8),
            };
            (v % m, "near-2^LOG2_BASE")
        }
        6 => {
            let w = md.two_rep_max();
            let v = match rng.below(6) {
                0 => BigUint::from(2u8),
                1 => BigUint::from(19u8),
                2 => w.clone(),
                3 => &w + &one,
                4 => &w - &one,
                _ => BigUint::from(2u8) + (rnd(rng) % &w),
            };
            (v % m, "two-rep-window")
        }
        7 | 8 | 9 => (rnd(rng), "random"),
        10 => match prev {
            Some(p) => (p.clone(), "equal-to-prev"),
            None => (rnd(rng), "random"),
        },
        _ => match prev {
            Some(p) => ((m - p) % m, "neg-of-prev"),
            None => (rnd(rng), "random"),
        },
    }
}


/// Inputs of a program for a case; returns (inputs, boundary?, class labels)
pub fn inputs_for(md: &FModel, prog: &Prog, in_bits: Option<u64>, cls: &[u8; 3], seed: u64) -> (Vec<BigUint>, bool, Vec<&'static str>) {
    let mut rng = SplitMix(seed);
    let mut x: Vec<BigUint> = vec![];
    let mut labels = vec![];
    let mut boundary = false;
    for i in 0..prog.n_field {
        let prev = x.last().cloned();
        let (mut v, l) = operand(md, cls[i % 3], &mut rng, prev.as_ref());
        if let Some(k) = in_bits {
            v %= BigUint::one() << k;
        }
        boundary |= l != "random";
        labels.push(l);
        x.push(v);
    }
    if prog.n_bits > 0 {
        let (v, l) = operand(md, cls[0], &mut rng, None);
        let mode = rng.below(4);
        boundary |= l != "random" || mode < 2;
        for i in 0..prog.n_bits {
            let bit = match mode {
                0 => false,
                1 => true,
                _ => v.bit(i as u64),
            };
            x.push(BigUint::from(bit as u8));
        }
        labels.push(if mode == 0 { "bits-zero" } else if mode == 1 { "bits-ones" } else { l });
    }
    if prog.n_bytes > 0 {
        let (v, l) = operand(md, cls[1], &mut rng, None);
        let mode = rng.below(4);
        boundary |= l != "random" || mode < 2;
        let vb = v.to_bytes_le();
        for i in 0..prog.n_bytes {
            let byte = match mode {
                0 => 0u8,
                1 => 0xff,
                _ => vb.get(i).copied().unwrap_or(0),
            };
            x.push(BigUint::from(byte));
        }
        labels.push(if mode == 0 { "bytes-zero" } else if mode == 1 { "bytes-ff" } else { l });
    }
    (x, boundary, labels)
}

// ---------------------------------------------------------------------------
// Chains

/// A chain of 2–6 operations without normalisation in between. Limb bounds
/// are tracked (in units of B) so that the generator stays inside the
/// documented limit of the lazy arithmetic (`max_limb_bound` = B^2: exceeding
/// it is a circuit-construction panic by design).
pub fn gen_chain(md: &FModel, rng: &mut SplitMix) -> Prog {
    let m = &md.m;
    let h = |v: BigUint| hex(&(v % m));
    let n_field = 1 + rng.below(3) as usize;
    let n_steps = 2 + rng.below(5) as usize;
    let unit: u128 = 1;
    let cap: u128 = 1u128 << (md.lb - 4); // normalised when above B/10; stay well below B
    let mut bound: Vec<u128> = vec![unit; n_field];
    let mut steps = vec![];
    let pick = |rng: &mut SplitMix, n: usize| -> usize {
        if rng.below(2) == 0 {
            n - 1
        } else {
            rng.below(n as u64) as usize
        }
    };
    while steps.len() < n_steps {
        let n = bound.len();
        let a = pick(rng, n);
        let b = pick(rng, n);
        let (s, bd) = match rng.below(20) {
            0..=3 => (Step::Add(a, b), bound[a] + bound[b] + 1),
            4..=7 => (Step::Sub(a, b), bound[a] + bound[b] + 1),
            8 | 9 => (Step::Neg(a), bound[a] + 2),
            10 => (Step::AddC(a, h(BigUint::from_bytes_le(&rng.bytes(40)))), bound[a] + 1),
            11 => (Step::AddC(a, h(m - BigUint::one())), bound[a] + 1),
            12 | 13 => {
                let k = 2 + rng.below(1000);
                (Step::MulC(a, h(BigUint::from(k))), bound[a].saturating_mul(k as u128) + k as u128)
            }
            14 => (Step::MulC(a, h(m - BigUint::from(1 + rng.below(3)))), unit),
            15 | 16 => (Step::Mul(a, b), unit),
            17 => (Step::Inv0(a), unit),
            18 => {
                let k1 = 1 + rng.below(50);
                let k2 = 1 + rng.below(50);
                (Step::Lin(vec![(h(BigUint::from(k1)), a), (h(BigUint::from(k2)), b)], h(BigUint::from(rng.below(5)))), bound[a] * k1 as u128 + bound[b] * k2 as u128 + 2)
            }
            _ => (Step::Fixed(h(BigUint::from_bytes_le(&rng.bytes(40)))), unit),
        };
        if bd > cap {
            continue;
        }
        steps.push(s);
        // the library normalises when a bound exceeds max_limb_bound / 10
        bound.push(if bd > (1u128 << md.lb) / 10 { unit } else { bd });
    }
    let last = bound.len() - 1;
    let other = rng.below(bound.len() as u64) as usize;
    let term = match rng.below(10) {
        0..=4 => Term::Expose(last),
        5 => Term::IsZero(last),
        6 => Term::IsEq(last, other),
        7 => Term::ToBits(last, None, true),
        8 => Term::IsEqFixed(last, h(BigUint::from(rng.below(3)))),
        _ => Term::AssertNe(last, other),
    };
    Prog { n_field, n_bits: 0, n_bytes: 0, steps, term }
}

/// Identity chains: two different lazy computations of the same residue, then
/// an equality test / assertion / zero test on the un-normalised results.
pub fn identity_chain(md: &FModel, which: u64, rng: &mut SplitMix) -> Prog {
    let m = &md.m;
    let h = |v: BigUint| hex(&(v % m));
    let c = BigUint::from_bytes_le(&rng.bytes(40)) % m;
    let k = 2 + rng.below(500);
    let (n_field, steps, l, r): (usize, Vec<Step>, usize, usize) = match which % 9 {
        // (x + y) - y == x
        0 => (2, vec![Step::Add(0, 1), Step::Sub(2, 1)], 3, 0),
        // x + (-x) == 0  (compared with the fixed zero)
        1 => (1, vec![Step::Neg(0), Step::Add(0, 1), Step::Fixed(h(BigUint::zero()))], 2, 3),
        // k x + y  ==  lin([(k, x), (1, y)], 0)
        2 => (2, vec![Step::MulC(0, h(BigUint::from(k))), Step::Add(2, 1), Step::Lin(vec![(h(BigUint::from(k)), 0), (h(BigUint::one()), 1)], h(BigUint::zero()))], 3, 4),
        // -(-x) == x
        3 => (1, vec![Step::Neg(0), Step::Neg(1)], 2, 0),
        // (x - y) + (y - x) == 0
        4 => (2, vec![Step::Sub(0, 1), Step::Sub(1, 0), Step::Add(2, 3), Step::Fixed(h(BigUint::zero()))], 4, 5),
        // x + x + x == 3 x
        5 => (1, vec![Step::Add(0, 0), Step::Add(1, 0), Step::MulC(0, h(BigUint::from(3u8)))], 2, 3),
        // (x * y) / y' == x with y' = y + 0-ish lazy (y + c - c)
        6 => (2, vec![Step::Mul(0, 1), Step::AddC(1, h(c.clone())), Step::AddC(3, h(m - &c)), Step::Div(2, 4)], 5, 0),
        // (x + c) + (m - c) == x
        7 => (1, vec![Step::AddC(0, h(c.clone())), Step::AddC(1, h(m - &c))], 2, 0),
        // x - x + y == y
        _ => (2, vec![Step::Sub(0, 0), Step::Add(2, 1)], 3, 1),
    };
    let term = match rng.below(5) {
        0 | 1 => Term::IsEq(l, r),
        2 => Term::AssertEq(l, r),
        3 => Term::IsNe(l, r),
        _ => Term::Expose(l),
    };
    Prog { n_field, n_bits: 0, n_bytes: 0, steps, term }
}


pub const WIDTHS: [u32; 11] = [1, 7, 8, 64, 95, 96, 97, 192, 256, 1024, 2048];


/// Generated parameters of a BigUint case.
#[derive(Clone, Debug)]
pub struct BigCaseArgs {
    pub kind: u8,
    pub w: [u8; 3],
    pub cls: [u8; 3],
    pub seed: u64,
}

pub fn big_operand(w: u32, cls: u8, rng: &mut SplitMix, prev: Option<&BigUint>) -> (BigUint, &'static str) {
    let one = BigUint::one();
    let top = BigUint::one() << w;
    let fit = |v: BigUint| if v < top { v } else { &top - &one };
    match cls % 12 {
        0 => (BigUint::zero(), "0"),
        1 => (fit(BigUint::one()), "1"),
        2 => (&top - &one, "2^w-1"),
        3 => (BigUint::one() << (w - 1), "2^(w-1)"),
        4 => (fit(BigUint::one() << 96), "2^96"),
        5 => (fit((BigUint::one() << 96) - &one), "2^96-1"),
        6 => {
            let k = 1 + rng.below(w.div_ceil(96) as u64) as usize;
            (fit((BigUint::one() << (96 * k)) - &one), "all-ones-limbs")
        }
        7 | 8 => (BigUint::from_bytes_le(&rng.bytes(w as usize / 8 + 1)) % &top, "random"),
        9 => match prev {
            Some(p) => (fit(p.clone()), "equal-to-prev"),
            None => (BigUint::from_bytes_le(&rng.bytes(w as usize / 8 + 1)) % &top, "random"),
        },
        10 => match prev {
            Some(p) => (fit(p + &one), "prev+1"),
            None => (BigUint::from_bytes_le(&rng.bytes(w as usize / 8 + 1)) % &top, "random"),
        },
        _ => match prev {
            Some(p) if !p.is_zero() => (fit(p - &one), "prev-1"),
            _ => (BigUint::from_bytes_le(&rng.bytes(w as usize / 8 + 1)) % &top, "random"),
        },
    }
}

/// Builds an in-domain BigUint case (op + inputs) from a generated case.
pub fn big_case(c: &BigCaseArgs, quick: bool) -> (BigOp, Vec<BigUint>, bool, Vec<&'static str>) {
    let mut rng = SplitMix(c.seed);
    let kinds: Vec<BKind> = vec![
        BKind::Assign,
        BKind::AssignFixed(String::new()),
        BKind::Add,
        BKind::Sub,
        BKind::Mul,
        BKind::DivRem,
        BKind::ModExp(0),
        BKind::ModExp(1),
        BKind::ModExp(2),
        BKind::ModExp(3),
        BKind::ModExp(17),
        BKind::ModExp(65537),
        BKind::LowerThan,
        BKind::IsEqual,
        BKind::IsEqualFixed(String::new()),
        BKind::ToBits,
        BKind::ToBytes,
        BKind::FromBits,
        BKind::FromBytes,
        BKind::AddMul,
        BKind::AddSub,
        BKind::LowerThan,
        BKind::Sub,
        BKind::DivRem,
    ];
    let mut kind = kinds[c.kind as usize % kinds.len()].clone();
    // width caps keep the quadratic operations affordable
    let cap = |k: &BKind| -> usize {
        match k {
            BKind::Mul | BKind::DivRem | BKind::AddMul => if quick { 10 } else { 11 },
            BKind::ModExp(n) if *n >= 17 => 9,
            BKind::ModExp(_) => 10,
            BKind::FromBits => 9,
            _ => 11,
        }
    };
    let wi = |i: usize| WIDTHS[c.w[i] as usize % cap(&kind)];
    let (mut wa, mut wb, wc) = (wi(0), wi(1), wi(2));
    let mut labels = vec![];
    let mut boundary = false;
    let mut x: Vec<BigUint> = vec![];
    match &kind {
        BKind::FromBits => {
            let (v, l) = big_operand(wa, c.cls[0], &mut rng, None);
            boundary |= l != "random";
            labels.push(l);
            x = (0..wa as u64).map(|i| BigUint::from(v.bit(i) as u8)).collect();
        }
        BKind::FromBytes => {
            wa = [1u32, 11, 12, 13, 24, 32, 128, 256][c.w[0] as usize % 8];
            let (v, l) = big_operand(8 * wa, c.cls[0], &mut rng, None);
            boundary |= l != "random";
            labels.push(l);
            let mut b = v.to_bytes_le();
            b.resize(wa as usize, 0);
            x = b.iter().map(|b| BigUint::from(*b)).collect();
        }
        _ => {
            if matches!(kind, BKind::ModExp(0)) && wb < 2 {
                wb = 7; // n = 0 with modulus 1 is F20 (separate sub-check)
            }
            let proto = BigOp { kind: kind.clone(), wa, wb, wc };
            let ws = [wa, wb, wc];
            for i in 0..proto.n_big_inputs() {
                let prev = x.last().cloned();
                let (v, l) = big_operand(ws[i], c.cls[i], &mut rng, prev.as_ref());
                boundary |= l != "random";
                labels.push(l);
                x.push(v);
            }
            match &kind {
                BKind::Sub => {
                    if x[0] < x[1] {
                        if wa >= wb {
                            x.swap(0, 1);
                        } else {
                            x[1] = &x[1] % (&x[0] + BigUint::one());
                        }
                    }
                }
                BKind::DivRem => {
                    if x[1].is_zero() {
                        x[1] = BigUint::one();
                    }
                }
                BKind::ModExp(n) => {
                    if x[1].is_zero() {
                        x[1] = BigUint::one();
                    }
                    if *n == 0 && x[1].is_one() {
                        x[1] = BigUint::from(2u8);
                    }
                    if *n == 1 {
                        // n = 1 with x >= m is F20 (separate sub-check)
                        x[0] = &x[0] % &x[1];
                    }
                }
                BKind::AssignFixed(_) => {
                    let (v, l) = big_operand(wa, c.cls[0], &mut rng, None);
                    labels.push(l);
                    kind = BKind::AssignFixed(hex(&v));
                }
                BKind::IsEqualFixed(_) => {
                    let cst = if rng.below(2) == 0 { x[0].clone() } else { big_operand(wb, c.cls[1], &mut rng, Some(&x[0])).0 };
                    kind = BKind::IsEqualFixed(hex(&cst));
                }
                _ => {}
            }
        }
    }
    boundary |= matches!(kind, BKind::AddMul | BKind::AddSub);
    (BigOp { kind, wa, wb, wc }, x, boundary, labels)
}

pub fn big_label(op: &BigOp) -> String {
    let k = format!("{:?}", op.kind);
    k.split('(').next().unwrap_or("").to_string()
        + &match op.kind {
            BKind::ModExp(n) => format!("({n})"),
            _ => String::new(),
        }
}


// ===========================================================================
// Catalogue visiting (C08 / C09 reuse the catalogue)

/// Operand-class triples steering the data-dependent branches of the
/// off-circuit helpers differently: zero, one / m-1 / m-2, all-ones limbs and
/// carries near 2^LOG2_BASE, equal operands, opposite operands, random.
const VISIT_CLASSES: [[u8; 3]; 8] = [[0, 0, 0], [1, 2, 3], [4, 5, 6], [7, 10, 7], [2, 11, 4], [7, 8, 9], [5, 4, 2], [6, 1, 10]];

fn visit_field<Fd: EmField, V: e2::OpVisitor>(v: &mut V, quick: bool, seed: u64) {
    let md = model::<Fd>();
    let cat = catalogue(&md);
    let mut seen: Vec<&'static str> = vec![];
    let mut progs: Vec<(Prog, Option<u64>)> = vec![];
    for en in cat.iter() {
        // quick: one parameterisation per operation
        if en.ecf || (quick && seen.contains(&en.label)) {
            continue;
        }
        seen.push(en.label);
        progs.push((en.prog.clone(), en.in_bits));
    }
    if !quick {
        let mut rng = SplitMix(seed ^ 0xc4a1);
        for i in 0..9 {
            progs.push((identity_chain(&md, i, &mut rng), None));
        }
        for _ in 0..6 {
            progs.push((gen_chain(&md, &mut rng), None));
        }
    }
    for (i, (prog, in_bits)) in progs.into_iter().enumerate() {
        let op = FOp::<Fd>::new(prog.clone());
        let mut inputs: Vec<Vec<BigUint>> = vec![];
        for (j, cls) in VISIT_CLASSES.iter().enumerate() {
            let (x, _, _) = inputs_for(&md, &prog, in_bits, cls, seed.wrapping_add((i * 16 + j) as u64));
            if op.reference(&x).is_some() && !inputs.contains(&x) {
                inputs.push(x);
            }
            if inputs.len() == 6 {
                break;
            }
        }
        if !inputs.is_empty() {
            v.visit(&op, &inputs);
        }
    }
}

/// Calls `v.visit(&op, &inputs)` once per op of the C05 catalogue reachable
/// through `ZkStdLib` (emulated-field programs over the secp256k1 base and
/// scalar fields and the BLS12-381 base field; BigUint gadget operations)
/// with 1–6 in-domain input tuples each. Operations with a confirmed defect
/// on in-domain inputs (the `enforce_canonical = false` path of
/// `assigned_to_le_bits`: `to_le_bits(.., false)` and `to_le_chunks` with a
/// chunk size not dividing LOG2_BASE — known finding) are skipped.
pub fn visit_ops<V: e2::OpVisitor>(v: &mut V, quick: bool, seed: u64) {
    visit_field::<SecpBase, V>(v, quick, seed);
    visit_field::<SecpScalar, V>(v, quick, seed ^ 1);
    visit_field::<BlsBase, V>(v, quick, seed ^ 2);
    // BigUint gadget: every kind of `big_case`, a few width combinations
    let width_sets: &[[u8; 3]] = if quick { &[[3, 3, 3], [6, 7, 2]] } else { &[[3, 3, 3], [6, 7, 2], [0, 1, 0], [8, 5, 4], [9, 8, 7], [4, 6, 5]] };
    for kind in 0..21u8 {
        for (wi, w) in width_sets.iter().enumerate() {
            let mut first: Option<BigOp> = None;
            let mut inputs: Vec<Vec<BigUint>> = vec![];
            for (j, cls) in [[0u8, 0, 0], [2, 2, 2], [7, 9, 7], [6, 4, 5], [8, 10, 1], [3, 11, 7], [1, 0, 8], [5, 9, 2]].iter().enumerate() {
                let args = BigCaseArgs { kind, w: *w, cls: *cls, seed: seed.wrapping_add((kind as u64) << 16 | (wi as u64) << 8 | j as u64) };
                let (op, x, _, _) = big_case(&args, true);
                // ops that embed a constant derived from the inputs: keep the first one
                let op = match (&first, &op.kind) {
                    (Some(f), BKind::AssignFixed(_) | BKind::IsEqualFixed(_)) => f.clone(),
                    _ => op,
                };
                if first.is_none() {
                    first = Some(op.clone());
                }
                if Some(&op) == first.as_ref() && op.reference(&x).is_some() && !inputs.contains(&x) {
                    inputs.push(x);
                }
                if inputs.len() == 6 {
                    break;
                }
            }
            if let Some(op) = first {
                if !inputs.is_empty() {
                    v.visit(&op, &inputs);
                }
            }
        }
    }
}

// ===========================================================================
// Limb transplant: a consistent second representation of a range-checked
// element (an assigned input, the product of a multiplication)
//
// The limbs of such elements are assigned by `assign_lower_than_fixed`, whose
// region (limb cell + its range-check chunks) is computed from the honest
// value, so adding a delta to the limb cell alone is always rejected. To put
// the *other well-formed representation* (limbs of z + m) into the circuit
// consistently, the cells of each limb's region are overwritten with the cells
// the library itself produces for the new limb value: those are obtained from
// an honest run of a probe circuit that assigns the new limb values with the
// same `assign_lower_than_fixed(2^bits)` calls (same decomposition layout).
// Everything downstream is computed by the library from the faulted
// `AssignedCell`s (quotients, carries, normal forms).

#[derive(Clone, Debug)]
pub struct ProbeOp<Fd: EmField> {
    pub bits: Vec<u32>,
    _p: PhantomData<Fd>,
}

fn probe_body<N, L>(bits: &[u32], nat: &N, l: &mut L, x: Value<Vec<BigUint>>) -> Result<(), Error>
where
    L: Layouter<F>,
    N: RangeCheckInstructions<F, AssignedNative<F>> + PublicInputInstructions<F, AssignedNative<F>>,
{
    let mut cells = vec![];
    for (i, b) in bits.iter().enumerate() {
        cells.push(nat.assign_lower_than_fixed(l, x.clone().map(|x| big_to_f(&x[i])), &(BigUint::one() << *b))?);
    }
    cells.iter().try_for_each(|c| nat.constrain_as_public_input(l, c))
}

impl<Fd: EmField> ProbeOp<Fd> {
    pub fn new(bits: Vec<u32>) -> Self {
        ProbeOp { bits, _p: PhantomData }
    }
}

impl<Fd: EmField> Op for ProbeOp<Fd> {
    fn name(&self) -> String {
        format!("{}:range-probe{:?}", Fd::NAME, self.bits).replace(' ', "")
    }
    fn arch(&self) -> ZkStdLibArch {
        Fd::arch()
    }
    fn circuit<L: Layouter<F>>(&self, std: &ZkStdLib, l: &mut L, x: Value<Vec<BigUint>>) -> Result<(), Error> {
        probe_body(&self.bits, std, l, x)
    }
    fn reference(&self, x: &[BigUint]) -> Option<Vec<F>> {
        (x.len() == self.bits.len() && x.iter().zip(self.bits.iter()).all(|(v, b)| v.bits() <= *b as u64)).then(|| x.iter().map(big_to_f).collect())
    }
    fn n_input_scalars(&self) -> usize {
        self.bits.len()
    }
}

pub struct FsProbe {
    bits: Vec<u32>,
    x: Value<Vec<BigUint>>,
}

impl Circuit<F> for FsProbe {
    type Config = P2RDecompositionConfig;
    type FloorPlanner = SimpleFloorPlanner;
    type Params = ();
    fn without_witnesses(&self) -> Self {
        unreachable!()
    }
    fn configure(meta: &mut ConstraintSystem<F>) -> Self::Config {
        let committed = meta.instance_column();
        let instance = meta.instance_column();
        let constants = meta.fixed_column();
        meta.enable_constant(constants);
        <NG as FromScratch<F>>::configure_from_scratch(meta, &[committed, instance])
    }
    fn synthesize(&self, config: Self::Config, mut layouter: impl Layouter<F>) -> Result<(), Error> {
        let ng = <NG as FromScratch<F>>::new_from_scratch(&config);
        probe_body(&self.bits, &ng, &mut layouter, self.x.clone())?;
        ng.load_from_scratch(&mut layouter)
    }
}

impl<Fd: EmField> ProbeOp<Fd> {
    pub fn run(&self, x: &[BigUint]) -> RunX {
        if Fd::VIA_STD {
            run_std_op(self, x, XInst::ReadBack(x.len()), HashMap::new())
        } else {
            static CACHE: OnceLock<Mutex<HashMap<String, u32>>> = OnceLock::new();
            let m = CACHE.get_or_init(|| Mutex::new(HashMap::new()));
            let c = FsProbe { bits: self.bits.clone(), x: Value::known(x.to_vec()) };
            let cached = m.lock().unwrap().get(&self.name()).copied();
            let k = match cached {
                Some(k) => k,
                None => match vpcore::catch(|| k_from_circuit(&c)) {
                    Ok(k) => {
                        m.lock().unwrap().insert(self.name(), k);
                        k
                    }
                    Err(e) => return RunX { outcome: Outcome::Panic(format!("min_k: {e}")), log: vec![], values: vec![], public: vec![], pi_origin: vec![] },
                },
            };
            run_circuit(k, &c, XInst::ReadBack(x.len()), HashMap::new())
        }
    }
}

/// Plan overwriting the limb regions of the exposed element at instance
/// offset `off` with the regions of `new_limbs`. `None` when the element's
/// limbs are not range-checked assignments of the expected shape (e.g. the
/// output of a lazy operation), or a new limb does not fit its bound.
pub fn plan_transplant<Fd: EmField>(honest: &RunX, off: usize, new_limbs: &[BigUint]) -> Option<HashMap<usize, Fault<F>>> {
    let md = model::<Fd>();
    let n = md.n;
    if new_limbs.len() != n || off + n > honest.pi_origin.len() {
        return None;
    }
    if new_limbs.iter().enumerate().any(|(i, l)| l.bits() > md.limb_bits(i)) {
        return None;
    }
    let o: Vec<usize> = honest.pi_origin[off..off + n].iter().copied().collect::<Option<Vec<_>>>()?;
    let mut bits: Vec<u32> = (0..n).map(|i| md.limb_bits(i) as u32).collect();
    bits.push(8); // sentinel marking the end of the last region
    let mut vals = new_limbs.to_vec();
    vals.push(BigUint::zero());
    let pr = ProbeOp::<Fd>::new(bits).run(&vals);
    if !pr.outcome.accepted() {
        return None;
    }
    let po: Vec<usize> = pr.pi_origin.iter().copied().collect::<Option<Vec<_>>>()?;
    if po.len() != n + 1 {
        return None;
    }
    let mut plan = HashMap::new();
    for i in 0..n {
        if po[i + 1] <= po[i] {
            return None;
        }
        for t in 0..po[i + 1] - po[i] {
            let a = honest.log.get(o[i] + t)?;
            let b = pr.log.get(po[i] + t)?;
            if a.column != b.column || a.offset != b.offset {
                return None;
            }
            let v = (*pr.values.get(po[i] + t)?)?;
            if honest.values.get(o[i] + t).copied().flatten() != Some(v) {
                plan.insert(o[i] + t, Fault::Set(v));
            }
        }
    }
    Some(plan)
}

/// The consistent "+t m" re-representation of the exposed element at `off`.
pub fn plan_transplant_plus_m<Fd: EmField>(honest: &RunX, off: usize, t: u32) -> Option<HashMap<usize, Fault<F>>> {
    let md = model::<Fd>();
    let z = md.limb_int(honest.public.get(off..off + md.n)?)?;
    let w = z + &md.m * BigUint::from(t);
    if w.bits() > md.n as u64 * md.lb as u64 {
        return None;
    }
    plan_transplant::<Fd>(honest, off, &md.split(w))
}
