//! C10 — every exported field type is the field it names.
//!
//! Oracle: big-integer arithmetic modulo the modulus parsed from
//! `PrimeField::MODULUS` (prime fields) and the tower construction written in
//! `vp_alg::model` (extension fields). Conversions use only the canonical
//! encodings, whose endianness is cross-checked against `from_u128` and
//! `from_str_vartime`.

use std::ops::{AddAssign, MulAssign, SubAssign};

use ff::{BatchInvert, PrimeField};
use num_bigint::BigUint;
use num_traits::{One, Zero};
use proptest::prelude::*;
use serde::{Deserialize, Serialize};
use subtle::{ConditionallySelectable, ConstantTimeEq};
use vp_alg::*;
use vpcore::{ensure, CaseResult, Failure, Prop, Verdict};

#[derive(Clone, Debug, Serialize, Deserialize)]
struct OpCase {
    a: Int,
    b: Int,
    c: Int,
    e: Vec<u64>,
}

type DecoderFn<F> = fn(&[u8]) -> Option<F>;
type EncoderFn<F> = fn(&F) -> Vec<u8>;

struct Extras<F: PrimeField> {
    zeta: Option<F>,
    uniform64: Option<fn(&[u8; 64]) -> F>,
    uniform48: Option<fn(&[u8; 48]) -> F>,
    legendre: Option<fn(&F) -> i64>,
    /// checked decoders: (name, fn, endianness, byte length)
    decoders: Vec<(&'static str, DecoderFn<F>, Endian, usize)>,
    /// encoders: (name, fn, endianness)
    encoders: Vec<(&'static str, EncoderFn<F>, Endian)>,
    /// from_raw-like constructors from 4 or 6 little-endian u64 limbs that
    /// document reduction modulo p
    from_raw: Option<fn(&[u64]) -> F>,
    raw_limbs: usize,
    le_bits: Option<fn(&F) -> Vec<bool>>,
    cmp: Option<fn(&F, &F) -> std::cmp::Ordering>,
    /// checked decoders of the *internal* (Montgomery, little-endian limbs)
    /// representation: (name, fn, byte length); and the matching encoder
    raw_decoders: Vec<(&'static str, DecoderFn<F>, usize)>,
    raw_encoder: Option<EncoderFn<F>>,
}

impl<F: PrimeField> Default for Extras<F> {
    fn default() -> Self {
        Extras {
            zeta: None,
            uniform64: None,
            uniform48: None,
            legendre: None,
            decoders: vec![],
            encoders: vec![],
            from_raw: None,
            raw_limbs: 4,
            le_bits: None,
            cmp: None,
            raw_decoders: vec![],
            raw_encoder: None,
        }
    }
}

fn op_strategy(p: BigUint) -> BoxedStrategy<OpCase> {
    (
        operand(p.clone(), vec![]),
        operand(p.clone(), vec![]),
        operand(p, vec![]),
        prop_oneof![
            Just(vec![0u64, 0, 0, 0]),
            Just(vec![1u64, 0, 0, 0]),
            Just(vec![2u64, 0, 0, 0]),
            Just(vec![u64::MAX, u64::MAX, u64::MAX, u64::MAX]),
            proptest::collection::vec(any::<u64>(), 1..=4),
            (0u64..70).prop_map(|x| vec![x]),
        ],
    )
        .prop_map(|(a, b, c, e)| OpCase { a, b, c, e })
        .boxed()
}

fn prime_ops<F>(name: &str, ex: &Extras<F>, z: &Zp, case: &OpCase) -> CaseResult
where
    F: PrimeField
        + ConditionallySelectable
        + ConstantTimeEq
        + for<'a> AddAssign<&'a F>
        + for<'a> SubAssign<&'a F>
        + for<'a> MulAssign<&'a F>
        + std::iter::Sum<F>
        + std::iter::Product<F>,
{
    let sig = |op: &str| format!("{name}:{op}");
    let (a, b, c) = (case.a.big(), case.b.big(), case.c.big());
    let x: F = from_big_checked(&a).ok_or_else(|| {
        Failure::new(sig("from_repr"), format!("from_repr refused canonical value {a}"))
    })?;
    let y: F = from_big_checked(&b)
        .ok_or_else(|| Failure::new(sig("from_repr"), format!("from_repr refused {b}")))?;
    let w: F = from_big_checked(&c)
        .ok_or_else(|| Failure::new(sig("from_repr"), format!("from_repr refused {c}")))?;
    macro_rules! chk {
        ($op:expr, $got:expr, $want:expr) => {{
            let got: BigUint = to_big::<F>(&$got);
            let want: BigUint = $want;
            ensure!(
                got == want,
                sig($op),
                "{} {}: a={a} b={b} c={c} e={:?}: got {got}, model {want}",
                name,
                $op,
                case.e
            );
        }};
    }
    chk!("roundtrip", x, a.clone());
    chk!("add", x + y, z.add(&a, &b));
    chk!("sub", x - y, z.sub(&a, &b));
    chk!("neg", -x, z.neg(&a));
    chk!("mul", x * y, z.mul(&a, &b));
    chk!("square", x.square(), z.mul(&a, &a));
    chk!("double", x.double(), z.add(&a, &a));
    chk!("cube", x.cube(), z.mul(&z.mul(&a, &a), &a));
    // reference operand forms
    chk!("add_ref", x + &y, z.add(&a, &b));
    chk!("sub_ref", x - &y, z.sub(&a, &b));
    chk!("mul_ref", x * &y, z.mul(&a, &b));
    // assign forms
    let mut t = x;
    t += y;
    chk!("add_assign", t, z.add(&a, &b));
    let mut t = x;
    t -= y;
    chk!("sub_assign", t, z.sub(&a, &b));
    let mut t = x;
    t *= y;
    chk!("mul_assign", t, z.mul(&a, &b));
    let mut t = x;
    t += &y;
    chk!("add_assign_ref", t, z.add(&a, &b));
    let mut t = x;
    t -= &y;
    chk!("sub_assign_ref", t, z.sub(&a, &b));
    let mut t = x;
    t *= &y;
    chk!("mul_assign_ref", t, z.mul(&a, &b));
    // self-aliasing forms
    let mut t = x;
    t += x;
    chk!("add_assign_self", t, z.add(&a, &a));
    let mut t = x;
    t *= x;
    chk!("mul_assign_self", t, z.mul(&a, &a));
    let mut t = x;
    t -= x;
    chk!("sub_assign_self", t, BigUint::zero());
    // ring laws on three operands (distributivity catches reduction slips)
    chk!("distrib", (x + y) * w, z.mul(&z.add(&a, &b), &c));
    chk!("mul_add", x * y + w, z.add(&z.mul(&a, &b), &c));
    // sums and products
    chk!(
        "sum",
        [x, y, w, x].into_iter().sum::<F>(),
        z.add(&z.add(&z.add(&a, &b), &c), &a)
    );
    chk!(
        "product",
        [x, y, w].into_iter().product::<F>(),
        z.mul(&z.mul(&a, &b), &c)
    );
    // inversion
    let inv: Option<F> = x.invert().into();
    match (inv, z.inv(&a)) {
        (Some(i), Some(m)) => chk!("invert", i, m),
        (None, None) => {}
        (g, m) => {
            return Err(Failure::new(
                sig("invert"),
                format!("{name} invert a={a}: got is_some={} model is_some={}", g.is_some(), m.is_some()),
            ))
        }
    }
    // batch inversion (zeros are documented to be left untouched)
    let mut v = [x, y, w, x * y];
    let prod_inv = v.iter_mut().batch_invert();
    for (i, (got, orig)) in v.iter().zip([a.clone(), b.clone(), c.clone(), z.mul(&a, &b)]).enumerate() {
        let want = z.inv(&orig).unwrap_or_else(BigUint::zero);
        chk!(&format!("batch_invert[{i}]"), *got, want);
    }
    {
        let nz: Vec<BigUint> = [a.clone(), b.clone(), c.clone(), z.mul(&a, &b)]
            .into_iter()
            .filter(|v| !v.is_zero())
            .collect();
        let prod = nz.iter().fold(BigUint::one(), |acc, v| z.mul(&acc, v));
        chk!("batch_invert.ret", prod_inv, z.inv(&prod).unwrap());
    }
    // exponentiation
    let e = case
        .e
        .iter()
        .rev()
        .fold(BigUint::zero(), |acc, l| (acc << 64) + BigUint::from(*l));
    chk!("pow", x.pow(&case.e), z.pow(&a, &e));
    chk!("pow_vartime", x.pow_vartime(&case.e), z.pow(&a, &e));
    // square roots
    let s: Option<F> = x.sqrt().into();
    match s {
        Some(r) => {
            ensure!(z.is_square(&a), sig("sqrt"), "{name} sqrt({a}) returned a root of a non-residue");
            chk!("sqrt", r.square(), a.clone());
        }
        None => {
            ensure!(!z.is_square(&a), sig("sqrt"), "{name} sqrt({a}) = None but {a} is a square");
        }
    }
    // sqrt_ratio as documented by ff
    {
        let (is_sq, r) = F::sqrt_ratio(&x, &y);
        let is_sq: bool = is_sq.into();
        let r2 = to_big::<F>(&r.square());
        if b.is_zero() {
            if a.is_zero() {
                ensure!(is_sq && r2.is_zero(), sig("sqrt_ratio"), "{name} sqrt_ratio(0,0) = ({is_sq},{r2})");
            } else {
                ensure!(!is_sq && r2.is_zero(), sig("sqrt_ratio"), "{name} sqrt_ratio({a},0) = ({is_sq},{r2})");
            }
        } else {
            let q = z.mul(&a, &z.inv(&b).unwrap());
            if z.is_square(&q) {
                ensure!(is_sq && r2 == q, sig("sqrt_ratio"), "{name} sqrt_ratio({a},{b}): square ratio {q}, got ({is_sq}, r^2={r2})");
            } else {
                let g = to_big::<F>(&F::ROOT_OF_UNITY);
                ensure!(
                    !is_sq && r2 == z.mul(&g, &q),
                    sig("sqrt_ratio"),
                    "{name} sqrt_ratio({a},{b}): non-square ratio, got ({is_sq}, r^2={r2})"
                );
            }
        }
    }
    if let Some(leg) = ex.legendre {
        let want = if a.is_zero() {
            0
        } else if z.is_square(&a) {
            1
        } else {
            -1
        };
        ensure!(leg(&x) == want, sig("legendre"), "{name} legendre({a}) = {} model {want}", leg(&x));
    }
    // predicates
    ensure!(bool::from(x.is_zero()) == a.is_zero(), sig("is_zero"), "{name} is_zero({a})");
    ensure!(x.is_zero_vartime() == a.is_zero(), sig("is_zero_vartime"), "{name} is_zero_vartime({a})");
    ensure!(bool::from(x.is_odd()) == a.bit(0), sig("is_odd"), "{name} is_odd({a})");
    ensure!(bool::from(x.is_even()) == !a.bit(0), sig("is_even"), "{name} is_even({a})");
    ensure!((x == y) == (a == b), sig("eq"), "{name} eq({a},{b})");
    ensure!(bool::from(x.ct_eq(&y)) == (a == b), sig("ct_eq"), "{name} ct_eq({a},{b})");
    chk!("select0", F::conditional_select(&x, &y, 0.into()), a.clone());
    chk!("select1", F::conditional_select(&x, &y, 1.into()), b.clone());
    if let Some(cmp) = ex.cmp {
        ensure!(cmp(&x, &y) == a.cmp(&b), sig("ord"), "{name} cmp({a},{b}) = {:?}", cmp(&x, &y));
    }
    // integer conversions
    let e0 = case.e[0];
    chk!("from_u64", F::from(e0), BigUint::from(e0) % &z.p);
    let e128 = (e0 as u128) | ((*case.e.get(1).unwrap_or(&0) as u128) << 64);
    chk!("from_u128", F::from_u128(e128), BigUint::from(e128) % &z.p);
    match F::from_str_vartime(&a.to_string()) {
        Some(v) => chk!("from_str_vartime", v, a.clone()),
        None => {
            return Err(Failure::new(sig("from_str_vartime"), format!("{name} from_str_vartime({a}) = None")))
        }
    }
    if let Some(fr) = ex.from_raw {
        let mut limbs = case.e.clone();
        limbs.resize(ex.raw_limbs, e0.rotate_left(17));
        let v = limbs
            .iter()
            .rev()
            .fold(BigUint::zero(), |acc, l| (acc << 64) + BigUint::from(*l));
        chk!("from_raw", fr(&limbs), v % &z.p);
    }
    if let Some(bits) = ex.le_bits {
        let got = bits(&x);
        for (i, bit) in got.iter().enumerate() {
            ensure!(*bit == a.bit(i as u64), sig("to_le_bits"), "{name} to_le_bits({a}) bit {i}");
        }
        ensure!(got.len() as u64 >= z.p.bits(), sig("to_le_bits"), "{name} to_le_bits too short");
    }
    // extra encoders / decoders on canonical values
    for (en, f, end) in &ex.encoders {
        let bytes = f(&x);
        let v = match end {
            Endian::Little => BigUint::from_bytes_le(&bytes),
            Endian::Big => BigUint::from_bytes_be(&bytes),
        };
        ensure!(v == a, sig(en), "{name} {en}({a}) encodes {v}");
    }
    for (dn, f, end, len) in &ex.decoders {
        let mut bytes = a.to_bytes_le();
        bytes.resize(*len, 0);
        if *end == Endian::Big {
            bytes.reverse();
        }
        match f(&bytes) {
            Some(v) => chk!(dn, v, a.clone()),
            None => return Err(Failure::new(sig(dn), format!("{name} {dn} refused canonical {a}"))),
        }
    }
    if let Some(zeta) = ex.zeta {
        // multiplication by zeta is an order-3 automorphism of the group
        chk!("zeta_mul3", x * zeta * zeta * zeta, a.clone());
    }
    let nt = is_boundary(&case.a) || is_boundary(&case.b) || (&a + &b) >= z.p || (&a * &b) >= z.p;
    Ok(Verdict::of(nt, format!("{}/{}", case.a.class, case.b.class)).with(name.to_string()))
}

#[derive(Clone, Debug, Serialize, Deserialize)]
struct DecodeCase {
    value: Int, // integer to encode, possibly >= p
}

fn decode_strategy(p: BigUint, nbytes: usize) -> BoxedStrategy<DecodeCase> {
    let top = (BigUint::one() << (8 * nbytes)) - 1u32;
    let p1 = p.clone();
    let p2 = p.clone();
    let p3 = p.clone();
    let top2 = top.clone();
    prop_oneof![
        (0u64..300).prop_map(move |d| DecodeCase {
            value: Int::of("p+d", &((&p1 + d).min(top2.clone())))
        }),
        (1u64..300).prop_map(move |d| DecodeCase {
            value: Int::of("p-d", &(&p2 - d))
        }),
        Just(DecodeCase {
            value: Int::of("max", &top)
        }),
        proptest::collection::vec(any::<u8>(), nbytes).prop_map(|b| DecodeCase {
            value: Int::of("random-bytes", &BigUint::from_bytes_le(&b))
        }),
        // only the top byte / top limb set
        (any::<u8>(), 0..nbytes).prop_map(move |(v, pos)| {
            let mut b = vec![0u8; nbytes];
            b[pos] = v;
            DecodeCase {
                value: Int::of("single-byte", &BigUint::from_bytes_le(&b)),
            }
        }),
        // multiples of p that fit
        (2u64..6).prop_map(move |k| {
            let v = &p3 * k;
            let v = if v.bits() as usize > 8 * nbytes { p3.clone() } else { v };
            DecodeCase {
                value: Int::of("k*p", &v),
            }
        }),
    ]
    .boxed()
}

fn decode_check<F: PrimeField>(name: &str, ex: &Extras<F>, z: &Zp, case: &DecodeCase) -> CaseResult {
    let v = case.value.big();
    let canonical = v < z.p;
    let sig = |op: &str| format!("{name}:decode:{op}");
    // from_repr
    if let Some(bytes) = big_to_repr_bytes::<F>(&v) {
        let mut r = F::Repr::default();
        r.as_mut().copy_from_slice(&bytes);
        let got: Option<F> = F::from_repr(r).into();
        ensure!(
            got.is_some() == canonical,
            sig("from_repr"),
            "{name} from_repr({v}) accepted={} canonical={canonical}",
            got.is_some()
        );
        if let Some(g) = got {
            ensure!(to_big::<F>(&g) == v, sig("from_repr"), "{name} from_repr({v}) decoded another value");
            ensure!(g.to_repr().as_ref() == &bytes[..], sig("to_repr"), "{name} to_repr(from_repr(b)) != b");
        }
        let got_vt = F::from_repr_vartime(r);
        ensure!(
            got_vt.is_some() == canonical,
            sig("from_repr_vartime"),
            "{name} from_repr_vartime({v}) accepted={}",
            got_vt.is_some()
        );
    }
    for (dn, f, end, len) in &ex.decoders {
        let mut bytes = v.to_bytes_le();
        if bytes.len() > *len {
            continue;
        }
        bytes.resize(*len, 0);
        if *end == Endian::Big {
            bytes.reverse();
        }
        let got = vpcore::catch(|| f(&bytes)).map_err(|p| {
            Failure::new(sig(&format!("{dn}:panic")), format!("{name} {dn}({v}) panicked: {p}"))
        })?;
        ensure!(
            got.is_some() == canonical,
            sig(dn),
            "{name} {dn}({v}) accepted={} canonical={canonical}",
            got.is_some()
        );
        if let Some(g) = got {
            ensure!(to_big::<F>(&g) == v, sig(dn), "{name} {dn}({v}) decoded another value");
        }
    }
    // internal-representation decoders: the bytes are the little-endian limbs of
    // x*R mod p (R = 2^(8*len)); valid iff the integer is < p
    for (dn, f, len) in &ex.raw_decoders {
        let mut bytes = v.to_bytes_le();
        if bytes.len() > *len {
            continue;
        }
        bytes.resize(*len, 0);
        let got = vpcore::catch(|| f(&bytes)).map_err(|p| {
            Failure::new(sig(&format!("{dn}:panic")), format!("{name} {dn}({v}) panicked: {p}"))
        })?;
        ensure!(
            got.is_some() == canonical,
            sig(dn),
            "{name} {dn}(internal repr {v}) accepted={} but value<modulus={canonical}",
            got.is_some()
        );
        if let Some(g) = got {
            let r = (BigUint::one() << (8 * *len)) % &z.p;
            let want = z.mul(&v, &z.inv(&r).unwrap());
            ensure!(to_big::<F>(&g) == want, sig(dn), "{name} {dn}({v}) decoded another value");
            if let Some(enc) = ex.raw_encoder {
                ensure!(enc(&g) == bytes, sig("to_raw_bytes"), "{name} to_raw_bytes(from_raw_bytes(b)) != b");
            }
        }
    }
    Ok(Verdict::of(!canonical || &v + 300u32 >= z.p, case.value.class.clone()).with(name.to_string()))
}

#[derive(Clone, Debug, Serialize, Deserialize)]
struct UniformCase {
    class: String,
    #[serde(with = "hexbytes")]
    bytes: Vec<u8>,
}

fn uniform_strategy(p: BigUint) -> BoxedStrategy<UniformCase> {
    let mk = |class: &str, mut b: Vec<u8>| {
        b.resize(64, 0);
        UniformCase {
            class: class.into(),
            bytes: b,
        }
    };
    let p1 = p.clone();
    let p2 = p.clone();
    prop_oneof![
        Just(mk("zero", vec![])),
        Just(mk("all-ff", vec![0xff; 64])),
        proptest::collection::vec(any::<u8>(), 32).prop_map(move |b| mk("low-half", b)),
        proptest::collection::vec(any::<u8>(), 32).prop_map(move |b| {
            let mut v = vec![0u8; 32];
            v.extend(b);
            mk("high-half", v)
        }),
        proptest::collection::vec(any::<u8>(), 64).prop_map(move |b| mk("random", b)),
        (1u64..1000, 0i64..3).prop_map(move |(k, d)| {
            let v = &p1 * k + BigUint::from(d as u64);
            mk("k*p+d", v.to_bytes_le())
        }),
        (1u64..1000, 1u64..3).prop_map(move |(k, d)| {
            let v = &p2 * k - d;
            mk("k*p-d", v.to_bytes_le())
        }),
        (0usize..64, any::<u8>()).prop_map(move |(pos, v)| {
            let mut b = vec![0xffu8; 64];
            b[pos] = v;
            mk("ff-but-one", b)
        }),
        (0usize..64, any::<u8>()).prop_map(move |(pos, v)| {
            let mut b = vec![0u8; 64];
            b[pos] = v;
            mk("single-byte", b)
        }),
    ]
    .boxed()
}

fn uniform_check<F: PrimeField>(name: &str, ex: &Extras<F>, z: &Zp, case: &UniformCase) -> CaseResult {
    let sig = |op: &str| format!("{name}:{op}");
    let mut nt = false;
    if let Some(f) = ex.uniform64 {
        let mut b = [0u8; 64];
        b.copy_from_slice(&case.bytes);
        let want = BigUint::from_bytes_le(&b) % &z.p;
        let got = to_big::<F>(&f(&b));
        ensure!(got == want, sig("from_uniform_bytes64"), "{name} from_uniform_bytes({}) = {got}, model {want}", hex::encode(b));
        nt = true;
    }
    if let Some(f) = ex.uniform48 {
        let mut b = [0u8; 48];
        b.copy_from_slice(&case.bytes[..48]);
        let want = BigUint::from_bytes_le(&b) % &z.p;
        let got = to_big::<F>(&f(&b));
        ensure!(got == want, sig("from_uniform_bytes48"), "{name} from_uniform_bytes48({}) = {got}, model {want}", hex::encode(b));
        nt = true;
    }
    Ok(Verdict::of(nt && case.class != "zero", case.class.clone()).with(name.to_string()))
}

/// Published constants against their defining equations (ff::PrimeField docs).
fn constants<F: PrimeField>(name: &str, ex: &Extras<F>, z: &Zp, which: &str) -> CaseResult {
    let p = &z.p;
    let sig = |c: &str| format!("{name}:const:{c}");
    let one = BigUint::one();
    let s = F::S;
    let t = (p - 1u32) >> s;
    let g = to_big::<F>(&F::MULTIPLICATIVE_GENERATOR);
    match which {
        "MODULUS" => {
            ensure!(to_big::<F>(&(-F::ONE)) + 1u32 == *p, sig("MODULUS"), "{name}: -1 + 1 != MODULUS");
            // primality (Miller-Rabin with fixed bases; the modulus must be prime for a field)
            ensure!(is_probable_prime(p), sig("MODULUS"), "{name}: MODULUS is not prime");
        }
        "NUM_BITS" => {
            ensure!(F::NUM_BITS as u64 == p.bits(), sig("NUM_BITS"), "{name}: NUM_BITS {} != {}", F::NUM_BITS, p.bits());
            ensure!(F::CAPACITY == F::NUM_BITS - 1, sig("CAPACITY"), "{name}: CAPACITY {}", F::CAPACITY);
        }
        "TWO_INV" => {
            ensure!(z.mul(&to_big::<F>(&F::TWO_INV), &BigUint::from(2u32)) == one, sig("TWO_INV"), "{name}: 2*TWO_INV != 1");
        }
        "S" => {
            ensure!(((p - 1u32) % (&one << s)).is_zero(), sig("S"), "{name}: 2^S does not divide p-1");
            ensure!(t.bit(0), sig("S"), "{name}: (p-1)/2^S is even");
        }
        "GENERATOR" => {
            // generator: non-residue is necessary; full order is checked against
            // the small prime factors of p-1 found by trial division (< 2^20)
            ensure!(!z.is_square(&g), sig("GENERATOR"), "{name}: MULTIPLICATIVE_GENERATOR is a square");
            let mut m = p - 1u32;
            let mut q = 2u32;
            while q < (1 << 20) {
                if (&m % q).is_zero() {
                    let e = (p - 1u32) / q;
                    ensure!(!z.pow(&g, &e).is_one(), sig("GENERATOR"), "{name}: g^((p-1)/{q}) = 1");
                    while (&m % q).is_zero() {
                        m /= q;
                    }
                }
                q += 1;
            }
        }
        "ROOT_OF_UNITY" => {
            ensure!(s >= 1, sig("ROOT_OF_UNITY"), "{name}: S = 0 for an odd modulus");
            let r = to_big::<F>(&F::ROOT_OF_UNITY);
            ensure!(r == z.pow(&g, &t), sig("ROOT_OF_UNITY"), "{name}: ROOT_OF_UNITY != g^t");
            ensure!(z.pow(&r, &(&one << s)).is_one(), sig("ROOT_OF_UNITY"), "{name}: ROOT^(2^S) != 1");
            ensure!(!z.pow(&r, &(&one << (s - 1))).is_one(), sig("ROOT_OF_UNITY"), "{name}: ROOT^(2^(S-1)) == 1");
            let ri = to_big::<F>(&F::ROOT_OF_UNITY_INV);
            ensure!(z.mul(&r, &ri).is_one(), sig("ROOT_OF_UNITY_INV"), "{name}: ROOT*ROOT_INV != 1");
        }
        "DELTA" => {
            let d = to_big::<F>(&F::DELTA);
            ensure!(d == z.pow(&g, &(&one << s)), sig("DELTA"), "{name}: DELTA != g^(2^S)");
        }
        "ZETA" => {
            if let Some(zeta) = ex.zeta {
                let zt = to_big::<F>(&zeta);
                ensure!(!zt.is_one(), sig("ZETA"), "{name}: ZETA == 1");
                ensure!(z.pow(&zt, &BigUint::from(3u32)).is_one(), sig("ZETA"), "{name}: ZETA^3 != 1");
            } else {
                return Ok(Verdict::trivial("no-zeta"));
            }
        }
        "ZERO_ONE" => {
            ensure!(to_big::<F>(&F::ZERO).is_zero(), sig("ZERO"), "{name}: ZERO");
            ensure!(to_big::<F>(&F::ONE).is_one(), sig("ONE"), "{name}: ONE");
            ensure!(F::default() == F::ZERO, sig("default"), "{name}: default != 0");
        }
        _ => unreachable!(),
    }
    Ok(Verdict::nontrivial(format!("{name}:{which}")))
}

fn is_probable_prime(n: &BigUint) -> bool {
    let one = BigUint::one();
    let two = BigUint::from(2u32);
    if *n < two {
        return false;
    }
    let nm1 = n - 1u32;
    let s = nm1.trailing_zeros().unwrap_or(0);
    let d = &nm1 >> s;
    'outer: for a in [2u32, 3, 5, 7, 11, 13, 17, 19, 23, 29, 31, 37, 41, 43, 47, 53] {
        let a = BigUint::from(a);
        if &a % n == BigUint::zero() {
            continue;
        }
        let mut x = a.modpow(&d, n);
        if x == one || x == nm1 {
            continue;
        }
        for _ in 0..s {
            x = x.modpow(&two, n);
            if x == nm1 {
                continue 'outer;
            }
        }
        return false;
    }
    true
}

fn prime_suite<F>(p: &Prop, name: &'static str, ex: Extras<F>)
where
    F: PrimeField
        + ConditionallySelectable
        + ConstantTimeEq
        + for<'a> AddAssign<&'a F>
        + for<'a> SubAssign<&'a F>
        + for<'a> MulAssign<&'a F>
        + std::iter::Sum<F>
        + std::iter::Product<F>,
{
    let z = Zp::new(modulus::<F>());
    let n_ops = p.tier.pick(24_000, 800_000);
    p.sub(
        &format!("{name}.ops"),
        "operands from boundary classes {0,1,2,p-1,p-2,(p±1)/2,2^64k±1,R,R^2,R^3,ones,small,p-small} or uniform; every unary/binary/assign/batch op against Z_p big-integer arithmetic; non-trivial = an operand is a boundary class or a+b / a*b wraps the modulus; distinct by case digest",
        n_ops,
        16,
        || op_strategy(modulus::<F>()),
        |c| prime_ops::<F>(name, &ex, &z, c),
    );
    let nb = repr_len::<F>();
    p.sub(
        &format!("{name}.decode"),
        "integers at and around the modulus (p±d, k*p, max, single byte, random) fed to every checked decoder: accepted iff < p and decoded value equal; non-trivial = non-canonical or within 300 of p",
        p.tier.pick(12_000, 400_000),
        8,
        || decode_strategy(modulus::<F>(), nb),
        |c| decode_check::<F>(name, &ex, &z, c),
    );
    if ex.uniform64.is_some() || ex.uniform48.is_some() {
        p.sub(
            &format!("{name}.uniform"),
            "64-byte patterns (zero, all-ff, low/high half only, around multiples of p, one byte set/cleared, random) reduced by from_uniform_bytes vs integer mod p; non-trivial = not all-zero",
            p.tier.pick(12_000, 400_000),
            8,
            || uniform_strategy(modulus::<F>()),
            |c| uniform_check::<F>(name, &ex, &z, c),
        );
    }
    let names: Vec<String> = [
        "MODULUS", "NUM_BITS", "TWO_INV", "S", "GENERATOR", "ROOT_OF_UNITY", "DELTA", "ZETA", "ZERO_ONE",
    ]
    .iter()
    .map(|s| s.to_string())
    .collect();
    p.enumerate(
        &format!("{name}.constants"),
        "each published constant against its defining equation (ff::PrimeField documentation)",
        names,
        4,
        true,
        |c| constants::<F>(name, &ex, &z, c),
    );
}

#[path = "../c10_towers_impl.rs"]
mod towers;

fn main() {
    vpcore::main("C10", "exploration", (900, 7200), |p| {
        use ff::{FromUniformBytes, PrimeFieldBits, WithSmallOrderMulGroup};
        use midnight_curves::ff_ext::Legendre;
        use midnight_curves::serde::SerdeObject;
        p.assume("big-integer model (num-bigint) and the decimal/hex parsers are correct");
        p.assume("conversion between library values and integers uses to_repr/from_repr; their endianness is detected from ONE and cross-checked by from_u128/from_str_vartime");

        // --- BLS12-381 scalar field
        {
            use midnight_curves::Fq;
            let ex = Extras::<Fq> {
                zeta: Some(<Fq as WithSmallOrderMulGroup<3>>::ZETA),
                uniform64: Some(|b| <Fq as FromUniformBytes<64>>::from_uniform_bytes(b)),
                legendre: Some(|x| x.legendre()),
                decoders: vec![
                    ("from_bytes_le", |b| Fq::from_bytes_le(b.try_into().unwrap()).into(), Endian::Little, 32),
                    ("from_bytes_be", |b| Fq::from_bytes_be(b.try_into().unwrap()).into(), Endian::Big, 32),
                    (
                        "from_u64s_le",
                        |b| {
                            let l: Vec<u64> = b.chunks(8).map(|c| u64::from_le_bytes(c.try_into().unwrap())).collect();
                            Fq::from_u64s_le(&[l[0], l[1], l[2], l[3]]).into()
                        },
                        Endian::Little,
                        32,
                    ),
                ],
                encoders: vec![
                    ("to_bytes_le", |x| x.to_bytes_le().to_vec(), Endian::Little),
                    ("to_bytes_be", |x| x.to_bytes_be().to_vec(), Endian::Big),
                ],
                from_raw: Some(|l| Fq::from_raw([l[0], l[1], l[2], l[3]])),
                le_bits: Some(|x| x.to_le_bits().into_iter().collect()),
                raw_decoders: vec![
                    ("from_raw_bytes", |b| <Fq as SerdeObject>::from_raw_bytes(b), 32),
                    ("read_raw", |b| <Fq as SerdeObject>::read_raw(&mut &b[..]).ok(), 32),
                ],
                raw_encoder: Some(|x| x.to_raw_bytes()),
                ..Default::default()
            };
            prime_suite::<Fq>(p, "bls12_381::Fq", ex);
        }
        // --- BLS12-381 base field
        {
            use midnight_curves::Fp;
            let ex = Extras::<Fp> {
                zeta: Some(<Fp as WithSmallOrderMulGroup<3>>::ZETA),
                legendre: Some(|x| x.legendre()),
                decoders: vec![
                    ("from_bytes_le", |b| Fp::from_bytes_le(b.try_into().unwrap()).into(), Endian::Little, 48),
                    ("from_bytes_be", |b| Fp::from_bytes_be(b.try_into().unwrap()).into(), Endian::Big, 48),
                    (
                        "from_u64s_le",
                        |b| {
                            let l: Vec<u64> = b.chunks(8).map(|c| u64::from_le_bytes(c.try_into().unwrap())).collect();
                            Fp::from_u64s_le(&[l[0], l[1], l[2], l[3], l[4], l[5]]).into()
                        },
                        Endian::Little,
                        48,
                    ),
                ],
                encoders: vec![
                    ("to_bytes_le", |x| x.to_bytes_le().to_vec(), Endian::Little),
                    ("to_bytes_be", |x| x.to_bytes_be().to_vec(), Endian::Big),
                ],
                le_bits: Some(|x| x.to_le_bits().into_iter().collect()),
                raw_decoders: vec![
                    ("from_raw_bytes", |b| <Fp as SerdeObject>::from_raw_bytes(b), 48),
                    ("read_raw", |b| <Fp as SerdeObject>::read_raw(&mut &b[..]).ok(), 48),
                ],
                raw_encoder: Some(|x| x.to_raw_bytes()),
                ..Default::default()
            };
            prime_suite::<Fp>(p, "bls12_381::Fp", ex);
        }
        // --- Jubjub scalar field
        {
            use midnight_curves::Fr;
            let ex = Extras::<Fr> {
                uniform64: Some(|b| Fr::from_bytes_wide(b)),
                decoders: vec![("from_bytes", |b| Fr::from_bytes(b.try_into().unwrap()).into(), Endian::Little, 32)],
                encoders: vec![("to_bytes", |x| x.to_bytes().to_vec(), Endian::Little)],
                from_raw: Some(|l| Fr::from_raw([l[0], l[1], l[2], l[3]])),
                ..Default::default()
            };
            prime_suite::<Fr>(p, "jubjub::Fr", ex);
        }
        // --- secp256k1
        {
            use midnight_curves::k256::{Fp, Fq};
            prime_suite::<Fp>(p, "k256::Fp", Extras::default());
            prime_suite::<Fq>(p, "k256::Fq", Extras::default());
        }
        // --- Curve25519
        {
            use midnight_curves::curve25519::{Fp, Scalar};
            let ex = Extras::<Fp> {
                uniform64: Some(|b| <Fp as FromUniformBytes<64>>::from_uniform_bytes(b)),
                uniform48: Some(|b| <Fp as FromUniformBytes<48>>::from_uniform_bytes(b)),
                decoders: vec![("from_bytes", |b| Fp::from_bytes(b.try_into().unwrap()).into(), Endian::Little, 32)],
                encoders: vec![("to_bytes", |x| x.to_bytes().to_vec(), Endian::Little)],
                zeta: None,
                raw_decoders: vec![
                    ("from_raw_bytes", |b| <Fp as SerdeObject>::from_raw_bytes(b), 32),
                    ("read_raw", |b| <Fp as SerdeObject>::read_raw(&mut &b[..]).ok(), 32),
                ],
                raw_encoder: Some(|x| x.to_raw_bytes()),
                ..Default::default()
            };
            prime_suite::<Fp>(p, "curve25519::Fp", ex);
            prime_suite::<Scalar>(p, "curve25519::Scalar", Extras::default());
        }
        // --- BN254 (dev curve)
        {
            use midnight_curves::bn256::{Fq, Fr};
            let ex = Extras::<Fq> {
                zeta: Some(<Fq as WithSmallOrderMulGroup<3>>::ZETA),
                uniform64: Some(|b| <Fq as FromUniformBytes<64>>::from_uniform_bytes(b)),
                uniform48: Some(|b| <Fq as FromUniformBytes<48>>::from_uniform_bytes(b)),
                legendre: Some(|x| x.legendre()),
                raw_decoders: vec![
                    ("from_raw_bytes", |b| <Fq as SerdeObject>::from_raw_bytes(b), 32),
                    ("read_raw", |b| <Fq as SerdeObject>::read_raw(&mut &b[..]).ok(), 32),
                ],
                raw_encoder: Some(|x| x.to_raw_bytes()),
                ..Default::default()
            };
            prime_suite::<Fq>(p, "bn256::Fq", ex);
            let ex = Extras::<Fr> {
                zeta: Some(<Fr as WithSmallOrderMulGroup<3>>::ZETA),
                uniform64: Some(|b| <Fr as FromUniformBytes<64>>::from_uniform_bytes(b)),
                uniform48: Some(|b| <Fr as FromUniformBytes<48>>::from_uniform_bytes(b)),
                legendre: Some(|x| x.legendre()),
                raw_decoders: vec![
                    ("from_raw_bytes", |b| <Fr as SerdeObject>::from_raw_bytes(b), 32),
                    ("read_raw", |b| <Fr as SerdeObject>::read_raw(&mut &b[..]).ok(), 32),
                ],
                raw_encoder: Some(|x| x.to_raw_bytes()),
                ..Default::default()
            };
            prime_suite::<Fr>(p, "bn256::Fr", ex);
        }
        towers::run(p);
    });
}
