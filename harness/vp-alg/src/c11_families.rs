// Included by bin/c11.rs: family-specific checks that do not fit the
// Weierstrass macro, and the Jubjub / secp256k1 / Curve25519 families.

fn bls_g1_more(c: &Ctx<BlsG1>) -> Result<(), Failure> {
    let m = BlsG1::model();
    let insub = in_subgroup::<BlsG1>(&c.mp);
    ensure!(bool::from(c.pa.is_torsion_free()) == insub, "G1Affine:is_torsion_free", "is_torsion_free({:?}) != {insub}", c.mp);
    let mut t = c.pa;
    t *= c.s;
    achk!(BlsG1, "mul_assign:scalar", t, m.mul(&c.mp, &c.kb));
    let mut t = c.pa;
    t *= &c.s;
    achk!(BlsG1, "mul_assign:&scalar", t, m.mul(&c.mp, &c.kb));
    // raw coordinates are Jacobian
    let (x, y, z) = (to_big(&c.p.x()), to_big(&c.p.y()), to_big(&c.p.z()));
    if let Some((ax, ay)) = m.xy(&c.mp) {
        let f = m.fm();
        let zi = f.inv(&z).ok_or_else(|| Failure::new("G1Projective:xyz", "z = 0 for a non-identity point"))?;
        ensure!(f.mul(&x, &f.mul(&zi, &zi)) == ax && f.mul(&y, &f.mul(&f.mul(&zi, &zi), &zi)) == ay, "G1Projective:xyz", "x(),y(),z() are not Jacobian coordinates of {:?}", c.mp);
    } else {
        ensure!(z.is_zero(), "G1Projective:xyz", "z() != 0 for the identity");
    }
    Ok(())
}

fn bls_g2_more(c: &Ctx<BlsG2>) -> Result<(), Failure> {
    let m = BlsG2::model();
    let insub = in_subgroup::<BlsG2>(&c.mp);
    ensure!(bool::from(c.pa.is_torsion_free()) == insub, "G2Affine:is_torsion_free", "is_torsion_free({:?}) != {insub}", c.mp);
    let mut t = c.pa;
    t *= c.s;
    achk!(BlsG2, "mul_assign:scalar", t, m.mul(&c.mp, &c.kb));
    gchk!(BlsG2, "add_mixed", c.p.add_mixed(&c.qa), m.add(&c.mp, &c.mq));
    let (x, y, z) = (bls_fp2_m(&c.p.x()), bls_fp2_m(&c.p.y()), bls_fp2_m(&c.p.z()));
    let f = m.fm();
    if let Some((ax, ay)) = m.xy(&c.mp) {
        let zi = f.inv(&z).ok_or_else(|| Failure::new("G2Projective:xyz", "z = 0 for a non-identity point"))?;
        let zi2 = f.mul(&zi, &zi);
        ensure!(f.mul(&x, &zi2) == ax && f.mul(&y, &f.mul(&zi2, &zi)) == ay, "G2Projective:xyz", "x(),y(),z() are not Jacobian coordinates of {:?}", c.mp);
    } else {
        ensure!(f.is_zero(&z), "G2Projective:xyz", "z() != 0 for the identity");
    }
    Ok(())
}

/// BN254: public homogeneous coordinates, reference forms of affine+affine,
/// CofactorGroup.
macro_rules! bn_more {
    ($name:ident, $F:ty, $G:ty, $A:ty, $to_base:expr, $g2:expr) => {
        fn $name(c: &Ctx<$F>) -> Result<(), Failure> {
            type F = $F;
            type GG = $G;
            let m = F::model();
            let (pa, qa) = (c.pa, c.qa);
            let add = m.add(&c.mp, &c.mq);
            let sub = m.sub(&c.mp, &c.mq);
            gchk!(F, "add:&affine+&affine", &pa + &qa, add.clone());
            gchk!(F, "add:affine+&affine", pa + &qa, add.clone());
            gchk!(F, "add:&affine+affine", &pa + qa, add.clone());
            gchk!(F, "sub:&affine-&affine", &pa - &qa, sub.clone());
            gchk!(F, "sub:affine-&affine", pa - &qa, sub.clone());
            gchk!(F, "sub:&affine-affine", &pa - qa, sub.clone());
            // the point in homogeneous coordinates (l x, l y, l)
            let l = m.fm().random(&mut SplitMix(c.kb.iter_u64_digits().next().unwrap_or(7) ^ 0x51));
            if !m.fm().is_zero(&l) {
                let lb = ($to_base)(&l);
                let h = match m.xy(&c.mp) {
                    Some(_) => GG { x: pa.x * lb, y: pa.y * lb, z: lb },
                    None => GG { x: <$G>::identity().x, y: lb, z: <$G>::identity().z },
                };
                gchk!(F, "to_affine:homogeneous", h, c.mp.clone());
                ensure!(h == c.p && c.p == h, format!("{}:eq", F::GN), "scaled homogeneous representation of {:?} != P", c.mp);
                ensure!(bool::from(h.ct_eq(&c.p)) && bool::from(c.p2.ct_eq(&h)), format!("{}:ct_eq:diff-z", F::GN), "ct_eq false on scaled homogeneous representation of {:?}", c.mp);
                ensure!(bool::from(CurveExt::is_on_curve(&h)), format!("{}:is_on_curve", F::GN), "is_on_curve false on scaled representation");
                gchk!(F, "add:homogeneous", h + c.q, add.clone());
                gchk!(F, "double:homogeneous", h.double(), m.double(&c.mp));
            }
            // raw (internal representation) round trip of the projective type
            let raw = c.p.to_raw_bytes();
            let back = <$G as SerdeObject>::from_raw_bytes(&raw).ok_or_else(|| Failure::new(format!("{}:from_raw_bytes:roundtrip", F::GN), format!("from_raw_bytes(to_raw_bytes(P)) = None, P={:?}", c.mp)))?;
            gchk!(F, "from_raw_bytes:roundtrip", back, c.mp.clone());
            gchk!(F, "from_raw_bytes_unchecked:roundtrip", <$G as SerdeObject>::from_raw_bytes_unchecked(&raw), c.mp.clone());
            let back = <$G as SerdeObject>::read_raw(&mut &raw[..]).map_err(|e| Failure::new(format!("{}:read_raw:roundtrip", F::GN), format!("read_raw(to_raw_bytes(P)) = {e}")))?;
            gchk!(F, "read_raw:roundtrip", back, c.mp.clone());
            // CofactorGroup
            let insub = in_subgroup::<F>(&c.mp);
            ensure!(bool::from(CofactorGroup::is_torsion_free(&c.p)) == insub, format!("{}:is_torsion_free", F::GN), "is_torsion_free({:?}) != {insub}", c.mp);
            let cc = gm::<F>("clear_cofactor", &CofactorGroup::clear_cofactor(&c.p))?;
            ensure!(m.on_curve(&cc) && in_subgroup::<F>(&cc), format!("{}:clear_cofactor", F::GN), "clear_cofactor({:?}) = {cc:?} not in the subgroup", c.mp);
            if !$g2 {
                ensure!(cc == c.mp, format!("{}:clear_cofactor", F::GN), "clear_cofactor on a prime-order curve is not the identity map");
                let s: Option<$G> = CofactorGroup::into_subgroup(c.p).into();
                ensure!(s.is_some(), format!("{}:into_subgroup", F::GN), "into_subgroup = None on a prime-order curve");
            }
            Ok(())
        }
    };
}
bn_more!(bn_g1_more, BnG1, bn256::G1, bn256::G1Affine, |x: &BigUint| from_big::<bn256::Fq>(x), false);
bn_more!(bn_g2_more, BnG2, bn256::G2, bn256::G2Affine, bn_fq2, true);


// ---------------------------------------------------------------------------
// Jubjub

use midnight_curves::{ExtendedNielsPoint, Fr as JubFr, JubjubAffine, JubjubAffineNiels, JubjubExtended, JubjubSubgroup};

struct Jub;
impl Fam for Jub {
    type M = Edwards;
    type G = JubjubExtended;
    type A = JubjubAffine;
    const NAME: &'static str = "jubjub";
    const GN: &'static str = "JubjubExtended";
    const AN: &'static str = "JubjubAffine";
    const COFACTOR: bool = true;
    const COORD_BITS: u64 = 255;
    fam_statics!(
        Edwards,
        {
            // a = -1, d = -(10240/10241)
            let f = Zp::new(modulus::<midnight_curves::Fq>());
            let d = f.neg(&f.mul(&BigUint::from(10240u32), &f.inv(&BigUint::from(10241u32)).unwrap()));
            Edwards { a: f.neg(&BigUint::one()), d, f }
        },
        modulus::<JubFr>(),
        3,
        8
    );
    fn sub_generator() -> Self::G {
        <JubjubSubgroup as Group>::generator().into()
    }
    fn a_to_m(a: &Self::A) -> EPoint {
        (to_big(&a.get_u()), to_big(&a.get_v()))
    }
    fn m_to_a(p: &EPoint) -> Self::A {
        JubjubAffine::from_raw_unchecked(from_big(&p.0), from_big(&p.1))
    }
    fn g_ct_eq(a: &Self::G, b: &Self::G) -> Choice {
        a.ct_eq(b)
    }
    fn a_ct_eq(a: &Self::A, b: &Self::A) -> Choice {
        a.ct_eq(b)
    }
}

fn jub_sub(p: &EPoint) -> JubjubSubgroup {
    JubjubSubgroup::from_raw_unchecked(from_big(&p.0), from_big(&p.1))
}

macro_rules! schk {
    ($op:expr, $got:expr, $want:expr) => {{
        let e: JubjubExtended = $got.into();
        let got = gm::<Jub>($op, &e)?;
        let want = $want;
        ensure!(got == want, format!("JubjubSubgroup:{}", $op), "JubjubSubgroup {}: got {:?}, model {:?}", $op, got, want);
    }};
}

fn jub_extras(c: &Ctx<Jub>) -> Result<(), Failure> {
    type F = Jub;
    let m = Jub::model();
    let (p, q, pa, qa) = (c.p, c.q, c.pa, c.qa);
    let add = m.add(&c.mp, &c.mq);
    let sub = m.sub(&c.mp, &c.mq);
    gchk!(F, "add:&proj+&proj", &p + &q, add.clone());
    gchk!(F, "add:&proj+proj", &p + q, add.clone());
    gchk!(F, "sub:&proj-&proj", &p - &q, sub.clone());
    gchk!(F, "sub:&proj-proj", &p - q, sub.clone());
    gchk!(F, "add:&proj+&affine", &p + &qa, add.clone());
    gchk!(F, "add:&proj+affine", &p + qa, add.clone());
    gchk!(F, "sub:&proj-&affine", &p - &qa, sub.clone());
    gchk!(F, "sub:&proj-affine", &p - qa, sub.clone());
    gchk!(F, "add:affine+affine", pa + qa, add.clone());
    gchk!(F, "add:&affine+&affine", &pa + &qa, add.clone());
    gchk!(F, "add:affine+&affine", pa + &qa, add.clone());
    gchk!(F, "add:&affine+affine", &pa + qa, add.clone());
    gchk!(F, "sub:affine-affine", pa - qa, sub.clone());
    gchk!(F, "sub:&affine-&affine", &pa - &qa, sub.clone());
    gchk!(F, "sub:affine-&affine", pa - &qa, sub.clone());
    gchk!(F, "sub:&affine-affine", &pa - qa, sub.clone());
    achk!(F, "neg", -pa, m.neg(&c.mp));
    gchk!(F, "to_extended", pa.to_extended(), c.mp.clone());
    gchk!(F, "double:inherent", JubjubExtended::double(&p), m.double(&c.mp));
    // Niels forms
    let qn: JubjubAffineNiels = qa.to_niels();
    let qe: ExtendedNielsPoint = q.to_niels();
    gchk!(F, "add:proj+affine_niels", p + qn, add.clone());
    gchk!(F, "add:&proj+&affine_niels", &p + &qn, add.clone());
    gchk!(F, "add:proj+&affine_niels", p + &qn, add.clone());
    gchk!(F, "add:&proj+affine_niels", &p + qn, add.clone());
    gchk!(F, "sub:proj-affine_niels", p - qn, sub.clone());
    gchk!(F, "sub:&proj-&affine_niels", &p - &qn, sub.clone());
    gchk!(F, "sub:proj-&affine_niels", p - &qn, sub.clone());
    gchk!(F, "sub:&proj-affine_niels", &p - qn, sub.clone());
    gchk!(F, "add:proj+extended_niels", p + qe, add.clone());
    gchk!(F, "add:&proj+&extended_niels", &p + &qe, add.clone());
    gchk!(F, "add:proj+&extended_niels", p + &qe, add.clone());
    gchk!(F, "add:&proj+extended_niels", &p + qe, add.clone());
    gchk!(F, "sub:proj-extended_niels", p - qe, sub.clone());
    gchk!(F, "sub:&proj-&extended_niels", &p - &qe, sub.clone());
    gchk!(F, "sub:proj-&extended_niels", p - &qe, sub.clone());
    gchk!(F, "sub:&proj-extended_niels", &p - qe, sub.clone());
    let mut t = p;
    t += qn;
    gchk!(F, "add_assign:affine_niels", t, add.clone());
    t = p;
    t += &qn;
    gchk!(F, "add_assign:&affine_niels", t, add.clone());
    t = p;
    t -= qn;
    gchk!(F, "sub_assign:affine_niels", t, sub.clone());
    t = p;
    t -= &qn;
    gchk!(F, "sub_assign:&affine_niels", t, sub.clone());
    t = p;
    t += qe;
    gchk!(F, "add_assign:extended_niels", t, add.clone());
    t = p;
    t += &qe;
    gchk!(F, "add_assign:&extended_niels", t, add.clone());
    t = p;
    t -= qe;
    gchk!(F, "sub_assign:extended_niels", t, sub.clone());
    t = p;
    t -= &qe;
    gchk!(F, "sub_assign:&extended_niels", t, sub.clone());
    gchk!(F, "add:niels-identity", p + JubjubAffineNiels::identity(), c.mp.clone());
    gchk!(F, "add:extended-niels-identity", p + ExtendedNielsPoint::identity(), c.mp.clone());
    // JubjubSubgroup wraps an extended point; built with the unchecked constructor
    // (documented as unchecked) it carries any curve point
    let (ps, qs) = (jub_sub(&c.mp), jub_sub(&c.mq));
    schk!("from_raw_unchecked", ps, c.mp.clone());
    schk!("add", ps + qs, add.clone());
    schk!("add:&+&", &ps + &qs, add.clone());
    schk!("add:v+&", ps + &qs, add.clone());
    schk!("add:&+v", &ps + qs, add.clone());
    schk!("sub", ps - qs, sub.clone());
    schk!("sub:&-&", &ps - &qs, sub.clone());
    schk!("sub:v-&", ps - &qs, sub.clone());
    schk!("sub:&-v", &ps - qs, sub.clone());
    let mut ts = ps;
    ts += qs;
    schk!("add_assign", ts, add.clone());
    ts = ps;
    ts += &qs;
    schk!("add_assign:&", ts, add.clone());
    ts = ps;
    ts -= qs;
    schk!("sub_assign", ts, sub.clone());
    ts = ps;
    ts -= &qs;
    schk!("sub_assign:&", ts, sub.clone());
    schk!("neg", -ps, m.neg(&c.mp));
    schk!("neg:&", -&ps, m.neg(&c.mp));
    schk!("double", ps.double(), m.double(&c.mp));
    schk!("sum", [ps, qs, ps].iter().sum::<JubjubSubgroup>(), m.add(&add, &c.mp));
    schk!("sum:owned", [ps, qs].into_iter().sum::<JubjubSubgroup>(), add.clone());
    schk!("identity", <JubjubSubgroup as Group>::identity(), m.identity());
    schk!("default", JubjubSubgroup::default(), m.identity());
    schk!("conditional_select:0", JubjubSubgroup::conditional_select(&ps, &qs, 0.into()), c.mp.clone());
    schk!("conditional_select:1", JubjubSubgroup::conditional_select(&ps, &qs, 1.into()), c.mq.clone());
    ensure!((ps == qs) == (c.mp == c.mq), "JubjubSubgroup:eq", "== on {:?}, {:?}", c.mp, c.mq);
    ensure!(ps - qs + qs == ps, "JubjubSubgroup:eq", "(P-Q)+Q != P across representations, P={:?} Q={:?}", c.mp, c.mq);
    ensure!(bool::from(ps.is_identity()) == m.is_identity(&c.mp), "JubjubSubgroup:is_identity", "is_identity({:?})", c.mp);
    let er: &JubjubExtended = (&ps).into();
    gchk!(F, "from:&subgroup", *er, c.mp.clone());
    gchk!(F, "add:proj+subgroup", p + qs, add.clone());
    gchk!(F, "add:&proj+&subgroup", &p + &qs, add.clone());
    gchk!(F, "add:proj+&subgroup", p + &qs, add.clone());
    gchk!(F, "add:&proj+subgroup", &p + qs, add.clone());
    gchk!(F, "sub:proj-subgroup", p - qs, sub.clone());
    gchk!(F, "sub:&proj-&subgroup", &p - &qs, sub.clone());
    gchk!(F, "sub:proj-&subgroup", p - &qs, sub.clone());
    gchk!(F, "sub:&proj-subgroup", &p - qs, sub.clone());
    t = p;
    t += qs;
    gchk!(F, "add_assign:subgroup", t, add.clone());
    t = p;
    t -= &qs;
    gchk!(F, "sub_assign:&subgroup", t, sub.clone());
    // cheap subgroup predicates
    let eight = m.mul(&c.mp, &BigUint::from(8u32));
    gchk!(F, "mul_by_cofactor", p.mul_by_cofactor(), eight.clone());
    gchk!(F, "mul_by_cofactor:affine", pa.mul_by_cofactor(), eight.clone());
    schk!("clear_cofactor", CofactorGroup::clear_cofactor(&p), eight.clone());
    let small = m.is_identity(&eight);
    ensure!(bool::from(p.is_small_order()) == small, "JubjubExtended:is_small_order", "is_small_order({:?}) != {small}", c.mp);
    ensure!(bool::from(pa.is_small_order()) == small, "JubjubAffine:is_small_order", "is_small_order({:?}) != {small}", c.mp);
    ensure!(bool::from(CofactorGroup::is_small_order(&p)) == small, "JubjubExtended:is_small_order", "CofactorGroup::is_small_order({:?}) != {small}", c.mp);
    ensure!(bool::from(pa.is_identity()) == m.is_identity(&c.mp), "JubjubAffine:is_identity", "is_identity({:?})", c.mp);
    // in-place batch normalisation
    let mut v = vec![p, q, JubjubExtended::identity(), c.p2, p - c.p2, p + q];
    let want = [c.mp.clone(), c.mq.clone(), m.identity(), c.mp.clone(), m.identity(), add.clone()];
    let affs: Vec<JubjubAffine> = midnight_curves::batch_normalize(&mut v).collect();
    for i in 0..want.len() {
        achk!(F, "batch_normalize:in-place", affs[i], want[i].clone());
        gchk!(F, "batch_normalize:in-place:normalised", v[i], want[i].clone());
        ensure!(v[i] == JubjubExtended::from(affs[i]) && bool::from(v[i].ct_eq(&p)) == (want[i] == c.mp), "JubjubExtended:batch_normalize:in-place", "normalised point inconsistent at {i}");
        gchk!(F, "batch_normalize:in-place:then-add", v[i] + q, m.add(&want[i], &c.mq));
    }
    Ok(())
}

fn jub_scalar(c: &Ctx<Jub>, kp: &EPoint, bits: &[u8; 32]) -> Result<(), Failure> {
    type F = Jub;
    let m = Jub::model();
    let (p, pa, s) = (c.p, c.pa, c.s);
    gchk!(F, "mul:&proj*&scalar", &p * &s, kp.clone());
    gchk!(F, "mul:&proj*scalar", &p * s, kp.clone());
    gchk!(F, "mul:affine*scalar", pa * s, kp.clone());
    gchk!(F, "mul:affine*&scalar", pa * &s, kp.clone());
    gchk!(F, "mul:&affine*&scalar", &pa * &s, kp.clone());
    gchk!(F, "mul:&affine*scalar", &pa * s, kp.clone());
    let (pn, pe) = (pa.to_niels(), p.to_niels());
    gchk!(F, "mul:affine_niels*scalar", pn * s, kp.clone());
    gchk!(F, "mul:&affine_niels*&scalar", &pn * &s, kp.clone());
    gchk!(F, "mul:affine_niels*&scalar", pn * &s, kp.clone());
    gchk!(F, "mul:&affine_niels*scalar", &pn * s, kp.clone());
    gchk!(F, "mul:extended_niels*scalar", pe * s, kp.clone());
    gchk!(F, "mul:&extended_niels*&scalar", &pe * &s, kp.clone());
    gchk!(F, "mul:extended_niels*&scalar", pe * &s, kp.clone());
    gchk!(F, "mul:&extended_niels*scalar", &pe * s, kp.clone());
    let ps = jub_sub(&c.mp);
    schk!("mul", ps * s, kp.clone());
    schk!("mul:&*&", &ps * &s, kp.clone());
    schk!("mul:v*&", ps * &s, kp.clone());
    schk!("mul:&*v", &ps * s, kp.clone());
    let mut ts = ps;
    ts *= s;
    schk!("mul_assign", ts, kp.clone());
    ts = ps;
    ts *= &s;
    schk!("mul_assign:&", ts, kp.clone());
    // multiply_bits: little-endian bit pattern, top four bits ignored (documented);
    // the pattern may exceed r
    let kb = BigUint::from_bytes_le(bits) % (BigUint::one() << 252);
    let want = m.mul(&c.mp, &kb);
    gchk!(F, "multiply_bits:affine_niels", pn.multiply_bits(bits), want.clone());
    gchk!(F, "multiply_bits:extended_niels", pe.multiply_bits(bits), want.clone());
    // subgroup predicates against r*P in the model
    let insub = in_subgroup::<F>(&c.mp);
    ensure!(bool::from(p.is_torsion_free()) == insub, "JubjubExtended:is_torsion_free", "is_torsion_free({:?}) != {insub}", c.mp);
    ensure!(bool::from(pa.is_torsion_free()) == insub, "JubjubAffine:is_torsion_free", "is_torsion_free({:?}) != {insub}", c.mp);
    ensure!(bool::from(CofactorGroup::is_torsion_free(&p)) == insub, "JubjubExtended:is_torsion_free", "CofactorGroup::is_torsion_free({:?}) != {insub}", c.mp);
    let prime = insub && !m.is_identity(&c.mp);
    ensure!(bool::from(p.is_prime_order()) == prime && bool::from(pa.is_prime_order()) == prime, "JubjubExtended:is_prime_order", "is_prime_order({:?}) != {prime}", c.mp);
    let isg: Option<JubjubSubgroup> = CofactorGroup::into_subgroup(p).into();
    ensure!(isg.is_some() == insub, "JubjubExtended:into_subgroup", "into_subgroup({:?}).is_some() != {insub}", c.mp);
    if let Some(g) = isg {
        schk!("into_subgroup", g, c.mp.clone());
    }
    Ok(())
}

#[derive(Clone, Debug, Serialize, Deserialize)]
struct JubScalarCase {
    op: OpCase,
    /// 0: the scalar's own bytes; 1: r + d; 2: 2^252 - 1 - d; 3: random 32 bytes; 4: all ones
    bits_kind: u8,
    d: u64,
}

fn jub_bits(c: &JubScalarCase, k: &BigUint) -> ([u8; 32], &'static str) {
    let r = Jub::order();
    let (v, cl) = match c.bits_kind % 5 {
        0 => (k.clone(), "bits=k"),
        1 => (r + c.d, "bits=r+d"),
        2 => ((BigUint::one() << 252) - 1u32 - c.d, "bits=2^252-1-d"),
        3 => (BigUint::from_bytes_le(&SplitMix(c.d).bytes(32)), "bits=random256"),
        _ => ((BigUint::one() << 256) - 1u32, "bits=all-ones"),
    };
    let mut b = v.to_bytes_le();
    b.resize(32, 0);
    let mut out = [0u8; 32];
    out.copy_from_slice(&b);
    (out, cl)
}

/// Encodings of an Edwards curve that are structurally non-canonical: x = 0
/// with the sign bit set, y >= p.
fn edwards_noncanonical<F: Fam<M = Edwards>>() -> Vec<(String, Vec<u8>)> {
    let m = F::model();
    let p = &m.f.p;
    let enc = |y: &BigUint, sign: bool| {
        let mut b = y.to_bytes_le();
        b.resize(32, 0);
        if sign {
            b[31] |= 0x80;
        }
        b
    };
    let mut v = vec![
        ("x=0,y=1,sign=1".to_string(), enc(&BigUint::one(), true)),
        ("x=0,y=-1,sign=1".to_string(), enc(&(p - 1u32), true)),
    ];
    let room = (BigUint::one() << 255) - p;
    let mut y = BigUint::zero();
    let mut n = 0;
    while y < room && n < 40 {
        if m.lift(&y, false).is_some() {
            for sign in [false, true] {
                v.push((format!("y={y}+p,sign={}", sign as u8), enc(&(&y + p), sign)));
            }
            n += 1;
        }
        y += 1u32;
    }
    v
}

fn jub_family(p: &Prop) {
    type F = Jub;
    p.sub("jubjub.ops", OPS_RULE, p.tier.pick(4000, 160_000), 16, || op_strategy(true), |c| {
        let ctx = context::<F>(c)?;
        ops_generic::<F>(&ctx, true)?;
        ct_generic::<F>(&ctx)?;
        jub_extras(&ctx)?;
        verdict(&ctx)
    });
    let st = || (op_strategy(true), 0u8..5, prop_oneof![0u64..4, any::<u64>()]).prop_map(|(op, bits_kind, d)| JubScalarCase { op, bits_kind, d }).boxed();
    p.sub("jubjub.scalar", SCALAR_RULE, p.tier.pick(320, 12_000), 16, st, |c| {
        let ctx = context::<F>(&c.op)?;
        let kp = scalar_generic::<F>(&ctx)?;
        let (bits, cl) = jub_bits(c, &ctx.kb);
        jub_scalar(&ctx, &kp, &bits)?;
        let mut v = verdict(&ctx)?;
        v.nontrivial = true;
        Ok(v.with(k_class(&c.op.k)).with(cl))
    });
    let codecs: Vec<Codec<F>> = vec![
        Codec { name: "JubjubAffine:from_bytes", len: 32, big_endian: false, flag_bits: 1, slot: 32, enc: |a| a.to_bytes().to_vec(), dec: |b| JubjubAffine::from_bytes(b.try_into().unwrap()).into(), dec_unchecked: Some(ge_dec_u::<JubjubAffine>), subgroup: false, tolerate_panic: false, exclude: None, lenient_subgroup: false },
        Codec { name: "JubjubAffine:GroupEncoding::from_bytes", len: 32, big_endian: false, flag_bits: 1, slot: 32, enc: ge_enc::<JubjubAffine>, dec: ge_dec::<JubjubAffine>, dec_unchecked: None, subgroup: false, tolerate_panic: false, exclude: None, lenient_subgroup: false },
        Codec { name: "JubjubExtended:from_bytes", len: 32, big_endian: false, flag_bits: 1, slot: 32, enc: |a| ge_enc(&JubjubExtended::from(*a)), dec: |b| ge_dec::<JubjubExtended>(b).map(|g| g.to_affine()), dec_unchecked: Some(|b| ge_dec_u::<JubjubExtended>(b).map(|g| g.to_affine())), subgroup: false, tolerate_panic: false, exclude: None, lenient_subgroup: false },
        Codec { name: "JubjubSubgroup:from_bytes", len: 32, big_endian: false, flag_bits: 1, slot: 32, enc: |a| ge_enc(&JubjubSubgroup::from_raw_unchecked(a.get_u(), a.get_v())), dec: |b| ge_dec::<JubjubSubgroup>(b).map(|g| JubjubExtended::from(g).to_affine()), dec_unchecked: Some(|b| ge_dec_u::<JubjubSubgroup>(b).map(|g| JubjubExtended::from(g).to_affine())), subgroup: true, tolerate_panic: false, exclude: None, lenient_subgroup: false },
        Codec { name: "JubjubAffine:batch_from_bytes", len: 32, big_endian: false, flag_bits: 1, slot: 32, enc: |a| a.to_bytes().to_vec(), dec: |b| { let a: [u8; 32] = b.try_into().unwrap(); JubjubAffine::batch_from_bytes([[0u8; 32], a, a].into_iter()).pop().unwrap().into() }, dec_unchecked: None, subgroup: false, tolerate_panic: false, exclude: None, lenient_subgroup: false },
    ];
    p.sub("jubjub.encoding", ENC_RULE, p.tier.pick(4000, 160_000), 16, || enc_strategy(true), |c| enc_check::<F>(&codecs, c));
    p.enumerate(
        "jubjub.noncanonical",
        "structurally non-canonical Edwards encodings (u = 0 with sign bit, v + q for the first 40 admissible v): every checked decoder must reject; from_bytes_pre_zip216_compatibility accepts exactly the two documented ones",
        edwards_noncanonical::<F>(),
        4,
        true,
        |(label, bytes)| {
            for cd in &codecs {
                let got = decode_oracle(cd, bytes, label, None)?;
                ensure!(got.is_none(), format!("{}:noncanonical", cd.name), "{} accepted {label}", cd.name);
            }
            let arr: [u8; 32] = bytes.as_slice().try_into().unwrap();
            let pre: Option<JubjubAffine> = JubjubAffine::from_bytes_pre_zip216_compatibility(arr).into();
            let documented = label.starts_with("x=0");
            ensure!(pre.is_some() == documented, "JubjubAffine:from_bytes_pre_zip216_compatibility", "pre-ZIP216 decoder on {label}: accepted = {}, documented = {documented}", pre.is_some());
            if let Some(a) = pre {
                let pt = Jub::a_to_m(&a);
                ensure!(pt.0.is_zero() && Jub::model().on_curve(&pt), "JubjubAffine:from_bytes_pre_zip216_compatibility", "decoded {pt:?}");
            }
            Ok(Verdict::nontrivial(if documented { "u=0 with sign bit" } else { "v+q" }))
        },
    );
    p.enumerate("jubjub.batch_normalize_edge", BATCH_EDGE_RULE, vec![0u8], 1, true, |_| batch_edge::<F>());
    p.enumerate("jubjub.constants", "curve constant d, generators on curve; subgroup generator = 8 * generator and of order r (model)", vec![0u8], 1, true, |_| {
        let m = Jub::model();
        ensure!(to_big(&midnight_curves::EDWARDS_D) == m.d, "jubjub:EDWARDS_D", "EDWARDS_D != -(10240/10241)");
        let g = gm::<F>("generator", &<JubjubExtended as Group>::generator())?;
        ensure!(m.on_curve(&g) && !m.is_identity(&g), "jubjub:generator", "generator off curve");
        let ga = am::<F>("generator", &<JubjubAffine as group::cofactor::CofactorCurveAffine>::generator())?;
        ensure!(ga == g, "jubjub:generator", "affine and extended generators differ");
        let sg: JubjubExtended = <JubjubSubgroup as Group>::generator().into();
        let sg = gm::<F>("generator", &sg)?;
        ensure!(sg == m.mul(&g, &BigUint::from(8u32)) && !m.is_identity(&sg) && m.is_identity(&m.mul(&sg, Jub::order())), "JubjubSubgroup:generator", "subgroup generator is not 8*G of order r");
        ensure!(Jub::torsion().len() == 7, "harness:jubjub-torsion", "expected the 7 non-trivial 8-torsion points, found {}", Jub::torsion().len());
        Ok(Verdict::nontrivial("jubjub:constants"))
    });
}


// ---------------------------------------------------------------------------
// secp256k1 (k256 wrapper)

use midnight_curves::k256::{K256Affine, K256};
type KFp = midnight_curves::k256::Fp;
type KFq = midnight_curves::k256::Fq;

struct Secp;
impl Fam for Secp {
    type M = Weierstrass;
    type G = K256;
    type A = K256Affine;
    const NAME: &'static str = "secp256k1";
    const GN: &'static str = "K256";
    const AN: &'static str = "K256Affine";
    const COFACTOR: bool = false;
    const COORD_BITS: u64 = 256;
    fam_statics!(Weierstrass, Weierstrass { f: Zp::new(modulus::<KFp>()), a: BigUint::zero(), b: BigUint::from(7u32) }, modulus::<KFq>(), 0, 0);
    fn sub_generator() -> Self::G {
        <K256 as Group>::generator()
    }
    fn a_to_m(a: &Self::A) -> WPoint {
        if *a == K256Affine::identity() {
            None
        } else {
            Some((to_big(&a.x()), to_big(&a.y())))
        }
    }
    fn m_to_a(p: &WPoint) -> Self::A {
        match p {
            None => K256Affine::identity(),
            Some((x, y)) => K256Affine::from_xy(from_big(x), from_big(y)).expect("from_xy of a curve point"),
        }
    }
    fn g_ct_eq(a: &Self::G, b: &Self::G) -> Choice {
        a.ct_eq(b)
    }
    fn a_ct_eq(a: &Self::A, b: &Self::A) -> Choice {
        a.ct_eq(b)
    }
}

fn secp_extras(c: &Ctx<Secp>, aux: u64) -> Result<(), Failure> {
    type F = Secp;
    let m = Secp::model();
    gchk!(F, "neg:&proj", -&c.p, m.neg(&c.mp));
    gchk!(F, "from:&affine", K256::from(&c.pa), c.mp.clone());
    achk!(F, "from:&proj", K256Affine::from(&c.p), c.mp.clone());
    gchk!(F, "identity:inherent", K256::identity(), m.identity());
    achk!(F, "generator:inherent", K256Affine::generator(), gm::<F>("generator", &K256::generator())?);
    if let Some((x, y)) = m.xy(&c.mp) {
        let f = m.fm();
        let y2 = f.add(&y, &f.from_u64(aux % 4)); // aux%4 == 0: the point itself
        let want = m.from_xy(x.clone(), y2.clone());
        let got = K256Affine::from_xy(from_big(&x), from_big(&y2));
        ensure!(got.is_some() == m.on_curve(&want), "K256Affine:from_xy", "from_xy({x},{y2}).is_some() = {}, model on-curve = {}", got.is_some(), m.on_curve(&want));
        if let Some(a) = got {
            achk!(F, "from_xy", a, want);
        }
    }
    Ok(())
}

fn secp_scalar(c: &Ctx<Secp>, kp: &WPoint) -> Result<(), Failure> {
    type F = Secp;
    let m = Secp::model();
    gchk!(F, "mul:scalar*proj", c.s * c.p, kp.clone());
    gchk!(F, "mul:scalar*&proj", c.s * &c.p, kp.clone());
    // documented relation (circuits::ecc::curves): scalar_zeta * (x, y) = (base_zeta * x, y)
    let (bz, sz) = (to_big(&K256::base_zeta()), to_big(&K256::scalar_zeta()));
    let f = m.fm();
    ensure!(f.mul(&f.mul(&bz, &bz), &bz).is_one() && !bz.is_one(), "K256:base_zeta", "base_zeta is not a primitive cube root of unity");
    if let Some((x, y)) = m.xy(&c.mp) {
        ensure!(m.mul(&c.mp, &sz) == Some((f.mul(&bz, &x), y)), "K256:zeta", "scalar_zeta * P != (base_zeta * x, y) for P={:?}", c.mp);
    }
    Ok(())
}

fn secp_family(p: &Prop) {
    type F = Secp;
    p.sub("secp256k1.ops", OPS_RULE, p.tier.pick(4000, 160_000), 16, || op_strategy(false), |c| {
        let ctx = context::<F>(c)?;
        ops_generic::<F>(&ctx, true)?;
        ct_generic::<F>(&ctx)?;
        secp_extras(&ctx, c.aux)?;
        verdict(&ctx)
    });
    p.sub(
        "secp256k1.batch_normalize_computed_identity",
        "batch_normalize of [P, P - P' (identity reached by computation), Q] against the model; every case non-trivial",
        p.tier.pick(160, 6_000),
        16,
        || op_strategy(false),
        |c| {
            let ctx = context::<F>(c)?;
            let v = [ctx.p, ctx.p - ctx.p2, ctx.q];
            let mut out = [K256Affine::identity(); 3];
            vpcore::catch(|| K256::batch_normalize(&v, &mut out))
                .map_err(|e| Failure::new("K256:batch_normalize:computed-identity-panic", format!("batch_normalize([P, P-P, Q]) panicked: {e}; P={:?}", ctx.mp)))?;
            let want = [ctx.mp.clone(), None, ctx.mq.clone()];
            for i in 0..3 {
                achk!(F, "batch_normalize", out[i], want[i].clone());
            }
            let mut v = verdict(&ctx)?;
            v.nontrivial = true;
            Ok(v)
        },
    );
    p.sub("secp256k1.scalar", SCALAR_RULE, p.tier.pick(320, 12_000), 16, || op_strategy(false), |c| {
        let ctx = context::<F>(c)?;
        let kp = scalar_generic::<F>(&ctx)?;
        secp_scalar(&ctx, &kp)?;
        let mut v = verdict(&ctx)?;
        v.nontrivial = !matches!(c.k, KSpec::Rand(_)) || ctx.exceptional;
        Ok(v.with(k_class(&c.k)))
    });
    let codecs: Vec<Codec<F>> = vec![
        Codec { name: "K256Affine:from_bytes", len: 33, big_endian: true, flag_bits: 0, slot: 32, enc: ge_enc::<K256Affine>, dec: ge_dec::<K256Affine>, dec_unchecked: Some(ge_dec_u::<K256Affine>), subgroup: false, tolerate_panic: false, exclude: None, lenient_subgroup: false },
        Codec { name: "K256:from_bytes", len: 33, big_endian: true, flag_bits: 0, slot: 32, enc: |a| ge_enc(&K256::from(*a)), dec: |b| ge_dec::<K256>(b).map(|g| g.to_affine()), dec_unchecked: Some(|b| ge_dec_u::<K256>(b).map(|g| g.to_affine())), subgroup: false, tolerate_panic: false, exclude: None, lenient_subgroup: false },
    ];
    let strict: Vec<Codec<F>> = codecs.iter().map(|c| c.strict()).collect();
    // regression (.sec1_tags): SEC1 tag 0x05 ("compact") used to be accepted and
    // re-encoded with tag 0x02/0x03
    let tags: Vec<(u8, u8)> = (0..=255u8).flat_map(|t| (0..3u8).map(move |w| (t, w))).collect();
    p.enumerate(
        "secp256k1.sec1_tags",
        "every value of the SEC1 tag byte in front of a valid x (generator, 2G) or of zeros: decoder accepts => re-encoding equals the input",
        tags,
        4,
        true,
        |(tag, which)| {
            let pt = match which {
                0 => PSpec::Identity,
                1 => PSpec::Generator,
                _ => PSpec::SmallMul(2),
            };
            let r = resolve::<F>(&pt)?;
            let mut acc = false;
            for cd in &strict {
                let mut b = (cd.enc)(&r.a);
                b[0] = *tag;
                acc |= decode_oracle(cd, &b, "encoding with tag replaced", None)?.is_some();
            }
            Ok(Verdict::nontrivial(if acc { "accepted" } else { "rejected" }))
        },
    );
    p.sub("secp256k1.encoding", ENC_RULE, p.tier.pick(4000, 160_000), 16, || enc_strategy(false), |c| enc_check::<F>(&codecs, c));
    p.enumerate(
        "secp256k1.identity_accessors",
        "coordinate accessors of the affine identity: x() and y() must both be total and follow the same convention (x() returns 0)",
        vec![0u8],
        1,
        true,
        |_| {
            let id = K256Affine::identity();
            let x = vpcore::catch(|| id.x()).map_err(|e| Failure::new("K256Affine:x:identity-panic", format!("K256Affine::identity().x() panicked: {e}")))?;
            ensure!(to_big(&x).is_zero(), "K256Affine:x:identity", "x() of the identity = {}", to_big(&x));
            let y = vpcore::catch(|| id.y()).map_err(|e| Failure::new("K256Affine:y:identity-panic", format!("K256Affine::identity().y() panicked ({e}) while x() returns 0")))?;
            ensure!(to_big(&y).is_zero(), "K256Affine:y:identity", "y() of the identity = {} while x() = 0", to_big(&y));
            Ok(Verdict::nontrivial("identity"))
        },
    );
    p.enumerate("secp256k1.constants", "generator on curve and of order n (model)", vec![0u8], 1, true, |_| {
        let m = Secp::model();
        let g = gm::<F>("generator", &K256::generator())?;
        ensure!(m.on_curve(&g) && !m.is_identity(&g) && m.is_identity(&m.mul(&g, Secp::order())), "secp256k1:generator", "generator not of order n");
        Ok(Verdict::nontrivial("secp256k1:constants"))
    });
    p.enumerate("secp256k1.batch_normalize_edge", BATCH_EDGE_RULE, vec![0u8], 1, true, |_| batch_edge::<F>());
}

// ---------------------------------------------------------------------------
// Curve25519 (curve25519-dalek wrapper)

use midnight_curves::curve25519::{Curve25519, Curve25519Affine, Curve25519Subgroup};
type CFp = midnight_curves::curve25519::Fp;
type CSc = midnight_curves::curve25519::Scalar;

struct C25519;
impl Fam for C25519 {
    type M = Edwards;
    type G = Curve25519;
    type A = Curve25519Affine;
    const NAME: &'static str = "curve25519";
    const GN: &'static str = "Curve25519";
    const AN: &'static str = "Curve25519Affine";
    const COFACTOR: bool = true;
    const COORD_BITS: u64 = 255;
    fam_statics!(
        Edwards,
        {
            // a = -1, d = -(121665/121666)
            let f = Zp::new(modulus::<CFp>());
            let d = f.neg(&f.mul(&BigUint::from(121665u32), &f.inv(&BigUint::from(121666u32)).unwrap()));
            Edwards { a: f.neg(&BigUint::one()), d, f }
        },
        modulus::<CSc>(),
        3,
        8
    );
    fn sub_generator() -> Self::G {
        <Curve25519 as Group>::generator()
    }
    fn a_to_m(a: &Self::A) -> EPoint {
        (to_big(a.x()), to_big(a.y()))
    }
    fn m_to_a(p: &EPoint) -> Self::A {
        Curve25519Affine::from_xy(from_big(&p.0), from_big(&p.1)).expect("from_xy of a curve point")
    }
    fn g_ct_eq(a: &Self::G, b: &Self::G) -> Choice {
        a.ct_eq(b)
    }
    fn a_ct_eq(a: &Self::A, b: &Self::A) -> Choice {
        a.ct_eq(b)
    }
}

macro_rules! cschk {
    ($op:expr, $got:expr, $want:expr) => {{
        let e: Curve25519 = $got.into();
        let got = gm::<C25519>($op, &e)?;
        let want = $want;
        ensure!(got == want, format!("Curve25519Subgroup:{}", $op), "Curve25519Subgroup {}: got {:?}, model {:?}", $op, got, want);
    }};
}

fn c25519_extras(c: &Ctx<C25519>, aux: u64) -> Result<(), Failure> {
    type F = C25519;
    let m = C25519::model();
    let (p, q, pa) = (c.p, c.q, c.pa);
    let add = m.add(&c.mp, &c.mq);
    let sub = m.sub(&c.mp, &c.mq);
    gchk!(F, "add:&proj+&proj", &p + &q, add.clone());
    gchk!(F, "add:&proj+proj", &p + q, add.clone());
    gchk!(F, "neg:&proj", -&p, m.neg(&c.mp));
    achk!(F, "from_edwards", Curve25519Affine::from_edwards(p.0), c.mp.clone());
    gchk!(F, "to_edwards", Curve25519(pa.to_edwards()), c.mp.clone());
    // from_xy on / off the curve
    let f = m.fm();
    let y2 = f.add(&c.mp.1, &f.from_u64(aux % 4));
    let cand = (c.mp.0.clone(), y2.clone());
    let got = Curve25519Affine::from_xy(from_big(&cand.0), from_big(&cand.1));
    ensure!(got.is_some() == m.on_curve(&cand), "Curve25519Affine:from_xy", "from_xy({:?}).is_some() = {}, model on-curve = {}", cand, got.is_some(), m.on_curve(&cand));
    if let Some(a) = got {
        achk!(F, "from_xy", a, cand.clone());
        gchk!(F, "from_xy:cached-point", Curve25519::from(a), cand);
    }
    // the subgroup type (library decides membership here; checked against the model in .scalar)
    if let (Some(ps), Some(qs)) = (Curve25519Subgroup::from_edwards(p.0), Curve25519Subgroup::from_edwards(q.0)) {
        cschk!("inner", Curve25519(*ps.inner()), c.mp.clone());
        cschk!("add", ps + qs, add.clone());
        cschk!("add:&+&", &ps + &qs, add.clone());
        cschk!("add:v+&", ps + &qs, add.clone());
        cschk!("add:&+v", &ps + qs, add.clone());
        cschk!("sub", ps - qs, sub.clone());
        cschk!("sub:v-&", ps - &qs, sub.clone());
        let mut t = ps;
        t += qs;
        cschk!("add_assign", t, add.clone());
        t = ps;
        t += &qs;
        cschk!("add_assign:&", t, add.clone());
        t = ps;
        t -= qs;
        cschk!("sub_assign", t, sub.clone());
        t = ps;
        t -= &qs;
        cschk!("sub_assign:&", t, sub.clone());
        cschk!("neg", -ps, m.neg(&c.mp));
        cschk!("neg:&", -&ps, m.neg(&c.mp));
        cschk!("double", ps.double(), m.double(&c.mp));
        cschk!("sum", [ps, qs, ps].iter().sum::<Curve25519Subgroup>(), m.add(&add, &c.mp));
        cschk!("sum:owned", [ps, qs].into_iter().sum::<Curve25519Subgroup>(), add.clone());
        cschk!("identity", <Curve25519Subgroup as Group>::identity(), m.identity());
        cschk!("conditional_select:1", Curve25519Subgroup::conditional_select(&ps, &qs, 1.into()), c.mq.clone());
        cschk!("from:&", Curve25519::from(&ps), c.mp.clone());
        ensure!((ps == qs) == (c.mp == c.mq) && bool::from(ps.ct_eq(&qs)) == (c.mp == c.mq), "Curve25519Subgroup:eq", "==/ct_eq on {:?}, {:?}", c.mp, c.mq);
        ensure!(bool::from(ps.is_identity()) == m.is_identity(&c.mp), "Curve25519Subgroup:is_identity", "is_identity({:?})", c.mp);
    }
    Ok(())
}

fn c25519_scalar(c: &Ctx<C25519>, kp: &EPoint) -> Result<(), Failure> {
    type F = C25519;
    gchk!(F, "mul:scalar*proj", c.s * c.p, kp.clone());
    gchk!(F, "mul:scalar*&proj", c.s * &c.p, kp.clone());
    let insub = in_subgroup::<F>(&c.mp);
    let ps = Curve25519Subgroup::from_edwards(c.p.0);
    ensure!(ps.is_some() == insub, "Curve25519Subgroup:from_edwards", "from_edwards({:?}).is_some() = {}, model r*P == identity: {insub}", c.mp, ps.is_some());
    if let Some(ps) = ps {
        cschk!("mul", ps * c.s, kp.clone());
        cschk!("mul:&", ps * &c.s, kp.clone());
        cschk!("mul:scalar*", c.s * ps, kp.clone());
        cschk!("mul:scalar*&", c.s * &ps, kp.clone());
        let mut t = ps;
        t *= c.s;
        cschk!("mul_assign", t, kp.clone());
        t = ps;
        t *= &c.s;
        cschk!("mul_assign:&", t, kp.clone());
    }
    Ok(())
}

fn c25519_family(p: &Prop) {
    type F = C25519;
    p.sub("curve25519.ops", OPS_RULE, p.tier.pick(4000, 160_000), 16, || op_strategy(true), |c| {
        let ctx = context::<F>(c)?;
        ops_generic::<F>(&ctx, true)?;
        ct_generic::<F>(&ctx)?;
        c25519_extras(&ctx, c.aux)?;
        verdict(&ctx)
    });
    p.sub("curve25519.scalar", SCALAR_RULE, p.tier.pick(320, 12_000), 16, || op_strategy(true), |c| {
        let ctx = context::<F>(c)?;
        let kp = scalar_generic::<F>(&ctx)?;
        c25519_scalar(&ctx, &kp)?;
        let mut v = verdict(&ctx)?;
        v.nontrivial = !matches!(c.k, KSpec::Rand(_)) || ctx.exceptional;
        Ok(v.with(k_class(&c.k)))
    });
    let codecs: Vec<Codec<F>> = vec![
        Codec { name: "Curve25519Affine:from_bytes", len: 32, big_endian: false, flag_bits: 1, slot: 32, enc: ge_enc::<Curve25519Affine>, dec: ge_dec::<Curve25519Affine>, dec_unchecked: Some(ge_dec_u::<Curve25519Affine>), subgroup: false, tolerate_panic: false, exclude: None, lenient_subgroup: false },
        Codec { name: "Curve25519:from_bytes", len: 32, big_endian: false, flag_bits: 1, slot: 32, enc: |a| ge_enc(&Curve25519::from(*a)), dec: |b| ge_dec::<Curve25519>(b).map(|g| g.to_affine()), dec_unchecked: Some(|b| ge_dec_u::<Curve25519>(b).map(|g| g.to_affine())), subgroup: false, tolerate_panic: false, exclude: None, lenient_subgroup: false },
    ];
    let strict: Vec<Codec<F>> = codecs.iter().map(|c| c.strict()).collect();
    // regression (.noncanonical): F25, y >= p and x = 0 with the sign bit used to be accepted
    p.sub("curve25519.encoding", ENC_RULE, p.tier.pick(4000, 160_000), 16, || enc_strategy(true), |c| enc_check::<F>(&codecs, c));
    p.enumerate(
        "curve25519.noncanonical",
        "structurally non-canonical Edwards encodings (x = 0 with sign bit, y + p for every admissible y < 19): every checked decoder must reject",
        edwards_noncanonical::<F>(),
        4,
        true,
        |(label, bytes)| {
            for cd in &strict {
                let got = decode_oracle(cd, bytes, label, None)?;
                ensure!(got.is_none(), format!("{}:noncanonical", cd.name), "{} accepted {label}", cd.name);
            }
            Ok(Verdict::nontrivial(if label.starts_with("x=0") { "x=0 with sign bit" } else { "y+p" }))
        },
    );
    p.enumerate("curve25519.constants", "curve constants a, d; generator on curve, of order l (model); 8-torsion complete", vec![0u8], 1, true, |_| {
        let m = C25519::model();
        ensure!(to_big(&midnight_curves::curve25519::CURVE_D) == m.d && to_big(&midnight_curves::curve25519::CURVE_A) == m.a, "curve25519:constants", "CURVE_A / CURVE_D");
        let g = gm::<F>("generator", &<Curve25519 as Group>::generator())?;
        ensure!(m.on_curve(&g) && !m.is_identity(&g) && m.is_identity(&m.mul(&g, C25519::order())), "curve25519:generator", "generator not of order l");
        let sg: Curve25519 = <Curve25519Subgroup as Group>::generator().into();
        ensure!(gm::<F>("generator", &sg)? == g, "Curve25519Subgroup:generator", "generators differ");
        ensure!(C25519::torsion().len() == 7, "harness:curve25519-torsion", "expected the 7 non-trivial 8-torsion points, found {}", C25519::torsion().len());
        achk!(F, "default", Curve25519Affine::default(), m.identity());
        Ok(Verdict::nontrivial("curve25519:constants"))
    });
    p.enumerate("curve25519.batch_normalize_edge", BATCH_EDGE_RULE, vec![0u8], 1, true, |_| batch_edge::<F>());
}

// ---------------------------------------------------------------------------
// hash-to-curve entry points: deterministic, on the curve, in the subgroup

#[derive(Clone, Debug, Serialize, Deserialize)]
struct H2cCase {
    #[serde(with = "hexbytes")]
    msg: Vec<u8>,
    domain: String,
}

fn h2c_one<F: Fam>(what: &str, f: &dyn Fn() -> F::G) -> Result<(), Failure> {
    let m = F::model();
    let a = vpcore::catch(f).map_err(|e| Failure::new(format!("{}:{what}:panic", F::GN), format!("{what} panicked: {e}")))?;
    let b = f();
    let (ma, mb) = (gm::<F>(what, &a)?, gm::<F>(what, &b)?);
    ensure!(ma == mb, format!("{}:{what}:nondeterministic", F::GN), "two calls returned {ma:?} and {mb:?}");
    ensure!(m.on_curve(&ma), format!("{}:{what}:off-curve", F::GN), "{what} returned {ma:?}");
    ensure!(in_subgroup::<F>(&ma), format!("{}:{what}:non-subgroup", F::GN), "{what} returned {ma:?}, outside the prime-order subgroup");
    Ok(())
}

fn h2c_family(p: &Prop) {
    p.sub(
        "hash_to_curve",
        "message (0..64 bytes incl. empty) x domain string: inherent G1/G2 hash_to_curve and CurveExt::hash_to_curve (BLS G1, BN254 G1/G2) are deterministic, on the curve and in the prime-order subgroup (model); every case non-trivial",
        p.tier.pick(64, 2_000),
        16,
        || (prop_oneof![1 => Just(vec![]), 6 => proptest::collection::vec(any::<u8>(), 0..64)], "[a-zA-Z0-9_-]{0,24}").prop_map(|(msg, domain)| H2cCase { msg, domain }).boxed(),
        |c| {
            use midnight_curves::{G1Projective, G2Projective};
            let d = c.domain.as_bytes();
            h2c_one::<BlsG1>("hash_to_curve", &|| G1Projective::hash_to_curve(&c.msg, d, b"aug"))?;
            h2c_one::<BlsG2>("hash_to_curve", &|| G2Projective::hash_to_curve(&c.msg, d, b""))?;
            h2c_one::<BlsG1>("CurveExt::hash_to_curve", &|| <G1Projective as CurveExt>::hash_to_curve(&c.domain)(&c.msg))?;
            h2c_one::<BnG1>("CurveExt::hash_to_curve", &|| <bn256::G1 as CurveExt>::hash_to_curve(&c.domain)(&c.msg))?;
            h2c_one::<BnG2>("CurveExt::hash_to_curve", &|| <bn256::G2 as CurveExt>::hash_to_curve(&c.domain)(&c.msg))?;
            Ok(Verdict::nontrivial(if c.msg.is_empty() { "empty message" } else { "message" }))
        },
    );
}

fn other_families(p: &Prop) {
    h2c_family(p);
    jub_family(p);
    secp_family(p);
    c25519_family(p);
}
