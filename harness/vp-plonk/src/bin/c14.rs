//! C14 — KZG multi-opening: correct openings verify, any wrong claim is rejected.
//!
//! Code under test: `KZGCommitmentScheme::{multi_open, multi_prepare}`
//! (proofs/src/poly/kzg/mod.rs), `construct_intermediate_sets`
//! (poly/kzg/utils.rs), `CommitmentReference::as_terms` (poly/query.rs),
//! `DualMSM::verify` (poly/kzg/msm.rs), driven exactly as the in-repo test
//! `test_roundtrip_gwc` and the PLONK prover/verifier drive them
//! (`ProverQuery::new`, `VerifierQuery::{new, from_parts}`,
//! `CircuitTranscript<blake2b_simd::State>`, `multi_prepare(..)?`, then
//! `transcript.assert_empty()` and `guard.verify(&verifier_params)` as
//! zk_stdlib does).
//!
//! Oracles
//! * honest: `multi_open` is `Ok`, the proof is `48 + 32*#point-sets + 48`
//!   bytes (f_com, one q_eval per point set, pi — the number of point sets is
//!   computed here from the assignment pattern, not by the library),
//!   `multi_prepare` is `Ok`, the transcript is empty afterwards and the guard
//!   verifies.
//! * faults: the verifier statement is kept as a *model* (coefficients behind
//!   every commitment, point, claimed value). After a single corruption the
//!   truth of the corrupted statement is recomputed from the model with a
//!   naive Horner evaluation. A false statement, or an altered proof for the
//!   true statement, must end in `Err` from `multi_prepare`, unread bytes
//!   (`assert_empty`), or `Err` from `verify` — never a panic, never
//!   acceptance. A corrupted statement that is still *true* (e.g. the point of
//!   a constant polynomial is changed, a piece multiplied by x^(..)=0 is
//!   changed) is counted ("claim-still-true") and not judged.
//! * duplicates: a repeated (commitment, point) pair is refused with
//!   `Error::DuplicatedQuery` ("Multiopen argument only supports a single
//!   query to the same (commitment, opening) pair") on both sides.
//!
//! Query order: identical on prover and verifier side (the API documents no
//! order independence; the PLONK prover and verifier build both lists in the
//! same order).
//!
//! Chopped commitments follow the vanishing argument: pieces P_i with 2^k
//! coefficients, the prover opens sum_i x^((n-1) i) P_i at x (n = 2^k), the
//! verifier passes the piece commitments and n to `VerifierQuery::from_parts`.
//! The sub-check `chopped.position` places a query at another point before the
//! chopped one: at /repo 444e09e..e213ac0 `multi_prepare` indexed the point set
//! of a chopped commitment with the *global* point index
//! (`point_sets[set_index][point_indices[0]]`, kzg/mod.rs:210) and panicked with
//! "index out of bounds" on every such honest proof (signature
//! `chopped:point-not-first:multi_prepare:index-out-of-bounds`; found by this
//! check on its first run, repaired independently in /repo commit 1cabfe4).
//!
//! The sub-check `edge.points_vs_degree` opens a polynomial with 2^k = 4
//! coefficients at 5 points: `multi_open` panics ("capacity overflow",
//! utils/arithmetic.rs:102, `kate_division` on an empty dividend computes
//! `a.len() - 1`); signature `multi_open:points>coefficients:capacity-overflow`.
//! With `a.len().saturating_sub(1)` on a scratch copy the whole check is silent.
//!
//! Sensitivity (scratch worktree as in the GUIDE, quick tier, VERIF_SEED=1):
//!  M0 (the defect repaired by /repo 1cabfe4, present on the first run):
//!     caught by `chopped.position` (panic index out of bounds, shrunk to 2
//!     polynomials / 2 points).
//!  M1 verifier computes `v` without the `f_eval` term: caught by every honest
//!     sub-check (`honest:rejected:reject:verify`, shrunk to 1 poly / 1 point).
//!  M2 prover continues the x1 powers across point sets, verifier restarts
//!     them: caught by patterns/random/chopped (needs >= 2 point sets).
//!  M3 `construct_intermediate_sets` stores evaluations in query order instead
//!     of point-set order: caught by patterns/random/chopped (needs a
//!     polynomial whose points are first seen in another order).
//!  M4 duplicate (commitment, point) silently skipped instead of
//!     `DuplicatedQuery`: caught by `duplicates` (`dup:prover:not-refused`) and
//!     by `faults.*` (`fault:ComSwap:accepted`).
//!  M5 soundness only — prover leaves f(X) out of the final polynomial and the
//!     verifier leaves f_com / f_eval out: honest sub-checks silent, caught by
//!     `faults.*` (Eval*/Point*/ComSwap accepted).
//!  M6 soundness only — x1 batching replaced by all-ones on both sides: honest
//!     sub-checks and all single-value faults silent, caught only by the
//!     compensating fault `EvalPair` (+d / -d on two values of one point set).

use std::{
    collections::{BTreeSet, HashMap},
    sync::{Arc, Mutex, OnceLock},
};

use ff::{Field, PrimeField};
use group::{Group, GroupEncoding};
use midnight_curves::{Bls12, Fq, G1Projective as G1};
use midnight_proofs::{
    poly::{
        commitment::{Guard, PolynomialCommitmentScheme},
        kzg::{
            params::{ParamsKZG, ParamsVerifierKZG},
            KZGCommitmentScheme,
        },
        Coeff, CommitmentLabel, Error as PolyError, Polynomial, ProverQuery, VerifierQuery,
    },
    transcript::{CircuitTranscript, Transcript},
};
use proptest::prelude::*;
use rand_chacha::ChaCha20Rng;
use rand_core::{RngCore, SeedableRng};
use serde::{Deserialize, Serialize};
use vpcore::{ensure, fail, panic_signature, CaseResult, Failure, SplitMix, Verdict};

type Cs = KZGCommitmentScheme<Bls12>;
type Tr = CircuitTranscript<blake2b_simd::State>;

const G1_LEN: usize = 48;
const FQ_LEN: usize = 32;

// ---------------------------------------------------------------------------
// Case description

#[derive(Clone, Copy, Debug, PartialEq, Eq, Serialize, Deserialize)]
enum PolyKind {
    Zero,
    Const,
    Random,
    /// random polynomial of degree (d mod 2^k)
    Low(u8),
    /// same coefficients as an earlier polynomial, distinct object / commitment
    SameAs(u8),
    /// committed in 2 + (p mod 3) pieces, opened at a single point
    Chopped(u8),
}

#[derive(Clone, Debug, Serialize, Deserialize)]
struct PolySpec {
    kind: PolyKind,
    /// bit j set: opened at point j
    mask: u8,
}

#[derive(Clone, Copy, Debug, PartialEq, Eq, Serialize, Deserialize)]
enum PointKind {
    Random,
    Zero,
    One,
    /// a power of the 2^k-th root of unity
    Omega,
    Small,
}

#[derive(Clone, Copy, Debug, PartialEq, Eq, Serialize, Deserialize)]
enum Order {
    PolyMajor,
    PointMajor,
    Shuffled,
}

#[derive(Clone, Copy, Debug, PartialEq, Eq, Serialize, Deserialize)]
enum ChopPos {
    /// the (first) chopped query is the first query of the list
    First,
    /// a query at another point precedes every query at the chopped point
    NotFirst,
    /// no reordering; every chopped polynomial at its own point
    Free,
}

#[derive(Clone, Debug, Serialize, Deserialize)]
struct SetCase {
    k: u32,
    seed: u64,
    points: Vec<PointKind>,
    polys: Vec<PolySpec>,
    order: Order,
    /// absorb commitments, points and claimed values into the transcript
    /// (`Transcript::common`) before the opening, on both sides
    bind: bool,
    chop_pos: ChopPos,
    /// allow a polynomial to be opened at more than 2^k points
    #[serde(default)]
    overfull: bool,
}

// ---------------------------------------------------------------------------
// SRS cache: one per k, fixed toxic seed per k (replay does not depend on
// VERIF_SEED)

struct Srs {
    params: ParamsKZG<Bls12>,
    vparams: ParamsVerifierKZG<Bls12>,
}

fn srs(k: u32) -> Arc<Srs> {
    static CACHE: OnceLock<Mutex<HashMap<u32, Arc<Srs>>>> = OnceLock::new();
    let mut m = CACHE.get_or_init(|| Mutex::new(HashMap::new())).lock().unwrap();
    m.entry(k)
        .or_insert_with(|| {
            let params =
                ParamsKZG::<Bls12>::unsafe_setup(k, ChaCha20Rng::seed_from_u64(0xC14_0000 + k as u64));
            let vparams = params.verifier_params();
            Arc::new(Srs { params, vparams })
        })
        .clone()
}

// ---------------------------------------------------------------------------
// Model of the statement

fn horner(c: &[Fq], x: Fq) -> Fq {
    c.iter().rev().fold(Fq::ZERO, |acc, b| acc * x + b)
}

fn mk_poly(v: &[Fq]) -> Polynomial<Fq, Coeff> {
    let mut p = Polynomial::<Fq, Coeff>::init(v.len());
    for (a, b) in p.iter_mut().zip(v) {
        *a = *b;
    }
    p
}

fn rand_vec(rng: &mut ChaCha20Rng, n: usize) -> Vec<Fq> {
    (0..n).map(|_| Fq::random(&mut *rng)).collect()
}

/// A verifier-side commitment together with the coefficients it commits to.
#[derive(Clone)]
struct VCom {
    pieces: Vec<Vec<Fq>>,
    chop_n: Option<u64>,
    g: Vec<G1>,
}

impl VCom {
    fn new(srs: &Srs, pieces: Vec<Vec<Fq>>, chop_n: Option<u64>) -> Self {
        let g = pieces.iter().map(|p| Cs::commit(&srs.params, &mk_poly(p))).collect();
        VCom { pieces, chop_n, g }
    }
    fn recommit(&mut self, srs: &Srs) {
        self.g = self.pieces.iter().map(|p| Cs::commit(&srs.params, &mk_poly(p))).collect();
    }
    /// value at x of the polynomial this reference stands for
    fn value(&self, x: Fq) -> Fq {
        match self.chop_n {
            None => horner(&self.pieces[0], x),
            Some(n) => {
                // the vanishing argument: sum_i x^((n-1) i) P_i(x)
                let sf = x.pow_vartime([n - 1]);
                self.pieces.iter().rev().fold(Fq::ZERO, |acc, p| acc * sf + horner(p, x))
            }
        }
    }
}

#[derive(Clone)]
struct VQuery {
    com: usize,
    point: Fq,
    eval: Fq,
}

#[derive(Clone)]
struct Stmt {
    coms: Vec<VCom>,
    queries: Vec<VQuery>,
}

impl Stmt {
    fn is_true(&self) -> bool {
        self.queries.iter().all(|q| self.coms[q.com].value(q.point) == q.eval)
    }
}

struct World {
    srs: Arc<Srs>,
    points: Vec<Fq>,
    ppolys: Vec<Polynomial<Fq, Coeff>>,
    masks: Vec<u8>,
    chopped: Vec<bool>,
    /// (polynomial, point index) in query order
    order: Vec<(usize, usize)>,
    stmt: Stmt,
    nsets: usize,
}

impl World {
    fn any_chopped(&self) -> bool {
        self.chopped.iter().any(|c| *c)
    }
    fn multi_point(&self) -> bool {
        self.masks.iter().any(|m| m.count_ones() >= 2)
    }
    /// the non-triviality rule of the honest sub-checks
    fn nontrivial(&self) -> bool {
        self.nsets >= 2 || self.multi_point() || self.any_chopped()
    }
    fn shape(&self) -> String {
        format!("sets={}{}", self.nsets, if self.any_chopped() { "+chopped" } else { "" })
    }
    fn describe(&self, c: &SetCase) -> String {
        format!(
            "k={} masks={:?} chopped={:?} order={:?} queries={:?} bind={} point-sets={}",
            c.k, self.masks, self.chopped, c.order, self.order, c.bind, self.nsets
        )
    }
}

fn build(c: &SetCase) -> Result<World, Failure> {
    ensure!(
        (2..=7).contains(&c.k) && (1..=5).contains(&c.points.len()) && (1..=12).contains(&c.polys.len()),
        "harness:bad-case",
        "case outside the generator domain: {c:?}"
    );
    let n = 1usize << c.k;
    let srs = srs(c.k);
    let mut rng = ChaCha20Rng::seed_from_u64(c.seed);
    let np = c.points.len();
    let mut omega = Fq::ROOT_OF_UNITY;
    for _ in c.k..Fq::S {
        omega = omega.square();
    }
    let mut points: Vec<Fq> = vec![];
    for (j, kind) in c.points.iter().enumerate() {
        let mut v = match kind {
            PointKind::Random => Fq::random(&mut rng),
            PointKind::Zero => Fq::ZERO,
            PointKind::One => Fq::ONE,
            PointKind::Omega => omega.pow_vartime([j as u64 + 1]),
            PointKind::Small => Fq::from(j as u64 + 2),
        };
        while points.contains(&v) {
            v = Fq::random(&mut rng);
        }
        points.push(v);
    }
    let full: u8 = ((1u16 << np) - 1) as u8;
    let mut masks: Vec<u8> = vec![];
    let mut values: Vec<Vec<Fq>> = vec![];
    let mut coms: Vec<VCom> = vec![];
    let mut chopped: Vec<bool> = vec![];
    let mut chop_point: Option<usize> = None;
    // pieces of the chopped commitments, for twins (same pieces, distinct commitment object)
    let mut pieces_of: Vec<Option<Vec<Vec<Fq>>>> = vec![];
    let mut twin_of: Option<Vec<Vec<Fq>>> = None;
    for (i, spec) in c.polys.iter().enumerate() {
        let mut mask = spec.mask & full;
        if mask == 0 {
            mask = 1;
        }
        if !c.overfull {
            while mask.count_ones() as usize > n {
                mask &= mask - 1;
            }
        }
        let kind = match spec.kind {
            PolyKind::SameAs(j) => {
                if i == 0 {
                    PolyKind::Random
                } else {
                    let t = j as usize % i;
                    if chopped[t] {
                        // a twin of a chopped commitment: equal pieces, its own reference
                        twin_of = pieces_of[t].clone();
                        PolyKind::Chopped(0)
                    } else {
                        PolyKind::SameAs(t as u8)
                    }
                }
            }
            k => k,
        };
        match kind {
            PolyKind::Chopped(p) => {
                let own = mask.trailing_zeros() as usize;
                let shared = *chop_point.get_or_insert(own);
                let cp = if c.chop_pos == ChopPos::Free { own } else { shared };
                mask = 1 << cp;
                let pcs = 2 + (p as usize % 3);
                let pieces: Vec<Vec<Fq>> = match twin_of.take() {
                    Some(p) => p,
                    None => (0..pcs)
                        .map(|_| {
                            if rng.next_u32() % 8 == 0 {
                                vec![Fq::ZERO; n]
                            } else {
                                rand_vec(&mut rng, n)
                            }
                        })
                        .collect(),
                };
                pieces_of.push(Some(pieces.clone()));
                let x = points[cp];
                let sf = x.pow_vartime([n as u64 - 1]);
                let mut comb = vec![Fq::ZERO; n];
                let mut s = Fq::ONE;
                for pc in &pieces {
                    for (a, b) in comb.iter_mut().zip(pc) {
                        *a += *b * s;
                    }
                    s *= sf;
                }
                values.push(comb);
                coms.push(VCom::new(&srs, pieces, Some(n as u64)));
                chopped.push(true);
            }
            other => {
                let v: Vec<Fq> = match other {
                    PolyKind::Zero => vec![Fq::ZERO; n],
                    PolyKind::Const => {
                        let mut v = vec![Fq::ZERO; n];
                        v[0] = Fq::random(&mut rng);
                        v
                    }
                    PolyKind::Random => rand_vec(&mut rng, n),
                    PolyKind::Low(d) => {
                        let d = d as usize % n;
                        let mut v = rand_vec(&mut rng, d + 1);
                        v.resize(n, Fq::ZERO);
                        v
                    }
                    PolyKind::SameAs(t) => values[t as usize].clone(),
                    PolyKind::Chopped(_) => unreachable!(),
                };
                coms.push(VCom::new(&srs, vec![v.clone()], None));
                values.push(v);
                chopped.push(false);
                pieces_of.push(None);
            }
        }
        masks.push(mask);
    }
    // query order
    let mut order: Vec<(usize, usize)> = vec![];
    match c.order {
        Order::PolyMajor | Order::Shuffled => {
            for (i, m) in masks.iter().enumerate() {
                for j in 0..np {
                    if m >> j & 1 == 1 {
                        order.push((i, j));
                    }
                }
            }
        }
        Order::PointMajor => {
            for j in 0..np {
                for (i, m) in masks.iter().enumerate() {
                    if m >> j & 1 == 1 {
                        order.push((i, j));
                    }
                }
            }
        }
    }
    if c.order == Order::Shuffled {
        let mut sm = SplitMix(c.seed ^ 0x5EED_0C14);
        for i in (1..order.len()).rev() {
            let j = sm.below(i as u64 + 1) as usize;
            order.swap(i, j);
        }
    }
    if let Some(cp) = chop_point {
        let front = match c.chop_pos {
            ChopPos::First => order.iter().position(|&(i, _)| chopped[i]),
            ChopPos::NotFirst => order.iter().position(|&(_, j)| j != cp),
            ChopPos::Free => None,
        };
        if let Some(pos) = front {
            let item = order.remove(pos);
            order.insert(0, item);
        }
    }
    let queries: Vec<VQuery> = order
        .iter()
        .map(|&(i, j)| VQuery {
            com: i,
            point: points[j],
            eval: horner(&values[i], points[j]),
        })
        .collect();
    let stmt = Stmt { coms, queries };
    ensure!(stmt.is_true(), "harness:model", "the honest statement is not true in the model: {c:?}");
    let nsets = masks.iter().collect::<BTreeSet<_>>().len();
    let ppolys = values.iter().map(|v| mk_poly(v)).collect();
    Ok(World {
        srs,
        points,
        ppolys,
        masks,
        chopped,
        order,
        stmt,
        nsets,
    })
}

// ---------------------------------------------------------------------------
// Driving the code under test

fn absorb(t: &mut Tr, stmt: &Stmt) {
    for c in &stmt.coms {
        for g in &c.g {
            t.common(g).unwrap();
        }
    }
    for q in &stmt.queries {
        t.common(&q.point).unwrap();
        t.common(&q.eval).unwrap();
    }
}

/// Outer `Err`: panic message.
fn prove(w: &World, order: &[(usize, usize)], bind: bool) -> Result<Result<Vec<u8>, PolyError>, String> {
    vpcore::catch(|| {
        let mut t = Tr::init();
        if bind {
            absorb(&mut t, &w.stmt);
        }
        let qs: Vec<ProverQuery<Fq>> =
            order.iter().map(|&(i, j)| ProverQuery::new(w.points[j], &w.ppolys[i])).collect();
        Cs::multi_open(&w.srs.params, &qs, &mut t).map(|_| t.finalize())
    })
}

#[derive(Clone, Debug, PartialEq, Eq)]
enum Outcome {
    PrepareErr(String),
    Trailing,
    Pairing,
    Accepted,
}

impl Outcome {
    fn label(&self) -> String {
        match self {
            Outcome::PrepareErr(e) => format!("reject:multi_prepare:{e}"),
            Outcome::Trailing => "reject:trailing-bytes".into(),
            Outcome::Pairing => "reject:verify".into(),
            Outcome::Accepted => "accepted".into(),
        }
    }
}

/// Outer `Err`: panic message.
fn run_verifier(srs: &Srs, stmt: &Stmt, proof: &[u8], bind: bool) -> Result<Outcome, String> {
    vpcore::catch(|| {
        let mut t = Tr::init_from_bytes(proof);
        if bind {
            absorb(&mut t, stmt);
        }
        let parts: Vec<Vec<&G1>> = stmt.coms.iter().map(|c| c.g.iter().collect()).collect();
        let qs: Vec<VerifierQuery<Fq, Cs>> = stmt
            .queries
            .iter()
            .map(|q| {
                let c = &stmt.coms[q.com];
                match c.chop_n {
                    None => VerifierQuery::new(q.point, CommitmentLabel::Advice(q.com), &c.g[0], q.eval),
                    Some(n) => VerifierQuery::from_parts(
                        q.point,
                        CommitmentLabel::Custom("chopped".into()),
                        &parts[q.com],
                        q.eval,
                        n,
                    ),
                }
            })
            .collect();
        match Cs::multi_prepare(&qs, &mut t) {
            Err(e) => Outcome::PrepareErr(format!("{e:?}")),
            Ok(guard) => {
                let empty = t.assert_empty().is_ok();
                let ok = guard.verify(&srs.vparams).is_ok();
                if !empty {
                    Outcome::Trailing
                } else if !ok {
                    Outcome::Pairing
                } else {
                    Outcome::Accepted
                }
            }
        }
    })
}

/// The honest oracle; returns the proof bytes.
fn honest(w: &World, c: &SetCase) -> Result<Vec<u8>, Failure> {
    let proof = match prove(w, &w.order, c.bind) {
        Err(p) => fail!(
            format!("honest:multi_open:panic:{}", panic_signature(&p)),
            "multi_open panicked on an honest query set: {p}; {}",
            w.describe(c)
        ),
        Ok(Err(e)) => fail!(
            format!("honest:multi_open:err:{e:?}"),
            "multi_open returned {e:?} on an honest query set; {}",
            w.describe(c)
        ),
        Ok(Ok(b)) => b,
    };
    ensure!(
        proof.len() == 2 * G1_LEN + FQ_LEN * w.nsets,
        "honest:proof-layout",
        "opening proof has {} bytes, expected f_com + {} q_evals + pi = {}; {}",
        proof.len(),
        w.nsets,
        2 * G1_LEN + FQ_LEN * w.nsets,
        w.describe(c)
    );
    match run_verifier(&w.srs, &w.stmt, &proof, c.bind) {
        Err(p) => fail!(
            format!("honest:multi_prepare:panic:{}", panic_signature(&p)),
            "verifier panicked on an honest proof: {p}; {}",
            w.describe(c)
        ),
        Ok(Outcome::Accepted) => Ok(proof),
        Ok(o) => fail!(
            format!("honest:rejected:{}", o.label()),
            "honest opening proof rejected ({}); {}",
            o.label(),
            w.describe(c)
        ),
    }
}

fn honest_check(c: &SetCase) -> CaseResult {
    let w = build(c)?;
    honest(&w, c)?;
    let mut v = Verdict::of(w.nontrivial(), w.shape());
    v = v.with(format!("polys={}", if c.polys.len() <= 4 { c.polys.len().to_string() } else { "5+".into() }));
    if w.multi_point() {
        v = v.with("multi-point-poly");
    }
    for (i, p) in c.polys.iter().enumerate() {
        let l = match p.kind {
            PolyKind::Zero => "poly:zero",
            PolyKind::Const => "poly:const",
            PolyKind::SameAs(_) if i > 0 => "poly:identical-behind-distinct-ref",
            PolyKind::Chopped(_) => "poly:chopped",
            PolyKind::Low(_) => "poly:low-degree",
            _ => continue,
        };
        v = v.with(l);
    }
    if w.stmt.coms.iter().any(|c| c.chop_n.is_some() && c.g.len() == 4) {
        v = v.with("chopped:4-pieces");
    }
    {
        let ch: Vec<_> = w.stmt.coms.iter().filter(|c| c.chop_n.is_some()).collect();
        if ch.iter().enumerate().any(|(i, a)| ch[..i].iter().any(|b| a.g == b.g)) {
            v = v.with("chopped:twins");
        }
    }
    if c.bind {
        v = v.with("statement-absorbed");
    }
    v = v.with(format!("order:{:?}", c.order));
    v = v.with(format!("k={}", c.k));
    Ok(v)
}

// ---------------------------------------------------------------------------
// Faults

#[derive(Clone, Copy, Debug, PartialEq, Eq, Serialize, Deserialize)]
enum FaultKind {
    EvalPlusOne,
    EvalRandom,
    /// two claimed values changed by +d and -d (same point and same point set
    /// when possible): only the batching challenges separate them
    EvalPair,
    PointFresh,
    PointOther,
    ComAll,
    ComOneQuery,
    ComSwap,
    Piece,
    PieceSwap,
    ChopN,
    ElemReplace,
    BitFlip,
    Truncate,
    Append,
}

const ALL_FAULTS: [FaultKind; 15] = [
    FaultKind::EvalPair,
    FaultKind::EvalPlusOne,
    FaultKind::EvalRandom,
    FaultKind::PointFresh,
    FaultKind::PointOther,
    FaultKind::ComAll,
    FaultKind::ComOneQuery,
    FaultKind::ComSwap,
    FaultKind::Piece,
    FaultKind::PieceSwap,
    FaultKind::ChopN,
    FaultKind::ElemReplace,
    FaultKind::BitFlip,
    FaultKind::Truncate,
    FaultKind::Append,
];

#[derive(Clone, Debug, Serialize, Deserialize)]
struct Fault {
    kind: FaultKind,
    a: u16,
    b: u16,
    seed: u64,
}

#[derive(Clone, Debug, Serialize, Deserialize)]
struct FaultCase {
    set: SetCase,
    fault: Fault,
}

struct Applied {
    stmt: Stmt,
    proof: Vec<u8>,
    /// the fault concerns the statement (else: the proof bytes)
    on_stmt: bool,
    /// the corrupted element is read by the verifier
    read: bool,
    what: String,
}

fn g1_from(b: &[u8]) -> Option<G1> {
    let mut r = <G1 as GroupEncoding>::Repr::default();
    r.as_mut().copy_from_slice(b);
    G1::from_bytes(&r).into()
}

fn g1_bytes(p: &G1) -> Vec<u8> {
    p.to_bytes().as_ref().to_vec()
}

fn fq_from(b: &[u8]) -> Option<Fq> {
    let mut r = <Fq as PrimeField>::Repr::default();
    r.as_mut().copy_from_slice(b);
    Fq::from_repr(r).into()
}

fn fq_bytes(s: &Fq) -> Vec<u8> {
    s.to_repr().as_ref().to_vec()
}

fn nonzero(rng: &mut ChaCha20Rng) -> Fq {
    loop {
        let v = Fq::random(&mut *rng);
        if v != Fq::ZERO {
            return v;
        }
    }
}

/// (offset, length, is_group_element) of the elements of the opening proof
fn layout(nsets: usize) -> Vec<(usize, usize, bool)> {
    let mut v = vec![(0, G1_LEN, true)];
    for j in 0..nsets {
        v.push((G1_LEN + FQ_LEN * j, FQ_LEN, false));
    }
    v.push((G1_LEN + FQ_LEN * nsets, G1_LEN, true));
    v
}

/// `None`: the fault does not apply to this query set (or would change nothing).
fn apply_fault(w: &World, honest_proof: &[u8], f: &Fault) -> Option<Applied> {
    let mut rng = ChaCha20Rng::seed_from_u64(f.seed);
    let mut stmt = w.stmt.clone();
    let mut proof = honest_proof.to_vec();
    let (a, b) = (f.a as usize, f.b as usize);
    let nq = stmt.queries.len();
    let mut on_stmt = true;
    let mut read = true;
    let what;
    let perturb = |v: &mut Vec<Fq>, variant: usize, rng: &mut ChaCha20Rng| {
        if variant % 2 == 0 {
            v[0] += nonzero(rng);
        } else {
            let old = v.clone();
            loop {
                *v = rand_vec(rng, old.len());
                if *v != old {
                    break;
                }
            }
        }
    };
    match f.kind {
        FaultKind::EvalPlusOne => {
            let q = a % nq;
            stmt.queries[q].eval += Fq::ONE;
            what = format!("eval of query {q} + 1");
        }
        FaultKind::EvalRandom => {
            let q = a % nq;
            let old = stmt.queries[q].eval;
            let mut v = Fq::random(&mut rng);
            if v == old {
                v += Fq::ONE;
            }
            stmt.queries[q].eval = v;
            what = format!("eval of query {q} random");
        }
        FaultKind::EvalPair => {
            let q = a % nq;
            let mask_of = |c: usize| -> Vec<Fq> {
                let mut m: Vec<Fq> = stmt.queries.iter().filter(|x| x.com == c).map(|x| x.point).collect();
                m.sort();
                m
            };
            let (pt, mk) = (stmt.queries[q].point, mask_of(stmt.queries[q].com));
            let same_set: Vec<usize> = (0..nq)
                .filter(|i| *i != q && stmt.queries[*i].point == pt && mask_of(stmt.queries[*i].com) == mk)
                .collect();
            let same_point: Vec<usize> = (0..nq).filter(|i| *i != q && stmt.queries[*i].point == pt).collect();
            let any: Vec<usize> = (0..nq).filter(|i| *i != q).collect();
            let cands = if !same_set.is_empty() {
                same_set
            } else if !same_point.is_empty() {
                same_point
            } else {
                any
            };
            if cands.is_empty() {
                return None;
            }
            let q2 = cands[b % cands.len()];
            let d = nonzero(&mut rng);
            stmt.queries[q].eval += d;
            stmt.queries[q2].eval -= d;
            what = format!("evals of queries {q} and {q2} changed by +d / -d");
        }
        FaultKind::PointFresh => {
            let q = a % nq;
            let mut v = Fq::random(&mut rng);
            while w.points.contains(&v) {
                v = Fq::random(&mut rng);
            }
            stmt.queries[q].point = v;
            what = format!("point of query {q} replaced by a fresh point");
        }
        FaultKind::PointOther => {
            let q = a % nq;
            if w.points.len() < 2 {
                return None;
            }
            let others: Vec<Fq> = w.points.iter().copied().filter(|p| *p != stmt.queries[q].point).collect();
            let np = others[b % others.len()];
            // a chopped commitment must stay opened at a single point
            // (documented requirement of the chopped form)
            let c = stmt.queries[q].com;
            if stmt.coms[c].chop_n.is_some() && stmt.queries.iter().filter(|x| x.com == c).count() > 1 {
                return None;
            }
            stmt.queries[q].point = np;
            what = format!("point of query {q} replaced by another point of the set");
        }
        FaultKind::ComAll => {
            let cands: Vec<usize> = (0..stmt.coms.len()).filter(|i| stmt.coms[*i].chop_n.is_none()).collect();
            if cands.is_empty() {
                return None;
            }
            let c = cands[a % cands.len()];
            perturb(&mut stmt.coms[c].pieces[0], b, &mut rng);
            stmt.coms[c].recommit(&w.srs);
            what = format!("commitment {c} replaced (all its queries) variant {}", b % 2);
        }
        FaultKind::ComOneQuery => {
            let q = a % nq;
            let mut nc = stmt.coms[stmt.queries[q].com].clone();
            let pc = (b / 2) % nc.pieces.len();
            perturb(&mut nc.pieces[pc], b, &mut rng);
            nc.recommit(&w.srs);
            stmt.coms.push(nc);
            stmt.queries[q].com = stmt.coms.len() - 1;
            what = format!("commitment of query {q} only replaced by a fresh commitment, variant {}", b % 2);
        }
        FaultKind::ComSwap => {
            let q = a % nq;
            let cur = stmt.queries[q].com;
            // another existing one-piece commitment object with a different value
            let cands: Vec<usize> = (0..stmt.coms.len())
                .filter(|i| *i != cur && stmt.coms[*i].chop_n.is_none() && stmt.coms[*i].g != stmt.coms[cur].g)
                .collect();
            if cands.is_empty() {
                return None;
            }
            let c = cands[b % cands.len()];
            stmt.queries[q].com = c;
            what = format!("commitment of query {q} replaced by existing commitment {c}");
        }
        FaultKind::Piece | FaultKind::PieceSwap | FaultKind::ChopN => {
            let cands: Vec<usize> = (0..stmt.coms.len()).filter(|i| stmt.coms[*i].chop_n.is_some()).collect();
            if cands.is_empty() {
                return None;
            }
            let c = cands[a % cands.len()];
            let pcs = stmt.coms[c].pieces.len();
            match f.kind {
                FaultKind::Piece => {
                    let pc = (b / 2) % pcs;
                    perturb(&mut stmt.coms[c].pieces[pc], b, &mut rng);
                    what = format!("piece {pc} of chopped commitment {c} replaced, variant {}", b % 2);
                }
                FaultKind::PieceSwap => {
                    let i = b % pcs;
                    let j = (i + 1) % pcs;
                    if stmt.coms[c].pieces[i] == stmt.coms[c].pieces[j] {
                        return None;
                    }
                    stmt.coms[c].pieces.swap(i, j);
                    what = format!("pieces {i} and {j} of chopped commitment {c} swapped");
                }
                _ => {
                    let n = stmt.coms[c].chop_n.unwrap();
                    let nn = if b % 2 == 0 { n + 1 } else { n - 1 };
                    stmt.coms[c].chop_n = Some(nn);
                    what = format!("piece size of chopped commitment {c}: {n} -> {nn}");
                }
            }
            stmt.coms[c].recommit(&w.srs);
        }
        FaultKind::ElemReplace => {
            on_stmt = false;
            let lay = layout(w.nsets);
            let e = a % lay.len();
            let (off, len, is_g) = lay[e];
            let new: Vec<u8> = if is_g {
                let old = g1_from(&proof[off..off + len])?;
                let cand = match b % 4 {
                    0 => old + G1::generator(),
                    1 => G1::generator() * nonzero(&mut rng),
                    2 => G1::identity(),
                    _ => {
                        // the other group element of the proof
                        let (o2, l2, _) = if e == 0 { lay[lay.len() - 1] } else { lay[0] };
                        g1_from(&proof[o2..o2 + l2])?
                    }
                };
                g1_bytes(&cand)
            } else {
                let old = fq_from(&proof[off..off + len])?;
                let cand = match b % 4 {
                    0 => old + Fq::ONE,
                    1 => Fq::random(&mut rng),
                    2 => Fq::ZERO,
                    _ => {
                        // the next q_eval (cyclically)
                        let j = e - 1;
                        let (o2, l2, _) = lay[1 + (j + 1) % w.nsets];
                        fq_from(&proof[o2..o2 + l2])?
                    }
                };
                fq_bytes(&cand)
            };
            if new == proof[off..off + len] {
                return None;
            }
            proof[off..off + len].copy_from_slice(&new);
            let name = if e == 0 {
                "f_com".to_string()
            } else if e == lay.len() - 1 {
                "pi".to_string()
            } else {
                format!("q_eval[{}]", e - 1)
            };
            what = format!("proof element {name} replaced, variant {}", b % 4);
        }
        FaultKind::BitFlip => {
            on_stmt = false;
            let pos = a % proof.len();
            proof[pos] ^= 1 << (b % 8);
            what = format!("bit {} of proof byte {pos} flipped", b % 8);
        }
        FaultKind::Truncate => {
            on_stmt = false;
            let cut = a % proof.len() + 1;
            proof.truncate(proof.len() - cut);
            what = format!("last {cut} bytes of the proof removed");
        }
        FaultKind::Append => {
            on_stmt = false;
            read = false;
            match b % 3 {
                0 => {
                    let mut extra = vec![0u8; a % 64 + 1];
                    rng.fill_bytes(&mut extra);
                    proof.extend(extra);
                }
                1 => proof.extend(g1_bytes(&(G1::generator() * nonzero(&mut rng)))),
                _ => proof.extend(fq_bytes(&Fq::random(&mut rng))),
            }
            what = format!("bytes appended to the proof, variant {}", b % 3);
        }
    }
    Some(Applied {
        stmt,
        proof,
        on_stmt,
        read,
        what,
    })
}

fn fault_check(fc: &FaultCase) -> CaseResult {
    let w = build(&fc.set)?;
    let proof = honest(&w, &fc.set)?;
    let kind = fc.fault.kind;
    let Some(ap) = apply_fault(&w, &proof, &fc.fault) else {
        return Ok(Verdict::trivial(format!("n/a:{kind:?}")));
    };
    let out = match run_verifier(&w.srs, &ap.stmt, &ap.proof, fc.set.bind) {
        Ok(o) => o,
        Err(p) => fail!(
            format!("fault:{kind:?}:panic:{}", panic_signature(&p)),
            "verifier panicked instead of returning Err after: {}; panic: {p}; {}",
            ap.what,
            w.describe(&fc.set)
        ),
    };
    let claim_true = ap.stmt.is_true();
    if ap.on_stmt && claim_true {
        // differs from the prover's statement but is a true statement: not judged
        return Ok(Verdict::trivial(format!("claim-still-true:{kind:?}")).with(format!("claim-still-true:{}", out.label())));
    }
    ensure!(
        out != Outcome::Accepted,
        format!("fault:{kind:?}:accepted"),
        "verification succeeded after: {}; {}",
        ap.what,
        w.describe(&fc.set)
    );
    Ok(Verdict::of(ap.read, format!("{kind:?}"))
        .with(out.label())
        .with(w.shape())
        .with(if fc.set.bind { "statement-absorbed" } else { "statement-not-absorbed" }))
}

/// Every single fault of the fault model for one query set.
fn enumerate_faults(set: &SetCase, w: &World, all_bits: bool, seed: u64) -> Vec<FaultCase> {
    let mut out = vec![];
    let mut sm = SplitMix(seed);
    let mut push = |kind: FaultKind, a: usize, b: usize| {
        out.push(FaultCase {
            set: set.clone(),
            fault: Fault {
                kind,
                a: a as u16,
                b: b as u16,
                seed: sm.next_u64(),
            },
        })
    };
    let nq = w.order.len();
    let ncom = w.stmt.coms.len();
    let np = w.points.len();
    for q in 0..nq {
        push(FaultKind::EvalPlusOne, q, 0);
        push(FaultKind::EvalRandom, q, 0);
        push(FaultKind::EvalPair, q, 0);
        push(FaultKind::EvalPair, q, 1);
        push(FaultKind::PointFresh, q, 0);
        for b in 0..np.saturating_sub(1) {
            push(FaultKind::PointOther, q, b);
        }
        push(FaultKind::ComOneQuery, q, 0);
        push(FaultKind::ComOneQuery, q, 1);
        for b in 0..ncom.saturating_sub(1) {
            push(FaultKind::ComSwap, q, b);
        }
    }
    let plain = w.chopped.iter().filter(|c| !**c).count();
    for c in 0..plain {
        push(FaultKind::ComAll, c, 0);
        push(FaultKind::ComAll, c, 1);
    }
    let chopped: Vec<usize> = (0..ncom).filter(|i| w.chopped[*i]).collect();
    for (ci, c) in chopped.iter().enumerate() {
        let pcs = w.stmt.coms[*c].pieces.len();
        for b in 0..2 * pcs {
            push(FaultKind::Piece, ci, b);
        }
        for b in 0..pcs {
            push(FaultKind::PieceSwap, ci, b);
        }
        push(FaultKind::ChopN, ci, 0);
        push(FaultKind::ChopN, ci, 1);
    }
    let lay = layout(w.nsets);
    for e in 0..lay.len() {
        for b in 0..4 {
            push(FaultKind::ElemReplace, e, b);
        }
    }
    let len = 2 * G1_LEN + FQ_LEN * w.nsets;
    for pos in 0..len {
        let first_of_g1 = pos == 0 || pos == len - G1_LEN;
        if all_bits || first_of_g1 {
            for b in 0..8 {
                push(FaultKind::BitFlip, pos, b);
            }
        } else {
            push(FaultKind::BitFlip, pos, (pos * 5 + seed as usize) % 8);
        }
    }
    let mut cuts: Vec<usize> = vec![1, 2, 32, 47, 48, 49, 80, len - G1_LEN, len - 1, len];
    cuts.sort();
    cuts.dedup();
    for cut in cuts.into_iter().filter(|c| *c >= 1 && *c <= len) {
        push(FaultKind::Truncate, cut - 1, 0);
    }
    for a in [0usize, 31, 47, 63] {
        push(FaultKind::Append, a, 0);
    }
    push(FaultKind::Append, 0, 1);
    push(FaultKind::Append, 0, 2);
    out
}

// ---------------------------------------------------------------------------
// Duplicated (commitment, point) pairs

#[derive(Clone, Debug, Serialize, Deserialize)]
struct DupCase {
    set: SetCase,
    which: u16,
    at: u16,
    /// the repeated verifier query claims another value
    other_eval: bool,
}

fn dup_check(c: &DupCase) -> CaseResult {
    let w = build(&c.set)?;
    let proof = honest(&w, &c.set)?;
    let nq = w.order.len();
    let q = vpcore::idx(c.which, nq);
    let pos = vpcore::idx(c.at, nq + 1);
    // prover side
    let mut order = w.order.clone();
    let item = order[q];
    order.insert(pos, item);
    match prove(&w, &order, c.set.bind) {
        Err(p) => fail!(
            format!("dup:prover:panic:{}", panic_signature(&p)),
            "multi_open panicked on a repeated (polynomial, point) pair: {p}; queries {order:?}"
        ),
        Ok(Ok(_)) => fail!(
            "dup:prover:not-refused",
            "multi_open accepted a query list repeating (polynomial {}, point {}): {order:?}",
            item.0,
            item.1
        ),
        Ok(Err(PolyError::DuplicatedQuery)) => {}
        Ok(Err(e)) => fail!(
            "dup:prover:wrong-error",
            "multi_open returned {e:?} instead of DuplicatedQuery for {order:?}"
        ),
    }
    // verifier side
    let mut stmt = w.stmt.clone();
    let mut dq = stmt.queries[q].clone();
    if c.other_eval {
        dq.eval += Fq::ONE;
    }
    stmt.queries.insert(pos, dq);
    match run_verifier(&w.srs, &stmt, &proof, c.set.bind) {
        Err(p) => fail!(
            format!("dup:verifier:panic:{}", panic_signature(&p)),
            "multi_prepare panicked on a repeated (commitment, point) pair: {p}; {}",
            w.describe(&c.set)
        ),
        Ok(Outcome::PrepareErr(e)) if e == "DuplicatedQuery" => {}
        Ok(Outcome::PrepareErr(e)) => fail!(
            "dup:verifier:wrong-error",
            "multi_prepare returned {e} instead of DuplicatedQuery; {}",
            w.describe(&c.set)
        ),
        Ok(o) => fail!(
            "dup:verifier:not-refused",
            "multi_prepare did not refuse a repeated (commitment, point) pair (outcome {}); duplicate of query {q} inserted at {pos}; {}",
            o.label(),
            w.describe(&c.set)
        ),
    }
    let chopped_dup = w.chopped[item.0];
    Ok(Verdict::of(nq >= 2, if chopped_dup { "dup:chopped" } else { "dup:one-piece" })
        .with(if c.other_eval { "dup:other-eval" } else { "dup:same-eval" })
        .with(if pos == q || pos == q + 1 { "dup:adjacent" } else { "dup:apart" })
        .with(w.shape()))
}

// ---------------------------------------------------------------------------
// Strategies

fn kind_strategy(with_chopped: bool) -> BoxedStrategy<PolyKind> {
    prop_oneof![
        5 => Just(PolyKind::Random),
        1 => Just(PolyKind::Zero),
        1 => Just(PolyKind::Const),
        1 => any::<u8>().prop_map(PolyKind::Low),
        2 => any::<u8>().prop_map(PolyKind::SameAs),
        (if with_chopped { 1 } else { 0 }) => any::<u8>().prop_map(PolyKind::Chopped),
    ]
    .boxed()
}

fn point_kind_strategy() -> BoxedStrategy<PointKind> {
    prop_oneof![
        6 => Just(PointKind::Random),
        1 => Just(PointKind::Zero),
        1 => Just(PointKind::One),
        2 => Just(PointKind::Omega),
        1 => Just(PointKind::Small),
    ]
    .boxed()
}

fn order_strategy() -> BoxedStrategy<Order> {
    prop_oneof![1 => Just(Order::PolyMajor), 1 => Just(Order::PointMajor), 2 => Just(Order::Shuffled)].boxed()
}

/// `chop`: 0 = chopped polynomials as any other kind, 1 = first polynomial
/// chopped, 2 = none.
fn set_strategy(max_polys: usize, chop: u8, chop_pos: Option<ChopPos>) -> BoxedStrategy<SetCase> {
    let min_points = if chop_pos == Some(ChopPos::NotFirst) { 2usize } else { 1 };
    let pos = match chop_pos {
        Some(p) => Just(p).boxed(),
        None => prop_oneof![Just(ChopPos::First), Just(ChopPos::NotFirst), Just(ChopPos::Free)].boxed(),
    };
    (2u32..=7, min_points..=5usize, 1usize..=max_polys, any::<u64>(), order_strategy(), any::<bool>(), pos)
        .prop_flat_map(move |(k, np, m, seed, order, bind, chop_pos)| {
            let top = (1u16 << np) as u8;
            let palette = proptest::collection::vec(1u8..top, 3);
            let polys = proptest::collection::vec((kind_strategy(chop == 0), 0usize..5, 1u8..top), m);
            let points = proptest::collection::vec(point_kind_strategy(), np);
            (palette, polys, points, any::<u8>()).prop_map(move |(palette, polys, points, pcs)| {
                let mut polys: Vec<PolySpec> = polys
                    .into_iter()
                    .map(|(kind, sel, raw)| PolySpec {
                        kind,
                        mask: if sel < 3 { palette[sel] } else { raw },
                    })
                    .collect();
                if chop == 1 {
                    polys[0].kind = PolyKind::Chopped(pcs);
                }
                SetCase {
                    k,
                    seed,
                    points,
                    polys,
                    order,
                    bind,
                    chop_pos,
                    overfull: false,
                }
            })
        })
        .boxed()
}

fn fault_strategy() -> BoxedStrategy<FaultCase> {
    (
        prop_oneof![set_strategy(8, 0, None), set_strategy(8, 1, None), set_strategy(8, 2, None)],
        proptest::sample::select(ALL_FAULTS.to_vec()),
        any::<u16>(),
        any::<u16>(),
        any::<u64>(),
    )
        .prop_map(|(set, kind, a, b, seed)| FaultCase {
            set,
            fault: Fault { kind, a, b, seed },
        })
        .boxed()
}

// ---------------------------------------------------------------------------
// Enumerations

/// Every pattern, `reps` times (fresh polynomials and points, k rotated).
fn all_patterns(seed: u64, reps: u32) -> Vec<SetCase> {
    let mut out = vec![];
    let mut sm = SplitMix(seed ^ 0xC14_0A77);
    for rep in 0..reps {
    for np in 1usize..=3 {
        let top = 1u32 << np;
        for m in 1usize..=4 {
            let total = (top - 1).pow(m as u32);
            for code in 0..total {
                let mut c = code;
                let masks: Vec<u8> = (0..m)
                    .map(|_| {
                        let d = c % (top - 1);
                        c /= top - 1;
                        (d + 1) as u8
                    })
                    .collect();
                let has_single = masks.iter().any(|x| x.count_ones() == 1);
                // plain in two orders, chopped (first single-point polynomial) in one
                for variant in 0..3u8 {
                    if variant == 2 && !has_single {
                        continue;
                    }
                    let mut done = false;
                    let polys: Vec<PolySpec> = masks
                        .iter()
                        .map(|mk| {
                            let kind = if variant == 2 && !done && mk.count_ones() == 1 {
                                done = true;
                                PolyKind::Chopped((code % 3) as u8)
                            } else {
                                PolyKind::Random
                            };
                            PolySpec { kind, mask: *mk }
                        })
                        .collect();
                    out.push(SetCase {
                        k: 2 + (code + m as u32 + rep) % 3 + rep / 3,
                        seed: sm.next_u64(),
                        points: vec![PointKind::Random; np],
                        polys,
                        order: if variant == 1 { Order::PointMajor } else { Order::PolyMajor },
                        bind: code % 2 == 1,
                        chop_pos: ChopPos::First,
                        overfull: false,
                    });
                }
            }
        }
    }
    }
    out
}

fn spec(kind: PolyKind, mask: u8) -> PolySpec {
    PolySpec { kind, mask }
}

fn fault_bases(seed: u64) -> Vec<SetCase> {
    use PolyKind::*;
    let mut sm = SplitMix(seed ^ 0xFA17);
    let mut mk = |k: u32, np: usize, polys: Vec<PolySpec>, order: Order, bind: bool| SetCase {
        k,
        seed: sm.next_u64(),
        points: vec![PointKind::Random; np],
        polys,
        order,
        bind,
        chop_pos: ChopPos::First,
        overfull: false,
    };
    let mut free = mk(
        3,
        2,
        vec![spec(Random, 0b10), spec(Chopped(0), 0b01), spec(Chopped(1), 0b10), spec(Random, 0b11)],
        Order::PolyMajor,
        false,
    );
    free.chop_pos = ChopPos::Free;
    // chopped twins: equal pieces behind two commitment references, at one point and at two
    let twins_same = mk(3, 2, vec![spec(Chopped(1), 0b01), spec(SameAs(0), 0b01), spec(Random, 0b11)], Order::PolyMajor, false);
    let mut twins_free = mk(3, 2, vec![spec(Random, 0b10), spec(Chopped(0), 0b01), spec(SameAs(1), 0b10), spec(Random, 0b11)], Order::PolyMajor, false);
    twins_free.chop_pos = ChopPos::Free;
    vec![
        free,
        twins_same,
        twins_free,
        mk(2, 1, vec![spec(Random, 1)], Order::PolyMajor, false),
        mk(3, 3, vec![spec(Random, 0b111)], Order::PolyMajor, false),
        mk(3, 2, vec![spec(Random, 0b01), spec(Random, 0b10)], Order::PolyMajor, false),
        mk(
            4,
            3,
            vec![spec(Random, 0b011), spec(Random, 0b011), spec(Random, 0b100)],
            Order::PointMajor,
            false,
        ),
        // h(X) in pieces and the random polynomial, both at x: the vanishing argument
        mk(3, 1, vec![spec(Chopped(0), 1), spec(Random, 1)], Order::PolyMajor, false),
        mk(
            4,
            2,
            vec![spec(Chopped(2), 0b01), spec(Random, 0b11), spec(Random, 0b10), spec(Const, 0b01)],
            Order::PolyMajor,
            false,
        ),
        mk(
            3,
            2,
            vec![spec(Zero, 0b01), spec(Const, 0b11), spec(Random, 0b10)],
            Order::Shuffled,
            false,
        ),
        mk(
            5,
            3,
            vec![spec(Random, 0b011), spec(SameAs(0), 0b011), spec(Random, 0b100)],
            Order::Shuffled,
            false,
        ),
        mk(
            2,
            4,
            vec![spec(Random, 0b1111), spec(Low(1), 0b1111), spec(Random, 0b0110)],
            Order::PointMajor,
            false,
        ),
        mk(
            6,
            4,
            vec![
                spec(Chopped(1), 0b0001),
                spec(Random, 0b0011),
                spec(Random, 0b0011),
                spec(Low(3), 0b1000),
                spec(SameAs(1), 0b0101),
                spec(Zero, 0b0001),
            ],
            Order::Shuffled,
            true,
        ),
        mk(
            7,
            5,
            vec![
                spec(Random, 0b00001),
                spec(Random, 0b00011),
                spec(Random, 0b00011),
                spec(Const, 0b00100),
                spec(Random, 0b11000),
                spec(Random, 0b11111),
                spec(SameAs(4), 0b11000),
                spec(Low(2), 0b00001),
                spec(Random, 0b10101),
                spec(Zero, 0b00100),
                spec(Random, 0b01000),
                spec(Random, 0b00011),
            ],
            Order::Shuffled,
            false,
        ),
        mk(
            4,
            3,
            vec![spec(Random, 0b011), spec(Random, 0b011), spec(Random, 0b100)],
            Order::PointMajor,
            true,
        ),
    ]
}

fn main() {
    vpcore::main("C14", "fault_enumeration", (900, 7200), |p| {
        p.assume("commitments are made with KZGCommitmentScheme::commit from coefficients held by the harness; the truth of a (corrupted) statement is decided by Horner evaluation of those coefficients");
        p.assume("the toxic SRS secret is drawn by ParamsKZG::unsafe_setup from ChaCha20Rng with a fixed seed per k (k = 2..7); one SRS per k is shared by all cases");
        p.assume("prover and verifier receive their queries in the same order (the API documents no order independence)");
        p.assume("rejection = Err from multi_prepare, or unread transcript bytes (assert_empty, as every in-repo caller checks), or Err from DualMSM::verify");

        // (a) every assignment pattern, <= 4 polynomials x <= 3 points
        p.enumerate(
            "patterns",
            "every way to open 1..4 polynomials each at a non-empty subset of 1..3 points (random polynomials, k = 2..4; thorough: six repetitions, k = 2..5), in polynomial-major and point-major query order, and with the first single-point polynomial committed in 2..4 pieces; honest proof must verify; non-trivial = >= 2 point sets, or a polynomial opened at >= 2 points, or a chopped commitment",
            all_patterns(p.seed, p.tier.pick(1, 6)),
            16,
            true,
            honest_check,
        );

        // (b) + (c) random larger query sets
        p.sub(
            "random",
            "1..12 polynomials (zero, constant, low degree, random, identical behind distinct references, chopped in 2..4 pieces at one point) of degree < 2^k (k 2..7), 1..5 distinct points (random, 0, 1, roots of unity, small), masks from a small palette or uniform, three query orders, statement absorbed or not; honest proof must verify; non-trivial = >= 2 point sets, or a polynomial opened at >= 2 points, or chopped",
            p.tier.pick(1_000, 20_000),
            16,
            || set_strategy(12, 0, None),
            honest_check,
        );
        p.sub(
            "chopped",
            "as 'random' with the first polynomial always chopped (2..4 pieces, pieces zero with probability 1/8); chopped query first / behind a query at another point / unconstrained with one point per chopped polynomial; non-trivial always (chopped)",
            p.tier.pick(400, 8_000),
            16,
            || set_strategy(12, 1, None),
            honest_check,
        );
        // the chopped query at a point that is not the first distinct point of
        // the query list: regression for the defect described in the header
        p.sub(
            "chopped.position",
            "as 'chopped', >= 2 points, but a query at another point precedes the queries at the chopped point; honest proof must verify; non-trivial = the first query is at another point than the chopped one",
            p.tier.pick(160, 3_200),
            8,
            || set_strategy(6, 1, Some(ChopPos::NotFirst)),
            |c| {
                let w = build(c)?;
                let cp = w.order.iter().find(|&&(i, _)| w.chopped[i]).map(|&(_, j)| j);
                if cp == Some(w.order[0].1) {
                    // every polynomial is opened at the chopped point only
                    honest(&w, c)?;
                    return Ok(Verdict::trivial("chopped-point-first"));
                }
                honest(&w, c).map_err(|f| {
                    if f.signature.starts_with("honest:multi_prepare:panic:") && f.signature.contains("index out of bounds") {
                        Failure::new("chopped:point-not-first:multi_prepare:index-out-of-bounds", f.detail)
                    } else {
                        f
                    }
                })?;
                Ok(Verdict::nontrivial("chopped-point-not-first").with(w.shape()))
            },
        );
        // a polynomial opened at more points than it has coefficients
        {
            let mut items = vec![];
            let mut sm = SplitMix(p.seed ^ 0x0E_D6E);
            for (k, np, masks) in [
                (2u32, 4usize, vec![0b1111u8]),
                (2, 5, vec![0b11111]),
                (2, 5, vec![0b11111, 0b00001]),
                (2, 5, vec![0b01111, 0b11110]),
            ] {
                items.push(SetCase {
                    k,
                    seed: sm.next_u64(),
                    points: vec![PointKind::Random; np],
                    polys: masks.iter().map(|m| spec(PolyKind::Random, *m)).collect(),
                    order: Order::PolyMajor,
                    bind: false,
                    chop_pos: ChopPos::First,
                    overfull: true,
                });
            }
            p.enumerate(
                "edge.points_vs_degree",
                "k = 2: a polynomial with 4 coefficients opened at 4 and at 5 distinct points; honest proof must verify; non-trivial always (multi-point)",
                items,
                1, // one thread: the first reported item is the same in every run
                false,
                |c| {
                    honest_check(c).map_err(|f| {
                        if f.signature.starts_with("honest:multi_open:panic:") && f.signature.contains("capacity overflow") {
                            Failure::new("multi_open:points>coefficients:capacity-overflow", f.detail)
                        } else {
                            f
                        }
                    })
                },
            );
        }

        // (d) single faults
        {
            let mut items = vec![];
            for (i, base) in fault_bases(p.seed).into_iter().enumerate() {
                match build(&base) {
                    Ok(w) => items.extend(enumerate_faults(&base, &w, !p.quick(), p.seed ^ i as u64)),
                    Err(f) => p.inconclusive(format!("fault base {i}: {}", f.detail)),
                }
            }
            p.enumerate(
                "faults.enum",
                "13 fixed query-set shapes (two chopped commitments at different points behind another query, single opening, multi-point, several point sets, vanishing-like chopped + random, zero/constant, identical polynomials, |points| = 2^k, 12 polys x 5 points, statement absorbed) x every single fault: each claimed value (+1, random, +d with -d on a second value of the same point set), each point (fresh, another point of the set), each commitment (all queries / one query / another existing commitment), each piece (value, order, piece size), each proof element f_com / q_eval_j / pi (+G or +1, random, identity or 0, swapped), a bit of every proof byte (all bits in thorough; all bits of the flag bytes), truncations at and around element boundaries, appended bytes; must be rejected without panic; non-trivial = corrupted element is read by the verifier (all but appended bytes) and the corrupted statement is false",
                items,
                16,
                false,
                fault_check,
            );
        }
        p.sub(
            "faults.random",
            "random query sets (<= 8 polynomials, chopped commitments anywhere in the list) x one random fault of the same fault model; must be rejected without panic; non-trivial as in faults.enum",
            p.tier.pick(2_500, 50_000),
            16,
            fault_strategy,
            fault_check,
        );

        // (e) duplicates
        p.sub(
            "duplicates",
            "random query set with one (commitment, point) pair repeated at a random position (same or different claimed value): multi_open and multi_prepare must both return Error::DuplicatedQuery; non-trivial = the set has >= 2 queries before duplication",
            p.tier.pick(500, 10_000),
            16,
            || {
                (set_strategy(8, 0, None), any::<u16>(), any::<u16>(), any::<bool>())
                    .prop_map(|(set, which, at, other_eval)| DupCase {
                        set,
                        which,
                        at,
                        other_eval,
                    })
                    .boxed()
            },
            dup_check,
        );
    });
}
