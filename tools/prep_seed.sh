#!/bin/bash
# prep_seed.sh <ID> <suffix>: writes /tmp/seedprompt-<id><suffix>.txt (with the "already done" hints of
# tools/seed_avoid.json) and creates the scratch worktree /tmp/seedwt-<id><suffix> + /tmp/seedout-<id><suffix>
set -e
ID=$1; SUF=$2; T=$(echo $ID | tr A-Z a-z)$SUF
python3 /verif/tools/mk_seedprompt.py $ID $SUF >/dev/null
python3 - "$ID" "$T" <<'PY'
import json,sys
pid,t=sys.argv[1],sys.argv[2]
av=json.load(open('/verif/tools/seed_avoid.json'))[pid]
f=f'/tmp/seedprompt-{t}.txt'
s=open(f).read()
hint='\nEarlier engineers already produced regressions for this property in these areas: '+'; '.join(av)+'. Choose a DIFFERENT mechanism and a different part of the code for yours.\n\nTASK. '
s=s.replace('\nTASK. ',hint,1)
open(f,'w').write(s)
PY
git -C /repo worktree add -q --detach /tmp/seedwt-$T HEAD
mkdir -p /tmp/seedout-$T
echo /tmp/seedprompt-$T.txt
