//! C12 — MSM, FFT and the evaluation-domain algebra equal their naive
//! definitions.
//!
//! One binary, two library parts (so that a single evidence file is written):
//! * `vp_alg::c12_msm::run`   — `midnight_curves::msm::{msm_serial, msm_parallel,
//!   msm_best}`, `G1Projective::multi_exp`, `G2Projective::multi_exp`,
//!   `midnight_curves::fft::best_fft` (field and group inputs);
//! * `vp_plonk::c12_domain::run` — `EvaluationDomain`, `Polynomial`, polynomial
//!   utilities, Lagrange-basis SRS and commitments, `msm_specific`, `MSMKZG`,
//!   `Rational` of `midnight_proofs`.
//!
//! Sensitivity (mutants applied in a scratch worktree, quick tier, seed 1):
//! see the block at the end of this comment (filled in after the runs).

fn main() {
    vpcore::main("C12", "exploration", (900, 7200), |p| {
        vp_alg::c12_msm::run(p);
        vp_plonk::c12_domain::run(p);
    });
}
