//! Model-side helpers for C11: a uniform interface over the big-integer field
//! models (`Zp`, `Ext2`) and the affine group-law models (`Weierstrass`,
//! `Weierstrass2`, `Edwards`) of `model.rs`, plus square roots, point search
//! and torsion-point construction. Everything here is big-integer arithmetic
//! written from the definitions; nothing calls the code under test.

use std::fmt::Debug;

use num_bigint::BigUint;
use num_traits::{One, Zero};
use vpcore::SplitMix;

use crate::model::*;

/// Square root modulo an odd prime (Tonelli–Shanks), verified by squaring.
pub fn sqrt_mod(p: &BigUint, a: &BigUint) -> Option<BigUint> {
    let a = a % p;
    if a.is_zero() {
        return Some(a);
    }
    let one = BigUint::one();
    let pm1 = p - 1u32;
    if !a.modpow(&(&pm1 >> 1), p).is_one() {
        return None;
    }
    let r = if (p % 4u32) == BigUint::from(3u32) {
        a.modpow(&((p + 1u32) >> 2), p)
    } else {
        let s = pm1.trailing_zeros().unwrap();
        let q = &pm1 >> s;
        // a non-residue
        let mut z = BigUint::from(2u32);
        while z.modpow(&(&pm1 >> 1), p).is_one() {
            z += 1u32;
        }
        let mut m = s;
        let mut c = z.modpow(&q, p);
        let mut t = a.modpow(&q, p);
        let mut r = a.modpow(&((&q + 1u32) >> 1), p);
        while !t.is_one() {
            let mut i = 0u64;
            let mut tt = t.clone();
            while !tt.is_one() {
                tt = (&tt * &tt) % p;
                i += 1;
                if i == m {
                    return None;
                }
            }
            let b = c.modpow(&(&one << (m - i - 1)), p);
            m = i;
            c = (&b * &b) % p;
            t = (&t * &c) % p;
            r = (&r * &b) % p;
        }
        r
    };
    if (&r * &r) % p == a {
        Some(r)
    } else {
        None
    }
}

pub trait FieldModel: Clone + Send + Sync + 'static {
    type Fe: Clone + PartialEq + Debug + Send + Sync;
    fn prime(&self) -> &BigUint;
    /// Number of base-field coefficients of an element.
    fn degree(&self) -> usize;
    fn zero(&self) -> Self::Fe;
    fn one(&self) -> Self::Fe;
    fn add(&self, a: &Self::Fe, b: &Self::Fe) -> Self::Fe;
    fn sub(&self, a: &Self::Fe, b: &Self::Fe) -> Self::Fe;
    fn mul(&self, a: &Self::Fe, b: &Self::Fe) -> Self::Fe;
    fn neg(&self, a: &Self::Fe) -> Self::Fe;
    fn inv(&self, a: &Self::Fe) -> Option<Self::Fe>;
    fn is_zero(&self, a: &Self::Fe) -> bool;
    fn sqrt(&self, a: &Self::Fe) -> Option<Self::Fe>;
    fn coeffs(&self, a: &Self::Fe) -> Vec<BigUint>;
    fn from_coeffs(&self, c: &[BigUint]) -> Self::Fe;
    fn from_u64(&self, v: u64) -> Self::Fe {
        let mut c = vec![BigUint::zero(); self.degree()];
        c[0] = BigUint::from(v) % self.prime();
        self.from_coeffs(&c)
    }
    /// Pseudo-random element from a deterministic stream.
    fn random(&self, rng: &mut SplitMix) -> Self::Fe {
        let n = (self.prime().bits() as usize).div_ceil(8) + 8;
        let c: Vec<BigUint> = (0..self.degree())
            .map(|_| BigUint::from_bytes_le(&rng.bytes(n)) % self.prime())
            .collect();
        self.from_coeffs(&c)
    }
    fn square(&self, a: &Self::Fe) -> Self::Fe {
        self.mul(a, a)
    }
}

impl FieldModel for Zp {
    type Fe = BigUint;
    fn prime(&self) -> &BigUint {
        &self.p
    }
    fn degree(&self) -> usize {
        1
    }
    fn zero(&self) -> BigUint {
        BigUint::zero()
    }
    fn one(&self) -> BigUint {
        BigUint::one()
    }
    fn add(&self, a: &BigUint, b: &BigUint) -> BigUint {
        Zp::add(self, a, b)
    }
    fn sub(&self, a: &BigUint, b: &BigUint) -> BigUint {
        Zp::sub(self, a, b)
    }
    fn mul(&self, a: &BigUint, b: &BigUint) -> BigUint {
        Zp::mul(self, a, b)
    }
    fn neg(&self, a: &BigUint) -> BigUint {
        Zp::neg(self, a)
    }
    fn inv(&self, a: &BigUint) -> Option<BigUint> {
        Zp::inv(self, a)
    }
    fn is_zero(&self, a: &BigUint) -> bool {
        (a % &self.p).is_zero()
    }
    fn sqrt(&self, a: &BigUint) -> Option<BigUint> {
        sqrt_mod(&self.p, a)
    }
    fn coeffs(&self, a: &BigUint) -> Vec<BigUint> {
        vec![a.clone()]
    }
    fn from_coeffs(&self, c: &[BigUint]) -> BigUint {
        &c[0] % &self.p
    }
}

impl FieldModel for Ext2 {
    type Fe = E2;
    fn prime(&self) -> &BigUint {
        &self.f.p
    }
    fn degree(&self) -> usize {
        2
    }
    fn zero(&self) -> E2 {
        Ext2::zero(self)
    }
    fn one(&self) -> E2 {
        Ext2::one(self)
    }
    fn add(&self, a: &E2, b: &E2) -> E2 {
        Ext2::add(self, a, b)
    }
    fn sub(&self, a: &E2, b: &E2) -> E2 {
        Ext2::sub(self, a, b)
    }
    fn mul(&self, a: &E2, b: &E2) -> E2 {
        Ext2::mul(self, a, b)
    }
    fn neg(&self, a: &E2) -> E2 {
        Ext2::neg(self, a)
    }
    fn inv(&self, a: &E2) -> Option<E2> {
        Ext2::inv(self, a)
    }
    fn is_zero(&self, a: &E2) -> bool {
        Ext2::is_zero(self, a)
    }
    /// Square root of a0 + a1 u (u^2 = beta): with N = a0^2 - beta a1^2 = s^2,
    /// x0^2 = (a0 ± s)/2 and x1 = a1 / (2 x0); verified by squaring.
    fn sqrt(&self, a: &E2) -> Option<E2> {
        let f = &self.f;
        if Ext2::is_zero(self, a) {
            return Some(Ext2::zero(self));
        }
        let check = |r: E2| -> Option<E2> {
            if Ext2::mul(self, &r, &r) == *a {
                Some(r)
            } else {
                None
            }
        };
        if a[1].is_zero() {
            if let Some(r) = sqrt_mod(&f.p, &a[0]) {
                return check([r, BigUint::zero()]);
            }
            let q = f.mul(&a[0], &f.inv(&self.beta)?);
            let r = sqrt_mod(&f.p, &q)?;
            return check([BigUint::zero(), r]);
        }
        let n = f.sub(&f.mul(&a[0], &a[0]), &f.mul(&self.beta, &f.mul(&a[1], &a[1])));
        let s = sqrt_mod(&f.p, &n)?;
        let half = f.inv(&BigUint::from(2u32))?;
        for cand in [f.mul(&f.add(&a[0], &s), &half), f.mul(&f.sub(&a[0], &s), &half)] {
            if let Some(x0) = sqrt_mod(&f.p, &cand) {
                if x0.is_zero() {
                    continue;
                }
                let x1 = f.mul(&a[1], &f.inv(&f.mul(&BigUint::from(2u32), &x0))?);
                if let Some(r) = check([x0, x1]) {
                    return Some(r);
                }
            }
        }
        None
    }
    fn coeffs(&self, a: &E2) -> Vec<BigUint> {
        vec![a[0].clone(), a[1].clone()]
    }
    fn from_coeffs(&self, c: &[BigUint]) -> E2 {
        [&c[0] % &self.f.p, &c[1] % &self.f.p]
    }
}

/// Uniform view of the affine group-law models.
pub trait CurveModel: Clone + Send + Sync + 'static {
    type FM: FieldModel;
    type Pt: Clone + PartialEq + Debug + Send + Sync;
    const EDWARDS: bool;
    fn fm(&self) -> &Self::FM;
    fn identity(&self) -> Self::Pt;
    fn is_identity(&self, p: &Self::Pt) -> bool {
        *p == self.identity()
    }
    fn add(&self, p: &Self::Pt, q: &Self::Pt) -> Self::Pt;
    fn neg(&self, p: &Self::Pt) -> Self::Pt;
    fn mul(&self, p: &Self::Pt, k: &BigUint) -> Self::Pt;
    fn on_curve(&self, p: &Self::Pt) -> bool;
    /// Affine coordinates; `None` only for the Weierstrass point at infinity.
    fn xy(&self, p: &Self::Pt) -> Option<(<Self::FM as FieldModel>::Fe, <Self::FM as FieldModel>::Fe)>;
    fn from_xy(&self, x: <Self::FM as FieldModel>::Fe, y: <Self::FM as FieldModel>::Fe) -> Self::Pt;
    /// The point(s) whose *encoded* coordinate (x for Weierstrass, y for
    /// Edwards) is `c`; `flip` selects the other root.
    fn lift(&self, c: &<Self::FM as FieldModel>::Fe, flip: bool) -> Option<Self::Pt>;
    fn sub(&self, p: &Self::Pt, q: &Self::Pt) -> Self::Pt {
        self.add(p, &self.neg(q))
    }
    fn double(&self, p: &Self::Pt) -> Self::Pt {
        self.add(p, p)
    }
}

impl CurveModel for Weierstrass {
    type FM = Zp;
    type Pt = WPoint;
    const EDWARDS: bool = false;
    fn fm(&self) -> &Zp {
        &self.f
    }
    fn identity(&self) -> WPoint {
        None
    }
    fn add(&self, p: &WPoint, q: &WPoint) -> WPoint {
        Weierstrass::add(self, p, q)
    }
    fn neg(&self, p: &WPoint) -> WPoint {
        Weierstrass::neg(self, p)
    }
    fn mul(&self, p: &WPoint, k: &BigUint) -> WPoint {
        Weierstrass::mul(self, p, k)
    }
    fn on_curve(&self, p: &WPoint) -> bool {
        Weierstrass::on_curve(self, p)
    }
    fn xy(&self, p: &WPoint) -> Option<(BigUint, BigUint)> {
        p.clone()
    }
    fn from_xy(&self, x: BigUint, y: BigUint) -> WPoint {
        Some((x, y))
    }
    fn lift(&self, x: &BigUint, flip: bool) -> Option<WPoint> {
        let f = &self.f;
        let rhs = f.add(&f.add(&f.mul(&f.mul(x, x), x), &f.mul(&self.a, x)), &self.b);
        let y = sqrt_mod(&f.p, &rhs)?;
        let y = if flip { f.neg(&y) } else { y };
        Some(Some((x.clone(), y)))
    }
}

impl CurveModel for Weierstrass2 {
    type FM = Ext2;
    type Pt = W2Point;
    const EDWARDS: bool = false;
    fn fm(&self) -> &Ext2 {
        &self.e
    }
    fn identity(&self) -> W2Point {
        None
    }
    fn add(&self, p: &W2Point, q: &W2Point) -> W2Point {
        Weierstrass2::add(self, p, q)
    }
    fn neg(&self, p: &W2Point) -> W2Point {
        Weierstrass2::neg(self, p)
    }
    fn mul(&self, p: &W2Point, k: &BigUint) -> W2Point {
        Weierstrass2::mul(self, p, k)
    }
    fn on_curve(&self, p: &W2Point) -> bool {
        Weierstrass2::on_curve(self, p)
    }
    fn xy(&self, p: &W2Point) -> Option<(E2, E2)> {
        p.clone()
    }
    fn from_xy(&self, x: E2, y: E2) -> W2Point {
        Some((x, y))
    }
    fn lift(&self, x: &E2, flip: bool) -> Option<W2Point> {
        let e = &self.e;
        let rhs = e.add(&e.mul(&e.mul(x, x), x), &self.b);
        let y = FieldModel::sqrt(e, &rhs)?;
        let y = if flip { e.neg(&y) } else { y };
        Some(Some((x.clone(), y)))
    }
}

impl CurveModel for Edwards {
    type FM = Zp;
    type Pt = EPoint;
    const EDWARDS: bool = true;
    fn fm(&self) -> &Zp {
        &self.f
    }
    fn identity(&self) -> EPoint {
        Edwards::identity(self)
    }
    fn add(&self, p: &EPoint, q: &EPoint) -> EPoint {
        Edwards::add(self, p, q)
    }
    fn neg(&self, p: &EPoint) -> EPoint {
        Edwards::neg(self, p)
    }
    fn mul(&self, p: &EPoint, k: &BigUint) -> EPoint {
        Edwards::mul(self, p, k)
    }
    fn on_curve(&self, p: &EPoint) -> bool {
        Edwards::on_curve(self, p)
    }
    fn xy(&self, p: &EPoint) -> Option<(BigUint, BigUint)> {
        Some(p.clone())
    }
    fn from_xy(&self, x: BigUint, y: BigUint) -> EPoint {
        (x, y)
    }
    /// a x^2 + y^2 = 1 + d x^2 y^2  =>  x^2 = (1 - y^2) / (a - d y^2)
    fn lift(&self, y: &BigUint, flip: bool) -> Option<EPoint> {
        let f = &self.f;
        let y2 = f.mul(y, y);
        let num = f.sub(&BigUint::one(), &y2);
        let den = f.inv(&f.sub(&self.a, &f.mul(&self.d, &y2)))?;
        let x = sqrt_mod(&f.p, &f.mul(&num, &den))?;
        let x = if flip { f.neg(&x) } else { x };
        Some((x, y.clone()))
    }
}

/// A pseudo-random point of the curve (the whole curve E(F), not the
/// prime-order subgroup), determined by `seed`.
pub fn curve_point<M: CurveModel>(m: &M, seed: u64) -> M::Pt {
    let mut rng = SplitMix(seed ^ 0xC11C_0DE5);
    loop {
        let c = m.fm().random(&mut rng);
        let flip = rng.next_u64() & 1 == 1;
        if let Some(p) = m.lift(&c, flip) {
            debug_assert!(m.on_curve(&p));
            return p;
        }
    }
}

/// A point whose encoded coordinate is an integer below `bound` (first base
/// coefficient; the others zero), found by search from `seed`.
pub fn curve_point_small<M: CurveModel>(m: &M, bound: &BigUint, seed: u64) -> Option<M::Pt> {
    if bound.is_zero() {
        return None;
    }
    let mut rng = SplitMix(seed ^ 0x5A11);
    let n = (bound.bits() as usize).div_ceil(8) + 8;
    for _ in 0..64 {
        let v = BigUint::from_bytes_le(&rng.bytes(n)) % bound;
        let mut c = vec![BigUint::zero(); m.fm().degree()];
        c[0] = v;
        let c = m.fm().from_coeffs(&c);
        if let Some(p) = m.lift(&c, rng.next_u64() & 1 == 1) {
            return Some(p);
        }
    }
    None
}

/// Points of E(F) killed by the cofactor (order coprime to... or dividing the
/// cofactor): `order * Q` for pseudo-random curve points Q, and their small
/// multiples, without the identity and without duplicates. Empty for
/// prime-order curves.
pub fn torsion_points<M: CurveModel>(m: &M, order: &BigUint, tries: u64, multiples: usize) -> Vec<M::Pt> {
    let mut out: Vec<M::Pt> = vec![];
    for i in 0..tries {
        let q = curve_point(m, 0x7025_1000 + i);
        let t = m.mul(&q, order);
        let mut acc = t.clone();
        for _ in 0..multiples {
            if m.is_identity(&acc) {
                break;
            }
            if !out.contains(&acc) {
                out.push(acc.clone());
            }
            acc = m.add(&acc, &t);
        }
    }
    out
}
