//! Thorough tier: the libFuzzer targets of /verif/harness/fuzz, run on a fresh
//! scratch copy of the committed seed corpus. A libFuzzer build failure or a
//! timeout is inconclusive, never a violation.

use std::path::Path;
use std::process::Command;

use serde::{Deserialize, Serialize};
use vpcore::{Failure, Prop, Verdict};

use crate::types::{Bundle, Fmt, Obj, FMTS};
use vp_circ::e6::ALL_FIX;

const FUZZ_DIR: &str = "/verif/harness/fuzz";
const CORPUS: &str = "/verif/corpus";

/// (target, runs in the thorough tier)
pub const TARGETS: [(&str, u64); 6] = [
    // sized for ~5 min each on this machine (ASan build; measured exec/s in brackets)
    ("fuzz_vk_read", 60_000),        // [~190/s]
    ("fuzz_vk_then_verify", 15_000), // [~50/s]
    ("fuzz_proof_verify", 30_000),   // [~100/s]
    ("fuzz_arch", 55_000),           // [~185/s]
    ("fuzz_zkir_json", 150_000),     // [~700/s]
    ("fuzz_zkir_bincode", 8_000),    // [~26/s: programs with hash operations dominate]
];

fn put(dir: &str, name: &str, bytes: &[u8]) {
    let _ = std::fs::create_dir_all(dir);
    std::fs::write(format!("{dir}/{name}"), bytes).expect("cannot write corpus file");
}

/// Writes the fixtures the targets load and the seed corpora (valid encodings
/// + minimal inputs of the known defects). Run with `VP_C16_EXPORT=1 c16 quick`.
pub fn export_corpus(b: &Bundle) {
    let fx = format!("{CORPUS}/_fixtures");
    for fix in ALL_FIX {
        let i = fix as u8;
        for fmt in FMTS {
            put(&fx, &format!("vk_{i}_{}", fmt.tag()), b.base(&Obj::Vk { fix, fmt }));
            put(&format!("{CORPUS}/fuzz_vk_read"), &format!("vk_{i}_{}", fmt.tag()), &[&[(fmt == Fmt::RawBytes) as u8][..], b.base(&Obj::Vk { fix, fmt })].concat());
        }
        put(&fx, &format!("inst_{i}"), b.get(&format!("inst_{i}")));
        for poseidon in [false, true] {
            let name = format!("proof_{i}_{}", if poseidon { "poseidon" } else { "blake" });
            put(&fx, &name, b.get(&name));
            put(&format!("{CORPUS}/fuzz_proof_verify"), &name, &[&[i + 3 * poseidon as u8][..], b.get(&name)].concat());
        }
        put(&format!("{CORPUS}/fuzz_arch"), &format!("arch_{i}"), b.base(&Obj::Arch { fix }));
        // edit scripts: [selector, truncate?=0, (pos u16 LE, value)*]; even pos => header index pos/2 % 27
        let vk = b.base(&Obj::Vk { fix, fmt: Fmt::Processed });
        let d = format!("{CORPUS}/fuzz_vk_then_verify");
        put(&d, &format!("valid_{i}_P"), &[i]);
        put(&d, &format!("valid_{i}_R"), &[i + 4]);
        put(&d, &format!("max_bit_len_{i}"), &[i, 0, 32, 0, 9]);
        put(&d, &format!("F9_nr_pow2range_cols_{i}"), &[i, 0, 30, 0, 5]);
        put(&d, &format!("F10_k_{i}"), &[i, 0, 44, 0, 31]);
        put(&d, &format!("F11_num_fixed_{i}"), &[i, 0, 46, 0, vk[23].wrapping_sub(1)]);
    }
    put(&fx, "vparams_R", b.base(&Obj::Params { fmt: Fmt::RawBytes }));
    put(&format!("{CORPUS}/fuzz_arch"), "F9_nr_pow2range_cols_5", &[1, 0, 0, 0, 0, 0, 0, 0, 0, 0, 0, 0, 0, 0, 0, 5]);
    for prog in 0..b.n_zkir() as u8 {
        put(&format!("{CORPUS}/fuzz_zkir_json"), &format!("seed_{prog}.json"), b.base(&Obj::ZkirJson { prog }));
        put(&format!("{CORPUS}/fuzz_zkir_bincode"), &format!("seed_{prog}.bin"), b.base(&Obj::ZkirBin { prog }));
    }
    let j = format!("{CORPUS}/fuzz_zkir_json");
    put(&j, "F12_jubjub_constant_without_load.json", br#"{"instructions":[{"op":"publish","inputs":["Jubjub:GENERATOR"]}]}"#);
    put(&j, "F27_unknown_name.json", br#"{"instructions":[{"op":"publish","inputs":["x"]}]}"#);
    put(&j, "load_bytes_0.json", br#"{"instructions":[{"op":{"load":{"Bytes":0}},"outputs":["b"]}]}"#);
    put(&j, "into_bytes_biguint.json", br#"{"instructions":[{"op":{"load":{"BigUint":64}},"outputs":["x"]},{"op":{"into_bytes":64},"inputs":["x"],"outputs":["b"]}]}"#);
    put(&format!("{CORPUS}/fuzz_zkir_bincode"), "F29_huge_length.bin", &[0xfc, 0, 0, 0, 0x10]);
    put(&format!("{CORPUS}/fuzz_zkir_bincode"), "F29_capacity_overflow.bin", &[0xfd, 0xff, 0xff, 0xff, 0xff, 0xff, 0xff, 0xff, 0xff]);
    // crashes that cannot be tolerated in-target (stack overflow) are kept outside the seed corpus
    put(&format!("{CORPUS}/_crashers/fuzz_zkir_json"), "stack_overflow_from_bytes.json", br#"{"instructions":[{"op":{"load":{"Bytes":65536}},"outputs":["bs"]},{"op":{"from_bytes":"Native"},"inputs":["bs"],"outputs":["n"]}]}"#);
}

#[derive(Clone, Debug, Serialize, Deserialize)]
struct FuzzCase {
    target: String,
    runs: u64,
}

fn cargo_fuzz(args: &[&str], timeout_s: u64) -> Result<(Option<i32>, String), String> {
    let mut cmd = Command::new("timeout");
    cmd.arg(timeout_s.to_string()).arg("cargo").arg("+nightly").arg("fuzz").args(args).current_dir(FUZZ_DIR).env("CARGO_NET_OFFLINE", "true").env_remove("RUSTFLAGS").env_remove("CARGO_TARGET_DIR");
    let out = cmd.output().map_err(|e| format!("cannot run cargo fuzz: {e}"))?;
    let text = format!("{}{}", String::from_utf8_lossy(&out.stdout), String::from_utf8_lossy(&out.stderr));
    Ok((out.status.code(), text))
}

pub fn run_fuzzers(p: &Prop) {
    if !Path::new(&format!("{FUZZ_DIR}/Cargo.lock")).exists() {
        let _ = std::fs::copy("/repo/Cargo.lock", format!("{FUZZ_DIR}/Cargo.lock"));
    }
    if !Path::new(&format!("{CORPUS}/_fixtures/vparams_R")).exists() {
        p.inconclusive("fuzz: fixtures missing under /verif/corpus/_fixtures (run `VP_C16_EXPORT=1 c16 quick` once)");
        return;
    }
    match cargo_fuzz(&["build"], 3600) {
        Ok((Some(0), _)) => {}
        Ok((code, text)) => {
            p.inconclusive(format!("fuzz: `cargo +nightly fuzz build` failed (exit {code:?}): {}", text.lines().rev().take(8).collect::<Vec<_>>().join(" | ")));
            return;
        }
        Err(e) => {
            p.inconclusive(format!("fuzz: {e}"));
            return;
        }
    }
    let seed = p.seed.to_string();
    for (target, runs) in TARGETS {
        let case = FuzzCase { target: target.to_string(), runs };
        p.enumerate(
            &format!("fuzz:{target}"),
            "libFuzzer campaign (ASan, -len_control=0, fixed seed, fresh scratch copy of the committed seed corpus) with the oracle inside the target; known panic sites tolerated through known_findings.json; non-trivial = the campaign ran to completion",
            vec![case],
            1,
            false,
            |c: &FuzzCase| {
                let scratch = format!("{FUZZ_DIR}/corpus-scratch/{}", c.target);
                let artifacts = format!("{FUZZ_DIR}/artifacts/{}", c.target);
                let _ = std::fs::remove_dir_all(&scratch);
                let _ = std::fs::remove_dir_all(&artifacts);
                std::fs::create_dir_all(&scratch).map_err(|e| Failure::new("harness:fuzz-scratch", e.to_string()))?;
                if let Ok(rd) = std::fs::read_dir(format!("{CORPUS}/{}", c.target)) {
                    for e in rd.flatten() {
                        let _ = std::fs::copy(e.path(), format!("{scratch}/{}", e.file_name().to_string_lossy()));
                    }
                }
                let runs_arg = format!("-runs={}", c.runs);
                let seed_arg = format!("-seed={seed}");
                let mut attempt = 0;
                let (code, text) = loop {
                    attempt += 1;
                    let r = cargo_fuzz(&["run", &c.target, &scratch, "--", &runs_arg, &seed_arg, "-len_control=0", "-rss_limit_mb=4096", "-malloc_limit_mb=2048", "-timeout=300"], 3 * 3600);
                    match r {
                        Ok((code, text)) => {
                            // a failure of the tool itself (no artifact) is retried once
                            if code != Some(0) && code != Some(124) && !text.contains("Test unit written to ") && attempt < 2 {
                                let _ = std::fs::write(format!("{FUZZ_DIR}/artifacts/{}-tool-failure.log", c.target), &text);
                                continue;
                            }
                            break (code, text);
                        }
                        Err(e) => {
                            p.inconclusive(format!("fuzz:{}: {e}", c.target));
                            return Ok(Verdict::trivial("inconclusive"));
                        }
                    }
                };
                if code != Some(0) {
                    let _ = std::fs::create_dir_all(format!("{FUZZ_DIR}/artifacts"));
                    let _ = std::fs::write(format!("{FUZZ_DIR}/artifacts/{}-last-failure.log", c.target), &text);
                }
                if code == Some(0) {
                    let execs = text.lines().rev().find(|l| l.contains("Done ") && l.contains(" runs in")).unwrap_or("").trim().to_string();
                    return Ok(Verdict::nontrivial("campaign-completed").with(execs));
                }
                if code == Some(124) {
                    p.inconclusive(format!("fuzz:{}: campaign timed out", c.target));
                    return Ok(Verdict::trivial("inconclusive"));
                }
                // a crash: find the artifact and the in-target verdict
                let artifact = text.lines().find_map(|l| l.split("Test unit written to ").nth(1)).map(|s| s.trim().to_string());
                let Some(artifact) = artifact else {
                    p.inconclusive(format!("fuzz:{}: exit {code:?} without a crash artifact: {}", c.target, text.lines().rev().take(6).collect::<Vec<_>>().join(" | ")));
                    return Ok(Verdict::trivial("inconclusive"));
                };
                let path = if Path::new(&artifact).is_absolute() { artifact.clone() } else { format!("{FUZZ_DIR}/{artifact}") };
                let bytes = std::fs::read(&path).unwrap_or_default();
                let saved = format!("{}/replays/C16-{}-{:016x}.bin", vpcore::VERIF_DIR, c.target, vpcore::digest(&bytes));
                let _ = std::fs::create_dir_all(format!("{}/replays", vpcore::VERIF_DIR));
                let _ = std::fs::write(&saved, &bytes);
                let (sig, detail) = match text.lines().find_map(|l| l.split("C16-FUZZ-FAIL ").nth(1)) {
                    Some(l) => {
                        let (s, d) = l.split_once(" | ").unwrap_or((l, ""));
                        (s.to_string(), d.to_string())
                    }
                    None => {
                        let kind = if text.contains("out-of-memory") {
                            "out-of-memory"
                        } else if text.contains("stack-overflow") || text.contains("stack overflow") {
                            "stack-overflow"
                        } else if text.contains("ERROR: AddressSanitizer") {
                            "asan"
                        } else if text.contains("timeout after") {
                            "timeout"
                        } else {
                            "deadly-signal"
                        };
                        if kind == "timeout" {
                            p.inconclusive(format!("fuzz:{}: libFuzzer per-input timeout, artifact {saved}", c.target));
                            return Ok(Verdict::trivial("inconclusive"));
                        }
                        (format!("libfuzzer:{kind}:{}", c.target), text.lines().filter(|l| l.contains("ERROR") || l.contains("SUMMARY") || l.contains("malloc(")).take(4).collect::<Vec<_>>().join(" | "))
                    }
                };
                Err(Failure::new(sig, format!("{detail}; target {}; artifact saved to {saved} ({} bytes): {}; strict replay: cd {FUZZ_DIR} && VP_FUZZ_STRICT=1 CARGO_NET_OFFLINE=true cargo +nightly fuzz run {} {saved}", c.target, bytes.len(), crate::types::hex_prefix(&bytes, 400), c.target)))
            },
        );
    }
}
