#![no_main]
//! data[0] bit 0 selects the format; the rest is fed to `MidnightVK::read`.
//! Oracle: no panic; a decoded key re-encodes to the bytes it consumed; its
//! points are on the curve (Processed: in the subgroup).
use libfuzzer_sys::fuzz_target;

fuzz_target!(|data: &[u8]| {
    c16_fuzz::init();
    if data.is_empty() {
        return;
    }
    let _ = c16_fuzz::vk_read_checked(&data[1..], c16_fuzz::fmt_of(data[0]));
});
