//! C12, part 1 — the MSM and FFT entry points of `midnight_curves` equal their
//! naive definitions.
//!
//! Entry points: `msm::{msm_serial, msm_parallel, msm_best}` (BLS12-381 G1/G2
//! affine, BN254 G1/G2 affine), `G1Projective::multi_exp`,
//! `G2Projective::multi_exp` (blst Pippenger), `fft::best_fft` on field
//! elements and on group elements.
//!
//! Oracles (independent of the code under test):
//! * MSM: (a) the naive sum of `base * scalar` using the library's own scalar
//!   multiplication and addition (checked by C10/C11); (b) every base is
//!   `k_i * G` for a known `k_i`, so the result must be `(sum s_i k_i) * G` — one
//!   scalar multiplication, only field arithmetic otherwise. Both must agree.
//! * FFT: naive O(n^2) evaluation of the input polynomial at the n powers of
//!   omega (Horner); for group inputs the same through known discrete logs.
//!
//! Mismatched MSM lengths are documented panics and are never generated.
//! `msm.empty` and `msm.identity-base-large` are regression sub-checks for two
//! repaired defects (multi_exp on empty input; msm_best with an identity base
//! at n >= 8104); the main sub-checks generate those shapes as well.

use std::{cell::RefCell, sync::Arc, sync::OnceLock};

use ff::{Field, PrimeField};
use group::{Curve, Group};
use midnight_curves::{
    fft::best_fft,
    msm::{msm_best, msm_parallel, msm_serial},
    CurveAffine,
};
use proptest::prelude::*;
use rayon::prelude::*;
use serde::{Deserialize, Serialize};
use vpcore::{ensure, CaseResult, Failure, Prop, SplitMix, Verdict};

// ---------------------------------------------------------------------------
// Thread pools (engine E7): one set of pools per calling thread, so that the
// streams of a sub-check do not serialize on a shared 1-thread pool.

pub const POOL_SIZES: [usize; 6] = [1, 2, 3, 5, 8, 16];

thread_local! {
    static POOLS: RefCell<Vec<(usize, Arc<rayon::ThreadPool>)>> = const { RefCell::new(Vec::new()) };
}

/// Runs `f` inside a rayon pool with exactly `t` worker threads.
pub fn in_pool<T: Send>(t: usize, f: impl FnOnce() -> T + Send) -> T {
    let pool = POOLS.with(|p| {
        let mut p = p.borrow_mut();
        if let Some(x) = p.iter().find(|x| x.0 == t) {
            x.1.clone()
        } else {
            let tp = Arc::new(
                rayon::ThreadPoolBuilder::new()
                    .num_threads(t)
                    .build()
                    .expect("thread pool"),
            );
            p.push((t, tp.clone()));
            tp
        }
    });
    pool.install(f)
}

/// Runs `f` inside a pool of `t` threads; a panic becomes `Err(location: msg)`
/// (the location is known when the panic happened on the thread that ran `f`,
/// which is always the case for `t == 1`).
pub fn in_pool_catch<T: Send>(t: usize, f: impl FnOnce() -> T + Send) -> Result<T, String> {
    in_pool(t, || vpcore::catch(f))
}

// ---------------------------------------------------------------------------
// Scalars

const GOLD: u64 = 0x9E37_79B9_7F4A_7C15;

/// sum l[j] * 2^(64 j), reduced modulo the field characteristic by the field
/// arithmetic itself.
pub fn from_limbs<F: PrimeField>(l: &[u64]) -> F {
    let b = F::from(1u64 << 32).square(); // 2^64
    l.iter().rev().fold(F::ZERO, |acc, x| acc * b + F::from(*x))
}

pub fn random_scalar<F: PrimeField>(rng: &mut SplitMix) -> F {
    from_limbs::<F>(&[rng.next_u64(), rng.next_u64(), rng.next_u64(), rng.next_u64(), rng.next_u64()])
}

fn pow2<F: PrimeField>(k: u64) -> F {
    F::from(2u64).pow_vartime([k])
}

/// A scalar from a labelled boundary class.
fn special_scalar<F: PrimeField>(rng: &mut SplitMix) -> (F, &'static str) {
    let nb = F::NUM_BITS as u64;
    match rng.below(14) {
        0 => (F::ZERO, "s=0"),
        1 => (F::ONE, "s=1"),
        2 => (-F::ONE, "s=-1"),
        3 => (pow2::<F>(rng.below(nb)), "s=2^k"),
        4 => (pow2::<F>(rng.below(nb)) - F::ONE, "s=2^k-1"),
        5 => (-pow2::<F>(rng.below(nb)), "s=-2^k"),
        6 => (pow2::<F>(nb - 1 - rng.below(4)), "s=top-bit"),
        7 => (from_limbs::<F>(&[u64::MAX; 4]), "s=ff-pattern"),
        8 => (from_limbs::<F>(&[0xAAAA_AAAA_AAAA_AAAA; 4]), "s=aa-pattern"),
        9 => (from_limbs::<F>(&[0x5555_5555_5555_5555; 4]), "s=55-pattern"),
        10 => (from_limbs::<F>(&[1u64 << 63; 4]), "s=limb-top-bits"),
        11 => (-F::TWO_INV, "s=(r-1)/2"),
        12 => (F::from(rng.below(1 << 16)), "s=small"),
        _ => (-F::from(rng.below(1 << 16)), "s=-small"),
    }
}

const SMODES: [&str; 8] = [
    "random", "mixed", "all-zero", "all-minus-one", "all-one", "all-same-random", "short-bytes", "all-special",
];
const BMODES: [&str; 7] = [
    "distinct", "mixed", "all-equal", "all-identity", "opposite-pairs", "repeated-few", "all-generator",
];

fn scalar_for<F: PrimeField>(smode: u8, seed: u64, i: usize) -> (F, &'static str) {
    let mut rng = SplitMix(seed ^ (i as u64 + 1).wrapping_mul(GOLD));
    match smode {
        0 => (random_scalar(&mut rng), "s=random"),
        1 => {
            if rng.below(2) == 0 {
                special_scalar(&mut rng)
            } else {
                (random_scalar(&mut rng), "s=random")
            }
        }
        2 => (F::ZERO, "s=0"),
        3 => (-F::ONE, "s=-1"),
        4 => (F::ONE, "s=1"),
        5 => (random_scalar(&mut SplitMix(seed)), "s=same"),
        6 => {
            // all scalars fit in L bytes (L from the seed): msm_serial sizes its
            // window count from the longest scalar; the top bit of the top byte
            // is set for about half of them (Booth carry into the extra window)
            let l = [1u32, 2, 3, 8, 16, 31][(seed % 6) as usize];
            let mut limbs = [0u64; 4];
            for b in 0..l {
                limbs[(b / 8) as usize] |= (rng.below(256)) << (8 * (b % 8));
            }
            if rng.below(2) == 0 {
                limbs[((l - 1) / 8) as usize] |= 0x80 << (8 * ((l - 1) % 8));
            }
            (from_limbs::<F>(&limbs), "s=short")
        }
        _ => special_scalar(&mut rng),
    }
}

// ---------------------------------------------------------------------------
// Bases with known discrete logarithms

pub struct PointPool<C: CurveAffine> {
    pub affine: Vec<C>,
    /// the same points in projective form with Z != 1 (as accumulated)
    pub proj: Vec<C::Curve>,
    pub dlog: Vec<C::Scalar>,
}

/// P_i = (a + i d) G, built by repeated addition (group law: C11).
pub fn build_pool<C: CurveAffine>(len: usize) -> PointPool<C> {
    let a: C::Scalar = from_limbs(&[0x1234_5678_9abc_def1, 0x0fed_cba9_8765_4321, 0x1111_2222_3333_4444, 0x0123_4567_89ab_cdef]);
    let d: C::Scalar = from_limbs(&[0x0bad_c0de_dead_beef, 0x1357_9bdf_0246_8ace, 0x5555_aaaa_5555_aaaa, 0x0765_4321_0fed_cba9]);
    let g = C::Curve::generator();
    let step = g * d;
    let mut cur = g * a;
    let mut k = a;
    let mut proj = Vec::with_capacity(len);
    let mut dlog = Vec::with_capacity(len);
    for _ in 0..len {
        proj.push(cur);
        dlog.push(k);
        cur += step;
        k += d;
    }
    let affine: Vec<C> = proj.par_iter().map(|p| p.to_affine()).collect();
    PointPool { affine, proj, dlog }
}

pub struct CurveCtx<C: CurveAffine> {
    pub name: &'static str,
    pool_len: usize,
    pool: OnceLock<PointPool<C>>,
    #[allow(clippy::type_complexity)]
    multi_exp: Option<(&'static str, fn(&[C::Curve], &[C::Scalar]) -> C::Curve)>,
}

impl<C: CurveAffine> CurveCtx<C> {
    fn pool(&self) -> &PointPool<C> {
        self.pool.get_or_init(|| build_pool::<C>(self.pool_len))
    }
}

#[derive(Clone, Debug, Serialize, Deserialize)]
pub struct MsmCase {
    n: usize,
    smode: u8,
    bmode: u8,
    seed: u64,
}

struct Item<C: CurveAffine> {
    scalar: C::Scalar,
    base: C,
    proj: C::Curve,
    dlog: C::Scalar,
}

/// Item i of a case depends only on (seed, modes, i): shrinking `n` keeps the
/// prefix.
fn item<C: CurveAffine>(ctx: &CurveCtx<C>, case: &MsmCase, i: usize, allow_identity: bool, labels: &mut Vec<&'static str>) -> Item<C> {
    let pool = ctx.pool();
    let len = pool.affine.len();
    let (scalar, sl) = scalar_for::<C::Scalar>(case.smode % SMODES.len() as u8, case.seed, i);
    if sl != "s=random" {
        labels.push(sl);
    }
    let mut rng = SplitMix(case.seed.rotate_left(17) ^ (i as u64 + 1).wrapping_mul(GOLD));
    let start = (case.seed % len as u64) as usize;
    // (pool index, negate) or special
    enum B {
        Pool(usize, bool),
        Identity,
        Generator,
    }
    let b = match case.bmode % BMODES.len() as u8 {
        0 => B::Pool((start + i) % len, false),
        1 => match rng.below(8) {
            0 => B::Identity,
            1 => B::Generator,
            2 => B::Pool(start, false),                              // same as a fixed point
            3 => B::Pool(start, true),                               // its opposite
            4 => B::Pool((start + i / 2) % len, i % 2 == 1),         // opposite of the neighbour
            5 => B::Pool((start + i) % len, true),
            _ => B::Pool((start + i) % len, false),
        },
        2 => B::Pool(start, false),
        3 => B::Identity,
        4 => B::Pool((start + i / 2) % len, i % 2 == 1),
        5 => B::Pool((start + i % (1 + (case.seed >> 32) as usize % 8)) % len, false),
        _ => B::Generator,
    };
    let b = match b {
        B::Identity if !allow_identity => B::Generator,
        b => b,
    };
    match b {
        B::Pool(ix, neg) => {
            if ix != (start + i) % len || neg {
                labels.push(if neg { "b=opposite" } else { "b=repeated" });
            }
            if neg {
                Item { scalar, base: -pool.affine[ix], proj: -pool.proj[ix], dlog: -pool.dlog[ix] }
            } else {
                Item { scalar, base: pool.affine[ix], proj: pool.proj[ix], dlog: pool.dlog[ix] }
            }
        }
        B::Identity => {
            labels.push("b=identity");
            Item { scalar, base: C::identity(), proj: C::Curve::identity(), dlog: C::Scalar::ZERO }
        }
        B::Generator => {
            labels.push("b=generator");
            Item { scalar, base: C::generator(), proj: C::Curve::generator(), dlog: C::Scalar::ONE }
        }
    }
}

fn n_class(n: usize) -> &'static str {
    match n {
        0 => "n=0",
        1..=3 => "n<4",
        4..=31 => "n<32",
        32..=70 => "n<=70",
        71..=767 => "n<768",
        768..=4096 => "n<=4096",
        4097..=8103 => "n<8104",
        8104..=22026 => "n>=8104",
        _ => "n>=22027",
    }
}

fn naive_msm<C: CurveAffine>(scalars: &[C::Scalar], bases: &[C]) -> C::Curve {
    if scalars.len() > 256 {
        scalars
            .par_iter()
            .zip(bases.par_iter())
            .map(|(s, b)| *b * *s)
            .reduce(C::Curve::identity, |a, b| a + b)
    } else {
        scalars.iter().zip(bases.iter()).fold(C::Curve::identity(), |acc, (s, b)| acc + *b * *s)
    }
}

fn msm_check<C: CurveAffine>(ctx: &CurveCtx<C>, case: &MsmCase, allow_identity: bool, pools: &[usize]) -> CaseResult {
    let name = ctx.name;
    let n = case.n;
    let mut labels: Vec<&'static str> = vec![];
    let items: Vec<Item<C>> = (0..n).map(|i| item(ctx, case, i, allow_identity, &mut labels)).collect();
    let scalars: Vec<C::Scalar> = items.iter().map(|x| x.scalar).collect();
    let bases: Vec<C> = items.iter().map(|x| x.base).collect();
    let k = items.iter().fold(C::Scalar::ZERO, |acc, x| acc + x.scalar * x.dlog);
    let want = C::Curve::generator() * k;
    let naive = naive_msm::<C>(&scalars, &bases);
    ensure!(
        naive == want,
        format!("{name}:oracle-disagree"),
        "naive sum of base*scalar differs from (sum s_i k_i) G: n={n} modes {}/{}",
        SMODES[case.smode as usize % SMODES.len()],
        BMODES[case.bmode as usize % BMODES.len()]
    );
    let desc = || {
        format!(
            "n={n} scalars={} bases={} seed={}",
            SMODES[case.smode as usize % SMODES.len()],
            BMODES[case.bmode as usize % BMODES.len()],
            case.seed
        )
    };
    // msm_serial (no threads involved)
    let r = vpcore::catch(|| {
        let mut acc = C::Curve::identity();
        msm_serial(&scalars, &bases, &mut acc);
        acc
    })
    .map_err(|e| Failure::new(format!("{name}:msm_serial:panic"), format!("{}: {e}", desc())))?;
    ensure!(r == want, format!("{name}:msm_serial"), "{}: result differs from sum of scalar*base", desc());
    let mut first: Option<(C::Curve, C::Curve)> = None;
    for &t in pools {
        let rp = in_pool_catch(t, || msm_parallel(&scalars, &bases))
            .map_err(|e| Failure::new(format!("{name}:msm_parallel:panic"), format!("{} threads={t}: {e}", desc())))?;
        ensure!(rp == want, format!("{name}:msm_parallel"), "{} threads={t}: result differs from sum of scalar*base", desc());
        let rb = in_pool_catch(t, || msm_best(&scalars, &bases))
            .map_err(|e| Failure::new(format!("{name}:msm_best:panic"), format!("{} threads={t}: {e}", desc())))?;
        ensure!(rb == want, format!("{name}:msm_best"), "{} threads={t}: result differs from sum of scalar*base", desc());
        match &first {
            None => first = Some((rp, rb)),
            Some((fp, fb)) => {
                ensure!(*fp == rp && *fb == rb, format!("{name}:msm:thread-dependence"), "{} threads={t}", desc());
            }
        }
    }
    if let Some((me_name, me)) = ctx.multi_exp {
        {
            // projective inputs: half of the cases with Z != 1 representations
            let proj: Vec<C::Curve> = if case.seed & 1 == 0 {
                items.iter().map(|x| x.proj).collect()
            } else {
                bases.iter().map(|b| b.to_curve()).collect()
            };
            let r = vpcore::catch(|| me(&proj, &scalars))
                .map_err(|e| Failure::new(format!("{me_name}:panic"), format!("{}: {e}", desc())))?;
            ensure!(r == want, me_name.to_string(), "{}: result differs from sum of scalar*base", desc());
        }
    }
    labels.sort_unstable();
    labels.dedup();
    let special = !labels.is_empty();
    let mut v = Verdict::of(n >= 2 && special, n_class(n))
        .with(format!("scalars:{}", SMODES[case.smode as usize % SMODES.len()]))
        .with(format!("bases:{}", BMODES[case.bmode as usize % BMODES.len()]));
    for l in labels {
        v = v.with(l);
    }
    Ok(v)
}

fn msm_strategy(max_n: usize) -> BoxedStrategy<MsmCase> {
    let n = prop_oneof![
        12 => 0usize..=70,
        2 => prop::sample::select(vec![0usize, 1, 2, 3, 4, 5, 15, 16, 17, 31, 32, 33, 63, 64, 65]),
        1 => prop::sample::select(vec![127usize, 128, 129, 255, 256, 257, 511, 512, 767, 768, 769, 1023, 1024, 1025, 2047, 2048, 4095, 4096]),
        2 => (7u32..=12, any::<u16>()).prop_map(move |(b, x)| {
            let lo = (1usize << b).max(71);
            let hi = ((1usize << (b + 1)) - 1).min(max_n).max(lo);
            lo + vpcore::idx(x, hi - lo + 1)
        }),
    ];
    (n, 0u8..SMODES.len() as u8, 0u8..BMODES.len() as u8, any::<u64>())
        .prop_map(move |(n, smode, bmode, seed)| MsmCase { n: n.min(max_n), smode, bmode, seed })
        .boxed()
}

fn large_strategy(thorough: bool) -> BoxedStrategy<MsmCase> {
    let n = if thorough {
        prop_oneof![
            2 => 8090usize..=8103,
            5 => 8104usize..=8200,
            2 => 8104usize..=8192,
            1 => 22000usize..=22026,
            2 => 22027usize..=22060,
        ]
        .boxed()
    } else {
        prop_oneof![1 => 8090usize..=8103, 5 => 8104usize..=8200].boxed()
    };
    // identity bases included (mixed mode: about 1 in 8 terms; all-identity)
    (n, 0u8..SMODES.len() as u8, prop::sample::select(vec![0u8, 0, 1, 1, 2, 3, 4, 5, 6]), any::<u64>())
        .prop_map(|(n, smode, bmode, seed)| MsmCase { n, smode, bmode, seed })
        .boxed()
}

#[derive(Clone, Debug, Serialize, Deserialize)]
struct IdCase {
    curve: String,
    entry: String,
    n: usize,
    id_pos: usize,
    id_scalar: String,
    /// "random" or "one" for all the other terms
    other_scalars: String,
    threads: usize,
    seed: u64,
}

/// n distinct bases k_i G with one identity at `id_pos`.
fn identity_base_check<C: CurveAffine>(ctx: &CurveCtx<C>, case: &IdCase) -> CaseResult {
    let n = case.n;
    let pool = ctx.pool();
    let mut rng = SplitMix(case.seed);
    let start = rng.below(pool.affine.len() as u64) as usize;
    let mut bases: Vec<C> = (0..n).map(|i| pool.affine[(start + i) % pool.affine.len()]).collect();
    let mut dlogs: Vec<C::Scalar> = (0..n).map(|i| pool.dlog[(start + i) % pool.affine.len()]).collect();
    let mut scalars: Vec<C::Scalar> = (0..n)
        .map(|i| match case.other_scalars.as_str() {
            "one" => C::Scalar::ONE,
            // minimal shape: a single other term, with scalar 2 (same bucket as the identity term)
            "two-at-neighbour-else-zero" => {
                if i == (case.id_pos + 1) % n {
                    C::Scalar::from(2)
                } else {
                    C::Scalar::ZERO
                }
            }
            _ => random_scalar(&mut rng),
        })
        .collect();
    bases[case.id_pos] = C::identity();
    dlogs[case.id_pos] = C::Scalar::ZERO;
    scalars[case.id_pos] = match case.id_scalar.as_str() {
        "zero" => C::Scalar::ZERO,
        "one" => C::Scalar::ONE,
        "two" => C::Scalar::from(2),
        _ => random_scalar(&mut rng),
    };
    let k = scalars.iter().zip(dlogs.iter()).fold(C::Scalar::ZERO, |acc, (s, k)| acc + *s * *k);
    let want = C::Curve::generator() * k;
    let r = in_pool_catch(case.threads, || match case.entry.as_str() {
        "msm_best" => msm_best(&scalars, &bases),
        "msm_parallel" => msm_parallel(&scalars, &bases),
        _ => {
            let mut acc = C::Curve::identity();
            msm_serial(&scalars, &bases, &mut acc);
            acc
        }
    });
    let big = if n >= 8104 { "n>=8104" } else { "n<8104" };
    let shape = format!(
        "{} {}(n={n}: bases[{}] = identity with scalar {}, the other bases distinct non-identity points with {} scalars; threads={})",
        case.curve, case.entry, case.id_pos, case.id_scalar, case.other_scalars, case.threads
    );
    match r {
        Err(e) => Err(Failure::new(format!("{}:identity-base:{big}:panic", case.entry), format!("{shape} panicked: {e}"))),
        Ok(r) => {
            ensure!(r == want, format!("{}:identity-base:{big}:wrong-result", case.entry), "{shape} returned a point different from the sum of scalar*base");
            Ok(Verdict::nontrivial(format!("{}:{big}", case.entry)).with(case.curve.clone()))
        }
    }
}

// ---------------------------------------------------------------------------
// FFT

#[derive(Clone, Debug, Serialize, Deserialize)]
pub struct FftCase {
    log_n: u32,
    threads: usize,
    inverse: bool,
    class: u8,
    seed: u64,
}

/// 2^log_n-th primitive root of unity from the published constants (C10).
pub fn root_of_unity<F: PrimeField>(log_n: u32) -> F {
    let mut w = F::ROOT_OF_UNITY;
    for _ in log_n..F::S {
        w = w.square();
    }
    w
}

const FFT_CLASSES: [&str; 5] = ["random", "zero", "delta", "constant", "sparse"];

fn fft_input<F: PrimeField>(n: usize, class: u8, seed: u64) -> Vec<F> {
    let mut rng = SplitMix(seed);
    match class % 5 {
        0 => (0..n).map(|_| random_scalar(&mut rng)).collect(),
        1 => vec![F::ZERO; n],
        2 => {
            let mut v = vec![F::ZERO; n];
            v[rng.below(n as u64) as usize] = random_scalar(&mut rng);
            v
        }
        3 => vec![random_scalar(&mut rng); n],
        _ => (0..n)
            .map(|_| if rng.below(4) == 0 { random_scalar(&mut rng) } else { F::ZERO })
            .collect(),
    }
}

/// out[i] = sum_j a[j] w^(i j)
pub fn naive_dft<F: PrimeField>(a: &[F], w: F) -> Vec<F> {
    let n = a.len();
    let mut pts = Vec::with_capacity(n);
    let mut x = F::ONE;
    for _ in 0..n {
        pts.push(x);
        x *= w;
    }
    pts.par_iter()
        .map(|x| a.iter().rev().fold(F::ZERO, |acc, c| acc * x + c))
        .collect()
}

fn fft_field_check<F: PrimeField>(name: &str, case: &FftCase) -> CaseResult {
    let n = 1usize << case.log_n;
    let w: F = root_of_unity(case.log_n);
    // the documented precondition: omega has multiplicative order exactly n
    ensure!(w.pow_vartime([n as u64]) == F::ONE, format!("{name}:root_of_unity"), "w^n != 1 for log_n={}", case.log_n);
    if n > 1 {
        ensure!(w.pow_vartime([(n / 2) as u64]) == -F::ONE, format!("{name}:root_of_unity"), "w^(n/2) != -1 for log_n={}", case.log_n);
    }
    let w = if case.inverse { w.invert().unwrap() } else { w };
    let a: Vec<F> = fft_input(n, case.class, case.seed);
    let want = naive_dft(&a, w);
    let mut got = a.clone();
    in_pool_catch(case.threads, || best_fft(&mut got, w, case.log_n)).map_err(|e| {
        Failure::new(format!("{name}:best_fft:panic"), format!("log_n={} threads={}: {e}", case.log_n, case.threads))
    })?;
    if let Some(i) = (0..n).find(|&i| got[i] != want[i]) {
        return Err(Failure::new(
            format!("{name}:best_fft"),
            format!(
                "log_n={} threads={} inverse={} class={}: output[{i}] differs from the evaluation at omega^{i}",
                case.log_n, case.threads, case.inverse, FFT_CLASSES[case.class as usize % 5]
            ),
        ));
    }
    // the documented inverse: omega^-1 and division by n
    let mut back = got.clone();
    let winv = w.invert().unwrap();
    in_pool_catch(case.threads, || best_fft(&mut back, winv, case.log_n))
        .map_err(|e| Failure::new(format!("{name}:best_fft:panic"), format!("inverse transform: {e}")))?;
    let ninv = F::from(n as u64).invert().unwrap();
    ensure!(
        back.iter().zip(a.iter()).all(|(b, a)| *b * ninv == *a),
        format!("{name}:best_fft:inverse"),
        "log_n={} threads={}: fft with omega^-1 divided by n does not give the input back",
        case.log_n,
        case.threads
    );
    let path = if case.log_n <= case.threads.ilog2() { "iterative" } else { "recursive" };
    Ok(Verdict::of(case.class % 5 != 1, format!("log_n={}", case.log_n))
        .with(format!("threads={}", case.threads))
        .with(FFT_CLASSES[case.class as usize % 5])
        .with(path))
}

fn fft_group_check<C: CurveAffine>(ctx: &CurveCtx<C>, case: &FftCase) -> CaseResult {
    let name = ctx.name;
    let n = 1usize << case.log_n;
    let pool = ctx.pool();
    let w: C::Scalar = root_of_unity(case.log_n);
    let w = if case.inverse { w.invert().unwrap() } else { w };
    let mut rng = SplitMix(case.seed);
    let start = rng.below(pool.proj.len() as u64) as usize;
    // group inputs with known discrete logs; class 1 = all identity, 2 = one
    // non-identity element, 4 = some identities
    let mut k: Vec<C::Scalar> = Vec::with_capacity(n);
    let mut a: Vec<C::Curve> = Vec::with_capacity(n);
    for i in 0..n {
        let ix = (start + i) % pool.proj.len();
        let zero = match case.class % 5 {
            1 => true,
            2 => i != start % n,
            4 => rng.below(4) != 0,
            _ => false,
        };
        if zero {
            k.push(C::Scalar::ZERO);
            a.push(C::Curve::identity());
        } else if case.class % 5 == 3 {
            k.push(pool.dlog[start]);
            a.push(pool.proj[start]);
        } else {
            k.push(pool.dlog[ix]);
            a.push(pool.proj[ix]);
        }
    }
    let want_k = naive_dft(&k, w);
    let g = C::Curve::generator();
    let mut got = a.clone();
    in_pool_catch(case.threads, || best_fft(&mut got, w, case.log_n)).map_err(|e| {
        Failure::new(format!("{name}:best_fft(group):panic"), format!("log_n={} threads={}: {e}", case.log_n, case.threads))
    })?;
    let bad = (0..n).into_par_iter().find_first(|&i| got[i] != g * want_k[i]);
    if let Some(i) = bad {
        return Err(Failure::new(
            format!("{name}:best_fft(group)"),
            format!("log_n={} threads={} inverse={}: output[{i}] differs from sum_j omega^({i} j) a_j", case.log_n, case.threads, case.inverse),
        ));
    }
    if case.log_n <= 4 {
        // the definition itself on group elements
        let mut x = C::Scalar::ONE;
        for (i, item) in got.iter().enumerate().take(n) {
            let mut acc = C::Curve::identity();
            let mut p = C::Scalar::ONE;
            for aj in a.iter() {
                acc += *aj * p;
                p *= x;
            }
            ensure!(*item == acc, format!("{name}:best_fft(group)"), "log_n={} output[{i}] differs from the naive group DFT", case.log_n);
            x *= w;
        }
    }
    Ok(Verdict::of(case.class % 5 != 1, format!("log_n={}", case.log_n))
        .with(format!("threads={}", case.threads))
        .with(FFT_CLASSES[case.class as usize % 5]))
}

fn fft_items(max_log: u32, seed: u64, per: usize) -> Vec<FftCase> {
    let mut v = vec![];
    let mut rng = SplitMix(seed);
    for log_n in 0..=max_log {
        for &threads in &POOL_SIZES {
            for inverse in [false, true] {
                for r in 0..per {
                    // classes rotate so that every (size, pool) sees several
                    let class = ((log_n as usize + threads + inverse as usize + r) % 5) as u8;
                    v.push(FftCase { log_n, threads, inverse, class, seed: rng.next_u64() });
                }
            }
        }
    }
    // heavy items first (better load balance)
    v.sort_by(|a, b| b.log_n.cmp(&a.log_n));
    v
}

// ---------------------------------------------------------------------------

/// All pools up to `all_below` terms; above, two pools chosen by the case
/// (every (length class, pool) pair is still sampled across cases).
fn pools_for(c: &MsmCase, all_below: usize) -> Vec<usize> {
    if c.n <= all_below {
        POOL_SIZES.to_vec()
    } else {
        let a = (c.seed % 6) as usize;
        let b = (a + 1 + ((c.seed / 6) % 5) as usize) % 6;
        vec![POOL_SIZES[a], POOL_SIZES[b]]
    }
}

fn msm_suite<C: CurveAffine>(p: &Prop, ctx: &CurveCtx<C>, max_n: usize, cases: u32, large_cases: u32, large_streams: usize, large_all_pools: usize) {
    let name = ctx.name;
    p.sub(
        &format!("msm.{name}"),
        "lengths 0..4096 (every length up to 70, window switches 4 and 32, blst thresholds 32 and 768, sampled above) x scalar modes {random, mixed boundary {0,1,-1,2^k,2^k-1,-2^k,top-bit,ff/aa/55 patterns,(r-1)/2,small}, all-zero, all -1, all 1, all equal, short (1..31 bytes), all boundary} x base modes {distinct, mixed {identity, generator, repeated, opposite}, all equal, all identity, opposite pairs, few repeated, all generator}; msm_serial, msm_parallel and msm_best under pools {1,2,3,5,8,16}, multi_exp (BLS) on projective inputs; oracle = naive sum of base*scalar and (sum s_i k_i) G; non-trivial = n >= 2 and a special scalar or base present",
        cases,
        16,
        || msm_strategy(max_n),
        |c| msm_check(ctx, c, true, &pools_for(c, 70)),
    );
    p.sub_cfg(
        &format!("msm.large.{name}"),
        "lengths 8090..8200 (thorough: ..8192, 22000..22060) across the msm_best window switch at ceil(e^9)=8104 (and ceil(e^10)=22027), same scalar/base modes including identity bases (repeated, equal and opposite bases exercise the batch-affine doubling and cancellation paths); every pool; non-trivial = special scalar or base present",
        large_cases,
        large_streams,
        24,
        || large_strategy(!p.quick()),
        |c| msm_check(ctx, c, true, &pools_for(c, large_all_pools)),
    );
}

fn pool_len(p: &Prop) -> usize {
    if p.is_replay() {
        22_200
    } else {
        p.tier.pick(8_400, 22_200)
    }
}

pub fn run(p: &Prop) {
    use midnight_curves::{bn256, Fq, G1Affine, G1Projective, G2Affine, G2Projective};
    p.assume("scalar multiplication, addition, negation and equality of curve points are correct (C11); field arithmetic is correct (C10)");
    p.assume("bases are k_i G for known k_i (arithmetic progression built by repeated addition); MSM results are also compared with (sum s_i k_i) G");
    let plen = pool_len(p);
    let bls_g1 = CurveCtx::<G1Affine> {
        name: "bls12_381.G1",
        pool_len: plen,
        pool: OnceLock::new(),
        multi_exp: Some(("G1Projective::multi_exp", |b: &[G1Projective], s: &[Fq]| G1Projective::multi_exp(b, s))),
    };
    let bls_g2 = CurveCtx::<G2Affine> {
        name: "bls12_381.G2",
        pool_len: plen,
        pool: OnceLock::new(),
        multi_exp: Some(("G2Projective::multi_exp", |b: &[G2Projective], s: &[Fq]| G2Projective::multi_exp(b, s))),
    };
    let bn_g1 = CurveCtx::<bn256::G1Affine> { name: "bn256.G1", pool_len: plen, pool: OnceLock::new(), multi_exp: None };
    let bn_g2 = CurveCtx::<bn256::G2Affine> { name: "bn256.G2", pool_len: plen, pool: OnceLock::new(), multi_exp: None };

    msm_suite(p, &bls_g1, 4096, p.tier.pick(1100, 10_000), p.tier.pick(8, 64), 8, usize::MAX);
    msm_suite(p, &bn_g1, 4096, p.tier.pick(800, 7_000), p.tier.pick(8, 64), 8, usize::MAX);
    let g2_max = p.tier.pick(2048, 4096);
    msm_suite(p, &bls_g2, g2_max, p.tier.pick(350, 3_000), p.tier.pick(4, 24), 4, 0);
    msm_suite(p, &bn_g2, g2_max, p.tier.pick(300, 2_500), p.tier.pick(4, 24), 4, 0);

    // --- known crash shapes, isolated
    let mut items = vec![];
    let mut sm = SplitMix(0x1D);
    for curve in ["bls12_381.G1", "bn256.G1"] {
        let mut mk = |entry: &str, n: usize, id_pos: usize, id_scalar: &str, other: &str, threads: usize| IdCase {
            curve: curve.into(),
            entry: entry.into(),
            n,
            id_pos,
            id_scalar: id_scalar.into(),
            other_scalars: other.into(),
            threads,
            seed: sm.next_u64(),
        };
        for n in [8103usize, 8104] {
            for id_pos in [0usize, n / 2, n - 1] {
                items.push(mk("msm_best", n, id_pos, "random", "random", 1));
            }
            items.push(mk("msm_best", n, 0, "zero", "random", 1));
            items.push(mk("msm_best", n, 0, "one", "random", 1));
            items.push(mk("msm_best", n, 0, "random", "one", 1));
            items.push(mk("msm_best", n, 0, "two", "two-at-neighbour-else-zero", 1));
            items.push(mk("msm_best", n, 17, "random", "random", 16));
        }
        items.push(mk("msm_parallel", 8104, 0, "random", "random", 1));
        items.push(mk("msm_serial", 8104, 0, "random", "random", 1));
    }
    p.enumerate(
        "msm.identity-base-large",
        "REGRESSION (fixed: msm_best panicked on an identity base at n >= 8104): one identity base (scalar 0, 1, 2 or random; first, middle or last position) among n-1 distinct non-identity bases (random scalars; all 1; or the minimal shape: one neighbour with scalar 2, all others 0), n = 8103 (below the msm_best window switch, control) and 8104 (above): result must equal (sum s_i k_i) G; msm_parallel / msm_serial as controls",
        items,
        8,
        false,
        |c| match c.curve.as_str() {
            "bls12_381.G1" => identity_base_check(&bls_g1, c),
            _ => identity_base_check(&bn_g1, c),
        },
    );
    let entries: Vec<String> = [
        "msm_serial", "msm_parallel", "msm_best", "bn256:msm_best", "G1Projective::multi_exp", "G2Projective::multi_exp",
    ]
    .iter()
    .map(|s| s.to_string())
    .collect();
    p.enumerate(
        "msm.empty",
        "REGRESSION (fixed: multi_exp panicked on empty input): every MSM entry point on empty (equal-length) inputs returns the identity (the empty sum)",
        entries,
        2,
        true,
        |e| {
            let r: Result<bool, String> = match e.as_str() {
                "msm_serial" => vpcore::catch(|| {
                    let mut acc = G1Projective::identity();
                    msm_serial::<G1Affine>(&[], &[], &mut acc);
                    bool::from(acc.is_identity())
                }),
                "msm_parallel" => in_pool_catch(1, || bool::from(msm_parallel::<G1Affine>(&[], &[]).is_identity())),
                "msm_best" => in_pool_catch(1, || bool::from(msm_best::<G1Affine>(&[], &[]).is_identity())),
                "bn256:msm_best" => in_pool_catch(1, || bool::from(msm_best::<bn256::G1Affine>(&[], &[]).is_identity())),
                "G1Projective::multi_exp" => vpcore::catch(|| bool::from(G1Projective::multi_exp(&[], &[]).is_identity())),
                _ => vpcore::catch(|| bool::from(G2Projective::multi_exp(&[], &[]).is_identity())),
            };
            match r {
                Ok(true) => Ok(Verdict::nontrivial(e.clone())),
                Ok(false) => Err(Failure::new(format!("{e}:empty"), format!("{e}(&[], &[]) is not the identity"))),
                Err(m) => Err(Failure::new(format!("{e}:empty:panic"), format!("{e}(&[], &[]) panicked: {m}"))),
            }
        },
    );

    // --- FFT
    let max_log = p.tier.pick(12, 13);
    let per = p.tier.pick(1, 4);
    p.enumerate(
        "fft.bls12_381.Fq",
        "best_fft on field elements: every size 2^0..2^12 (thorough 2^13) x pools {1,2,3,5,8,16} (iterative and recursive paths) x {omega, omega^-1} x input classes {random, zero, delta, constant, sparse} against the naive O(n^2) DFT, and the documented inverse (omega^-1, divide by n); non-trivial = input not all zero",
        fft_items(max_log, p.seed ^ 0xF1, per),
        16,
        false,
        |c| fft_field_check::<Fq>("bls12_381.Fq", c),
    );
    p.enumerate(
        "fft.bn256.Fr",
        "same, BN254 scalar field",
        fft_items(max_log, p.seed ^ 0xF2, per),
        16,
        false,
        |c| fft_field_check::<bn256::Fr>("bn256.Fr", c),
    );
    let max_log_g = p.tier.pick(8, 11);
    p.enumerate(
        "fft.group.bls12_381.G1",
        "best_fft on G1Projective elements k_j G (identities included): sizes 2^0..2^8 (thorough 2^11) x pools x {omega, omega^-1}; output[i] must be (sum_j omega^(ij) k_j) G; for n <= 16 also the naive group DFT; non-trivial = not all identity",
        fft_items(max_log_g, p.seed ^ 0xF3, per),
        16,
        false,
        |c| fft_group_check(&bls_g1, c),
    );
    p.enumerate(
        "fft.group.bn256.G1",
        "same, BN254 G1",
        fft_items(max_log_g, p.seed ^ 0xF4, per),
        16,
        false,
        |c| fft_group_check(&bn_g1, c),
    );
}
