#![no_main]
//! data[0] selects (fixture, transcript hash); the rest is the proof.
//! Oracle: no panic; accepted => the bytes are the honest proof.
use libfuzzer_sys::fuzz_target;

fuzz_target!(|data: &[u8]| {
    c16_fuzz::init();
    if data.is_empty() {
        return;
    }
    let fx = c16_fuzz::fixtures();
    let f = &fx.fix[(data[0] % 3) as usize];
    let poseidon = (data[0] / 3) & 1 == 1;
    let proof = &data[1..];
    let (ok, honest) = if poseidon { (c16_fuzz::verify_poseidon("verify", &f.vk, &f.inst, proof), f.proof_poseidon) } else { (c16_fuzz::verify_blake("verify", &f.vk, &f.inst, proof), f.proof_blake) };
    if ok == Some(true) && proof != honest {
        c16_fuzz::fail("verify:accepts-mutated-proof", "a proof different from the honest one was accepted");
    }
    if !poseidon && (data[0] >> 4) & 1 == 1 {
        if c16_fuzz::batch_blake("batch_verify", &f.vk, &f.inst, proof) == Some(true) && proof != honest {
            c16_fuzz::fail("batch_verify:accepts-mutated-proof", "a proof different from the honest one was accepted");
        }
    }
});
