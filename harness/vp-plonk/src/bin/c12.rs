//! C12 — MSM, FFT and the evaluation-domain algebra equal their naive
//! definitions.
//!
//! One binary, two library parts (so that a single evidence file is written):
//! * `vp_alg::c12_msm::run`   — `midnight_curves::msm::{msm_serial, msm_parallel,
//!   msm_best}`, `G1Projective::multi_exp`, `G2Projective::multi_exp`,
//!   `midnight_curves::fft::best_fft` (field and group inputs);
//! * `vp_plonk::c12_domain::run` — `EvaluationDomain`, `Polynomial`, polynomial
//!   utilities, Lagrange-basis SRS and commitments, `msm_specific`, `MSMKZG`,
//!   `Rational` of `midnight_proofs`.
//!
//! Findings of this check, since repaired in /repo (their sub-checks stay as
//! regression checks; the main sub-checks generate the shapes too):
//! * `msm.empty`: `G1Projective::multi_exp(&[], &[])` / `G2Projective::multi_exp`
//!   panic (blst `p1_affines::from` indexes `points[0]`) — signatures
//!   `G1Projective::multi_exp:empty:panic`, `G2Projective::multi_exp:empty:panic`;
//! * `msm.identity-base-large`: `msm_best` with an identity base and n >= 8104
//!   panics as soon as the identity term shares a bucket with another term
//!   (`coordinates()` returns Some((0,0)) for the identity, the pseudo-point is
//!   batch-added, `Affine::eval` then unwraps a point that is off the curve,
//!   curves/src/msm.rs:167) — `msm_best:identity-base:n>=8104:panic`; reachable
//!   through `msm_specific` for non-BLS-G1 curves
//!   (`msm_specific:bn256:identity-base:n>=8104:panic`, sub `kzg.msm.identity-base-large`);
//! * `domain.rotate.wrap`: `Polynomial::rotate` panics when |rotation| > n
//!   (k = 1 with rotations +-3) — `Polynomial::rotate:|rotation|>n:panic`.
//!
//! Sensitivity (mutants applied in a scratch worktree, quick tier, seed 1; all
//! reported as violations):
//! * M1 `msm_serial`: `number_of_windows = max_byte_size*8/c` (no `+ 1`)
//!   -> `*:msm_serial`, `*:msm_parallel` in msm.* and msm.large.* (all 4 curves);
//! * M2 `msm_best`: `number_of_windows = NUM_BITS/c` (no `+ 1`)
//!   -> `*:msm_best` in msm.large.* (all 4 curves);
//! * M3 `batch_add`: equal-x always treated as doubling (sign ignored)
//!   -> `*:msm_best:panic` in msm.large.* (opposite/repeated bases);
//! * M4 `parallelize`: `split_pos = cutoff_chunk_id * base_chunk_size`
//!   -> `parallelize`, `EvaluationDomain:lagrange_to_coeff`,
//!   `divide_by_vanishing_poly`, `g_to_lagrange`, `KZG:commit`, ...;
//! * M5 `l_i_range` without the rotation of the barycentric weight
//!   -> `EvaluationDomain:l_i_range` (both fields);
//! * M6 `recursive_butterfly_arithmetic`: twiddle index `i * twiddle_chunk`
//!   -> `*:best_fft`, `*:best_fft(group)`, domain conversions, SRS, commitments;
//! * M7 `divide_by_vanishing_poly` ignoring the chunk offset of `parallelize`
//!   -> `EvaluationDomain:divide_by_vanishing_poly` (pools > 1).

fn main() {
    vpcore::main("C12", "exploration", (1200, 14400), |p| {
        vp_alg::c12_msm::run(p);
        vp_plonk::c12_domain::run(p);
    });
}
