//! C17 — key generation is deterministic and keys survive serialization unchanged.
//!
//! (1) keygen of an E1 spec under rayon pools {1,2,3,8,16} and repeated runs:
//!     byte-identical vk (Processed and RawBytes), identical transcript
//!     representative, byte-identical pk.
//! (2) vk/pk round trips in {Processed, RawBytes, RawBytesUnchecked} and through
//!     the compatible pair RawBytes <-> RawBytesUnchecked: same bytes again, same
//!     transcript representative; all four {original, reloaded} pk x vk
//!     combinations produce/accept the same proofs and reject the same
//!     corrupted proof.
//! (3) ParamsKZG / ParamsVerifierKZG round trips; `downsize(k')` equals
//!     `unsafe_setup(k')` from the same seeded secret, and commitments made with
//!     downsized parameters equal those made with fresh ones.

use midnight_curves::Bls12;
use midnight_proofs::{
    plonk::{ProvingKey, VerifyingKey},
    poly::{
        commitment::{Params, PolynomialCommitmentScheme},
        kzg::params::{ParamsKZG, ParamsVerifierKZG},
        EvaluationDomain,
    },
    transcript::{CircuitTranscript, Transcript},
    utils::SerdeFormat,
};
use ff::Field;
use proptest::prelude::*;
use rand_chacha::ChaCha20Rng;
use rand_core::SeedableRng;
use serde::{Deserialize, Serialize};
use vp_plonk::{
    e1::{build_plan, expand, knobs_strategy, GenCircuit, Knobs, Spec, F},
    pv::{self, Blake, CS},
};
use vpcore::{ensure, CaseResult, Failure, SplitMix, Verdict};

#[derive(Clone, Debug, Serialize, Deserialize)]
struct Case {
    knobs: Knobs,
    wseed: u64,
}

fn strategy(max_ops: usize) -> BoxedStrategy<Case> {
    (knobs_strategy(max_ops), any::<u64>(), 0u8..4)
        .prop_map(|(mut knobs, wseed, bare)| {
            // a quarter of the circuits have no copy constraint at all (no equality-enabled column,
            // no constants column): their permutation argument and parts of their keys are empty
            if bare == 0 {
                knobs.eq_mask = 0;
                if (3..=7).contains(&knobs.min_degree) {
                    knobs.min_degree = 8;
                }
                knobs.redundant = 0;
                for o in knobs.ops.iter_mut() {
                    o.srcs.clear();
                    o.dst = 0;
                }
            }
            Case { knobs, wseed }
        })
        .boxed()
}

const FORMATS: [(SerdeFormat, &str); 3] = [
    (SerdeFormat::Processed, "Processed"),
    (SerdeFormat::RawBytes, "RawBytes"),
    (SerdeFormat::RawBytesUnchecked, "RawBytesUnchecked"),
];

fn in_pool<T: Send>(threads: usize, f: impl FnOnce() -> T + Send) -> T {
    rayon::ThreadPoolBuilder::new().num_threads(threads).build().unwrap().install(f)
}

fn determinism(c: &Case, pools: &[usize]) -> CaseResult {
    let spec = expand(&c.knobs);
    let (pk0, vk0) = pv::keygen(&spec).map_err(|e| Failure::new("keygen-fails", e))?;
    let vk_p = vk0.to_bytes(SerdeFormat::Processed);
    let vk_r = vk0.to_bytes(SerdeFormat::RawBytes);
    let pk_r = pk0.to_bytes(SerdeFormat::RawBytes);
    for &t in pools {
        let (pk, vk) = in_pool(t, || pv::keygen(&spec)).map_err(|e| Failure::new("keygen-fails", e))?;
        ensure!(vk.to_bytes(SerdeFormat::Processed) == vk_p, "keygen:vk-bytes-differ-across-pools", "pool {t}: vk bytes (Processed) differ; spec={spec:?}");
        ensure!(vk.to_bytes(SerdeFormat::RawBytes) == vk_r, "keygen:vk-bytes-differ-across-pools", "pool {t}: vk bytes (RawBytes) differ; spec={spec:?}");
        ensure!(vk.transcript_repr() == vk0.transcript_repr(), "keygen:transcript-repr-differs", "pool {t}; spec={spec:?}");
        ensure!(pk.to_bytes(SerdeFormat::RawBytes) == pk_r, "keygen:pk-bytes-differ-across-pools", "pool {t}: pk bytes differ; spec={spec:?}");
        // interchangeable: the key generated under this pool proves statements the
        // reference verifying key accepts (parts of a proving key are not serialised,
        // so equal bytes do not imply this), and a pk reloaded under this pool as well
        let proof = prove_with(&pk, &spec, c.wseed)?;
        ensure!(verify_with(&vk0, &spec, c.wseed, &proof), "keygen:pk-of-pool-proves-rejected-proofs", "pool {t}: proof made with the pk generated under this pool is rejected by the reference vk; spec={spec:?}");
        let pk_re = in_pool(t, || ProvingKey::<F, CS>::from_bytes::<GenCircuit>(&pk_r, SerdeFormat::RawBytes, spec.clone())).map_err(|e| Failure::new("pk-read-fails:in-pool", format!("{e}")))?;
        let proof = prove_with(&pk_re, &spec, c.wseed ^ 2)?;
        ensure!(verify_with(&vk0, &spec, c.wseed ^ 2, &proof), "keygen:pk-reloaded-in-pool-proves-rejected-proofs", "pool {t}: proof made with a pk reloaded under this pool is rejected by the reference vk; spec={spec:?}");
        let proof = in_pool(t, || prove_with(&pk0, &spec, c.wseed ^ 3))?;
        ensure!(in_pool(t, || verify_with(&vk0, &spec, c.wseed ^ 3, &proof)), "prove-verify-in-pool-fails", "pool {t}: proving/verifying inside this pool fails; spec={spec:?}");
    }
    // keygen with a witness present gives the same key as without (structure is witness independent)
    {
        let p = pv::params(spec.k);
        let circuit = GenCircuit::new(&spec, build_plan(&spec, c.wseed));
        let vkw = midnight_proofs::plonk::keygen_vk_with_k::<F, CS, _>(&p, &circuit, spec.k).map_err(|e| Failure::new("keygen-fails", format!("{e:?}")))?;
        ensure!(vkw.to_bytes(SerdeFormat::RawBytes) == vk_r, "keygen:vk-depends-on-witness", "vk generated with a witness differs; spec={spec:?}");
    }
    let feats = spec.features();
    let nt = feats.iter().any(|f| f.starts_with("copy")) && feats.contains(&"lookup");
    Ok(Verdict::of(nt, if nt { "perm+lookup" } else { "other" }).with(format!("k={}", spec.k)))
}

fn prove_with(pk: &ProvingKey<F, CS>, spec: &Spec, wseed: u64) -> Result<Vec<u8>, Failure> {
    let plan = build_plan(spec, wseed);
    let mut t = CircuitTranscript::<Blake>::init();
    pv::prove(pk, spec, std::slice::from_ref(&plan), 0, wseed ^ 1, &mut t).map_err(|e| Failure::new("create_proof-fails", e))?;
    Ok(t.finalize())
}

fn verify_with(vk: &VerifyingKey<F, CS>, spec: &Spec, wseed: u64, proof: &[u8]) -> bool {
    let plan = build_plan(spec, wseed);
    let st = pv::statement(vk, spec, &[plan.instances.clone()], 0);
    let mut t = CircuitTranscript::<Blake>::init_from_bytes(proof);
    pv::verify(vk, spec.k, &st, &mut t).is_ok()
}

fn roundtrip(c: &Case) -> CaseResult {
    let spec = expand(&c.knobs);
    let (pk, vk) = pv::keygen(&spec).map_err(|e| Failure::new("keygen-fails", e))?;
    let mut reloaded: Vec<(String, ProvingKey<F, CS>, VerifyingKey<F, CS>)> = vec![];
    for (wf, wname) in FORMATS {
        for (rf, rname) in FORMATS {
            let compatible = wname == rname || (wname != "Processed" && rname != "Processed");
            if !compatible {
                continue;
            }
            let tag = format!("{wname}->{rname}");
            let vb = vk.to_bytes(wf);
            let vk2 = VerifyingKey::<F, CS>::from_bytes::<GenCircuit>(&vb, rf, spec.clone())
                .map_err(|e| Failure::new(format!("vk-read-fails:{tag}"), format!("{e}; spec={spec:?}")))?;
            ensure!(vk2.to_bytes(wf) == vb, format!("vk-roundtrip-bytes:{tag}"), "vk bytes differ after {tag}; spec={spec:?}");
            ensure!(vk2.transcript_repr() == vk.transcript_repr(), format!("vk-roundtrip-transcript-repr:{tag}"), "transcript_repr differs after {tag}; spec={spec:?}");
            for (of, oname) in FORMATS {
                ensure!(vk2.to_bytes(of) == vk.to_bytes(of), format!("vk-roundtrip-bytes:{tag}:as-{oname}"), "reloaded vk serialises differently in {oname}; spec={spec:?}");
            }
            let pb = pk.to_bytes(wf);
            let pk2 = ProvingKey::<F, CS>::from_bytes::<GenCircuit>(&pb, rf, spec.clone())
                .map_err(|e| Failure::new(format!("pk-read-fails:{tag}"), format!("{e}; spec={spec:?}")))?;
            ensure!(pk2.to_bytes(wf) == pb, format!("pk-roundtrip-bytes:{tag}"), "pk bytes differ after {tag}; spec={spec:?}");
            ensure!(pk2.get_vk().transcript_repr() == vk.transcript_repr(), format!("pk-roundtrip-transcript-repr:{tag}"), "spec={spec:?}");
            reloaded.push((tag, pk2, vk2));
        }
    }
    // interchangeability: proofs by {orig, reloaded} pk verified by {orig, reloaded} vk
    let proof0 = prove_with(&pk, &spec, c.wseed)?;
    ensure!(verify_with(&vk, &spec, c.wseed, &proof0), "control:honest-proof-rejected", "spec={spec:?}");
    let mut bad = proof0.clone();
    let mut rng = SplitMix(c.wseed);
    let pos = rng.below(bad.len() as u64) as usize;
    bad[pos] ^= 1 << rng.below(8);
    ensure!(!verify_with(&vk, &spec, c.wseed, &bad), "control:corrupted-proof-accepted", "spec={spec:?}");
    // one reloaded pair per case is proven with (choice from the case seed), all are verified with
    let pick = rng.below(reloaded.len() as u64) as usize;
    for (i, (tag, pk2, vk2)) in reloaded.iter().enumerate() {
        ensure!(verify_with(vk2, &spec, c.wseed, &proof0), format!("reloaded-vk-rejects-honest-proof:{tag}"), "spec={spec:?}");
        ensure!(!verify_with(vk2, &spec, c.wseed, &bad), format!("reloaded-vk-accepts-corrupted-proof:{tag}"), "spec={spec:?}");
        if i == pick {
            let proof2 = prove_with(pk2, &spec, c.wseed)?;
            // (the prover is not a deterministic function of its rng argument on
            // this tree - it also draws blinding from elsewhere - so proof bytes
            // are not compared; interchangeability is judged by verification)
            ensure!(verify_with(&vk, &spec, c.wseed, &proof2), format!("orig-vk-rejects-proof-of-reloaded-pk:{tag}"), "spec={spec:?}");
            ensure!(verify_with(vk2, &spec, c.wseed, &proof2), format!("reloaded-vk-rejects-proof-of-reloaded-pk:{tag}"), "spec={spec:?}");
        }
    }
    let feats = spec.features();
    let nt = feats.iter().any(|f| f.starts_with("copy")) && feats.contains(&"lookup");
    Ok(Verdict::of(nt, if nt { "perm+lookup" } else { "other" }).with(format!("k={}", spec.k)))
}

#[derive(Clone, Debug, Serialize, Deserialize)]
struct ParamsCase {
    k: u32,
    k2: u32,
    seed: u64,
}

fn params_bytes(p: &ParamsKZG<Bls12>, f: SerdeFormat) -> Vec<u8> {
    let mut v = vec![];
    p.write_custom(&mut v, f).unwrap();
    v
}

fn params_check(c: &ParamsCase) -> CaseResult {
    let k2 = c.k2.min(c.k);
    let big = ParamsKZG::<Bls12>::unsafe_setup(c.k, ChaCha20Rng::seed_from_u64(c.seed));
    let fresh = ParamsKZG::<Bls12>::unsafe_setup(k2, ChaCha20Rng::seed_from_u64(c.seed));
    let mut down = big.clone();
    down.downsize(k2);
    ensure!(down.max_k() == k2, "downsize:max_k", "k={} k'={k2}: max_k {}", c.k, down.max_k());
    ensure!(
        params_bytes(&down, SerdeFormat::RawBytes) == params_bytes(&fresh, SerdeFormat::RawBytes),
        "downsize:differs-from-fresh-setup",
        "k={} k'={k2}: downsized parameters differ from unsafe_setup(k') with the same secret",
        c.k
    );
    // commitments agree
    let mut rng = SplitMix(c.seed ^ 0xc0);
    let domain = EvaluationDomain::<F>::new(1, k2);
    let mut lag = domain.empty_lagrange();
    for v in lag.iter_mut() {
        *v = F::from(rng.next_u64()) * F::from(rng.next_u64());
    }
    let coeff = domain.lagrange_to_coeff(lag.clone());
    let c1 = CS::commit_lagrange(&down, &lag);
    let c2 = CS::commit_lagrange(&fresh, &lag);
    let c3 = CS::commit(&down, &coeff);
    ensure!(c1 == c2, "downsize:commit_lagrange-differs", "k={} k'={k2}", c.k);
    ensure!(c1 == c3, "params:commit-vs-commit_lagrange", "k'={k2}: commit(coeff form) != commit_lagrange(lagrange form)");
    // serialisation round trips
    for (f, name) in FORMATS {
        let b = params_bytes(&fresh, f);
        let re = ParamsKZG::<Bls12>::read_custom(&mut &b[..], f).map_err(|e| Failure::new(format!("params-read-fails:{name}"), format!("{e}")))?;
        ensure!(params_bytes(&re, f) == b, format!("params-roundtrip:{name}"), "k={k2}");
        ensure!(params_bytes(&re, SerdeFormat::Processed) == params_bytes(&fresh, SerdeFormat::Processed), format!("params-roundtrip:{name}:as-Processed"), "k={k2}");
        let vp = fresh.verifier_params();
        let mut vb = vec![];
        vp.write(&mut vb, f).unwrap();
        let vp2 = ParamsVerifierKZG::<Bls12>::read(&mut &vb[..], f).map_err(|e| Failure::new(format!("vparams-read-fails:{name}"), format!("{e}")))?;
        let mut vb2 = vec![];
        vp2.write(&mut vb2, f).unwrap();
        ensure!(vb == vb2, format!("vparams-roundtrip:{name}"), "k={k2}");
    }
    Ok(Verdict::of(k2 < c.k, format!("k={}->{}", c.k, k2)))
}

/// Reloaded parameter sets must behave like the originals: an honest proof made with reloaded
/// prover parameters verifies, and reloaded verifier parameters (read from their own encoding,
/// or derived from reloaded prover parameters) accept exactly what the original ones accept.
fn params_behaviour(c: &Case) -> CaseResult {
    use midnight_proofs::{plonk::prepare, poly::commitment::Guard, transcript::{CircuitTranscript, Transcript}};
    let mut kn = c.knobs.clone();
    kn.k_extra = 0;
    kn.ops.truncate(3);
    let spec = expand(&kn);
    if spec.k > 7 {
        return Ok(Verdict::trivial("circuit-too-large"));
    }
    let plan = build_plan(&spec, c.wseed);
    if pv::mock(&spec, &plan).is_err() {
        return Ok(Verdict::trivial("harness:plan-not-satisfying"));
    }
    let (pk, vk) = pv::keygen(&spec).map_err(|e| Failure::new("keygen-fails", e))?;
    let st = pv::statement(&vk, &spec, &[plan.instances.clone()], 0);
    let mut t = CircuitTranscript::<Blake>::init();
    pv::prove(&pk, &spec, &[plan.clone()], 0, c.wseed ^ 0x17, &mut t).map_err(|e| Failure::new("create_proof-fails", e))?;
    let proof = t.finalize();
    let mut bad = proof.clone();
    let n = bad.len();
    bad[n - 20] ^= 0x04;
    let params = pv::params(spec.k);
    let vp = params.verifier_params();
    let verdict = |vpx: &ParamsVerifierKZG<Bls12>, proof: &[u8]| -> Result<bool, String> {
        vpcore::catch(|| {
            let mut t = CircuitTranscript::<Blake>::init_from_bytes(proof);
            let com: Vec<&[midnight_curves::G1Projective]> = st.committed.iter().map(|v| &v[..]).collect();
            let plain: Vec<Vec<&[F]>> = st.plain.iter().map(|v| v.iter().map(|c| &c[..]).collect()).collect();
            let plain2: Vec<&[&[F]]> = plain.iter().map(|v| &v[..]).collect();
            match prepare::<F, CS, _>(&vk, &com, &plain2, &mut t) {
                Err(_) => false,
                Ok(g) => t.assert_empty().is_ok() && g.verify(vpx).is_ok(),
            }
        })
    };
    ensure!(verdict(&vp, &proof) == Ok(true), "harness:honest-proof-rejected", "spec={spec:?}");
    ensure!(verdict(&vp, &bad) == Ok(false), "harness:corrupted-proof-accepted", "spec={spec:?}");
    for (f, name) in FORMATS {
        let mut vb = vec![];
        vp.write(&mut vb, f).unwrap();
        let vp2 = ParamsVerifierKZG::<Bls12>::read(&mut &vb[..], f).map_err(|e| Failure::new(format!("vparams-read-fails:{name}"), format!("{e}")))?;
        let re = ParamsKZG::<Bls12>::read_custom(&mut &params_bytes(&params, f)[..], f).map_err(|e| Failure::new(format!("params-read-fails:{name}"), format!("{e}")))?;
        let vp3 = re.verifier_params();
        for (which, vpx) in [("read", &vp2), ("of-reloaded-prover-params", &vp3)] {
            let a = verdict(vpx, &proof);
            ensure!(a == Ok(true), format!("vparams-reloaded:{which}:{name}:rejects-honest-proof"), "verifier parameters {which} ({name}) give {a:?} on a proof the original parameters accept; spec={spec:?}");
            let b = verdict(vpx, &bad);
            ensure!(b == Ok(false), format!("vparams-reloaded:{which}:{name}:accepts-corrupted-proof"), "{b:?}");
        }
    }
    Ok(Verdict::nontrivial(format!("k={}", spec.k)))
}

/// `filecoin_srs(k)` derives the parameters for k from the big SRS file and caches them on disk:
/// the first call, every later call (served from the cache) and the cached bytes must all be the
/// parameter set derived for k. A throw-away SRS stands in for the Filecoin file (the function
/// reads the size from the file header).
fn srs_cache_check(c: &SrsCase) -> CaseResult {
    use midnight_zk_stdlib::utils::plonk_api::filecoin_srs;
    let dir = std::env::temp_dir().join(format!("c17-srs-{}-{}", std::process::id(), c.seed));
    let _ = std::fs::remove_dir_all(&dir);
    std::fs::create_dir_all(&dir).map_err(|e| Failure::new("harness:tempdir", e.to_string()))?;
    let big = ParamsKZG::<Bls12>::unsafe_setup(c.big_k, ChaCha20Rng::seed_from_u64(c.seed));
    std::fs::write(dir.join("bls_filecoin_2p19"), params_bytes(&big, SerdeFormat::RawBytesUnchecked)).map_err(|e| Failure::new("harness:write", e.to_string()))?;
    // SRS_DIR is process-wide: this sub-check runs its cases one after the other
    std::env::set_var("SRS_DIR", &dir);
    let mut result = Ok(());
    for (step, k) in c.ks.iter().enumerate() {
        let k = (*k).min(c.big_k);
        let mut want = big.clone();
        want.downsize(k);
        let want_bytes = params_bytes(&want, SerdeFormat::RawBytes);
        let got = match vpcore::catch(|| filecoin_srs(k)) {
            Ok(p) => p,
            Err(p) => {
                result = Err(Failure::new("filecoin_srs:panic", format!("step {step}, k = {k}: {p}")));
                break;
            }
        };
        if got.max_k() != k || params_bytes(&got, SerdeFormat::RawBytes) != want_bytes {
            result = Err(Failure::new(
                format!("filecoin_srs:{}:differs-from-downsized", if c.ks[..step].contains(&k) { "served-from-cache" } else { "first-call" }),
                format!("call #{step} for k = {k} (big SRS k = {}): max_k = {}, parameters differ from the big SRS downsized to k; earlier calls {:?}", c.big_k, got.max_k(), &c.ks[..step]),
            ));
            break;
        }
        if k < c.big_k {
            // the cache file is the encoding of what was returned
            match std::fs::read(dir.join(format!("bls_filecoin_2p{k}"))) {
                Ok(b) if b == params_bytes(&want, SerdeFormat::RawBytesUnchecked) => {}
                Ok(b) => {
                    result = Err(Failure::new("filecoin_srs:cache-file-differs-from-returned-parameters", format!("k = {k}: cache file of {} bytes, downsized parameters encode to {} bytes", b.len(), params_bytes(&want, SerdeFormat::RawBytesUnchecked).len())));
                    break;
                }
                Err(e) => {
                    result = Err(Failure::new("filecoin_srs:no-cache-file", format!("k = {k}: {e}")));
                    break;
                }
            }
        }
    }
    std::env::remove_var("SRS_DIR");
    let _ = std::fs::remove_dir_all(&dir);
    result?;
    let repeats = c.ks.iter().enumerate().filter(|(i, k)| c.ks[..*i].contains(k)).count();
    Ok(Verdict::of(repeats >= 1, format!("calls:{} repeated:{}", c.ks.len(), repeats.min(2))))
}

#[derive(Clone, Debug, Serialize, Deserialize)]
struct SrsCase {
    big_k: u32,
    ks: Vec<u32>,
    seed: u64,
}

fn main() {
    vpcore::main("C17", "exploration", (1800, 10800), |p| {
        p.assume("thread schedules are explored only through rayon pool sizes {1,2,3,8,16}");
        let pools: Vec<usize> = if p.quick() { vec![1, 3, 5, 16] } else { vec![1, 2, 3, 5, 8, 16] };
        p.sub_cfg(
            "keygen.determinism",
            "E1 specs: keygen repeated under rayon pools of different sizes gives byte-identical vk/pk and transcript representative, with and without a witness; non-trivial = spec has copy constraints and a lookup",
            p.tier.pick(480, 6000),
            4,
            16,
            || strategy(p.tier.pick(10, 16)),
            |c| determinism(c, &pools),
        );
        p.sub_cfg(
            "keys.roundtrip",
            "E1 specs: vk and pk written in {Processed, RawBytes, RawBytesUnchecked} and read back in the same or the compatible raw format serialise to the same bytes in every format, keep the transcript representative, and original/reloaded keys prove and verify interchangeably (the same corrupted proof is rejected); non-trivial = spec has copy constraints and a lookup",
            p.tier.pick(480, 6000),
            16,
            16,
            || strategy(p.tier.pick(10, 16)),
            roundtrip,
        );
        let max_k = p.tier.pick(9u32, 12u32);
        let mut items = vec![];
        let mut rng = SplitMix(p.seed ^ 0x17);
        for k in 1..=max_k {
            for k2 in 1..=k {
                if p.quick() && k > 6 && k2 != 1 && k2 != k && k2 != k - 1 && k2 != k / 2 {
                    continue;
                }
                items.push(ParamsCase { k, k2, seed: rng.next_u64() });
            }
        }
        p.enumerate(
            "params",
            "ParamsKZG: downsize(k') vs unsafe_setup(k') from the same seeded secret for k' in 1..k (all pairs up to k=6, boundary pairs above in quick; all pairs in thorough), commit vs commit_lagrange, params and verifier-params round trips in the three formats; non-trivial = k' < k",
            items,
            8,
            false,
            params_check,
        );
        {
            let mut rng = SplitMix(p.seed ^ 0x5125);
            let mut items = vec![];
            for big_k in if p.quick() { vec![6u32, 8] } else { vec![4, 6, 8, 10] } {
                for _ in 0..p.tier.pick(3, 8) {
                    let n = 3 + rng.below(4) as usize;
                    let mut ks: Vec<u32> = (0..n).map(|_| 1 + rng.below(big_k as u64) as u32).collect();
                    // at least one size asked twice
                    let again = ks[rng.below(ks.len() as u64) as usize];
                    ks.push(again);
                    items.push(SrsCase { big_k, ks, seed: rng.next_u64() });
                }
            }
            p.enumerate(
                "filecoin_srs.cache",
                "filecoin_srs(k) against a throw-away big SRS in a fresh SRS_DIR, a sequence of 4..7 calls with repeated sizes: every call (first, and served from the cache file) returns the big SRS downsized to k, and the cache file is the encoding of those parameters; non-trivial = a size is asked at least twice",
                items,
                1,
                false,
                srs_cache_check,
            );
        }
        p.sub_cfg(
            "params.behaviour",
            "small E1 circuits: verifier parameters written and read back in each format, and verifier parameters of prover parameters read back in each format, accept the honest proof and refuse a corrupted one exactly like the original parameters; every case non-trivial",
            p.tier.pick(24, 300),
            8,
            8,
            || strategy(4),
            params_behaviour,
        );
    });
}
