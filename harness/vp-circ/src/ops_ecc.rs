//! C06 — elliptic-curve gadget operations for the E2/E3 engine.
//!
//! Three op families: [`JubOp`] (native Jubjub `EccChip`), and [`ForOp`] over
//! secp256k1 / BLS12-381 G1 (`ForeignEccChip`). Inputs are `BigUint`s (affine
//! coordinates, identity flags, scalars); the oracle is the affine big-integer
//! group law of `vp_alg::model` (`Edwards`, `Weierstrass`). `judge` decodes the
//! exposed vector (natives, emulated-field limbs with their range predicate,
//! identity flag folded into the first limb) and compares *values*, not
//! representations.

use std::{
    collections::HashMap,
    sync::{Mutex, OnceLock},
};

use ff::Field;
use group::{Group, GroupEncoding};
use midnight_circuits::{
    ecc::{
        curves::{CircuitCurve, EdwardsCurve},
        hash_to_curve::HashToCurveGadget,
        native::EccChip,
    },
    field::foreign::params::MultiEmulationParams as MEP,
    hash::poseidon::PoseidonChip,
    instructions::*,
    types::{
        AssignedBit, AssignedByte, AssignedField, AssignedForeignPoint, AssignedNative, AssignedNativePoint,
        AssignedScalarOfNativeCurve,
    },
};
use midnight_curves::{
    k256::{Fp as SecpFp, Fq as SecpFq, K256},
    Fp as BlsFp, Fr as JubFr, G1Projective, JubjubExtended, JubjubSubgroup,
};
use midnight_proofs::{
    circuit::{Layouter, Value},
    plonk::Error,
};
use midnight_zk_stdlib::{ZkStdLib, ZkStdLibArch};
use num_bigint::BigUint;
use num_traits::{One, Zero};
use serde::{Deserialize, Serialize};
use vp_alg::{
    from_big,
    model::{EPoint, Edwards, WPoint, Weierstrass, Zp},
    to_big,
};
use vpcore::{CaseResult, Failure, SplitMix, Verdict};

use crate::e2::*;

type Jub = JubjubExtended;
type JPoint = AssignedNativePoint<Jub>;
type JScalar = AssignedScalarOfNativeCurve<Jub>;

fn hex(s: &str) -> BigUint {
    BigUint::parse_bytes(s.trim_start_matches("0x").as_bytes(), 16).unwrap()
}

fn pow2(n: u32) -> BigUint {
    BigUint::one() << n
}

// ---------------------------------------------------------------------------
// Curve contexts (constants written from the curve specifications; the
// library's generators are only used as *points to start from* and are
// verified against the model at initialisation).

pub struct JubCtx {
    pub ed: Edwards,
    pub q: BigUint,
    /// prime subgroup order
    pub r: BigUint,
    pub gen: EPoint,
    /// the 8-torsion subgroup, torsion[0] = identity, torsion[k] = k*T8
    pub torsion: Vec<EPoint>,
    /// a curve point of full order 8r
    pub full: EPoint,
}

pub fn jub() -> &'static JubCtx {
    static C: OnceLock<JubCtx> = OnceLock::new();
    C.get_or_init(|| {
        let q = hex("73eda753299d7d483339d80809a1d80553bda402fffe5bfeffffffff00000001");
        let r = hex("0e7db4ea6533afa906673b0101343b00a6682093ccc81082d0970e5ed6f72cb7");
        let f = Zp::new(q.clone());
        let a = f.neg(&BigUint::one());
        // d = -(10240/10241)
        let d = f.neg(&f.mul(&BigUint::from(10240u32), &f.inv(&BigUint::from(10241u32)).unwrap()));
        assert_eq!(d, to_big(&<Jub as EdwardsCurve>::D), "Jubjub d");
        let ed = Edwards { f: f.clone(), a, d: d.clone() };
        let g = JubjubSubgroup::generator();
        let gc = <Jub as CircuitCurve>::coordinates(&g.into()).unwrap();
        let gen = (to_big(&gc.0), to_big(&gc.1));
        assert!(ed.on_curve(&gen) && gen != ed.identity());
        assert_eq!(ed.mul(&gen, &r), ed.identity(), "generator order");
        // a point of full order: smallest y >= 2 with a point whose r-multiple has order 8
        let mut full = None;
        let mut t8 = None;
        for y in 2u32..200 {
            let yb = BigUint::from(y);
            let y2 = f.mul(&yb, &yb);
            let num = f.sub(&y2, &BigUint::one());
            let den = f.add(&BigUint::one(), &f.mul(&d, &y2));
            let Some(di) = f.inv(&den) else { continue };
            let x2 = f.mul(&num, &di);
            let x2f: F = big_to_f(&x2);
            let s: Option<F> = Option::from(x2f.sqrt());
            let Some(s) = s else { continue };
            let p = (f_to_big(&s), yb.clone());
            if !ed.on_curve(&p) {
                continue;
            }
            let t = ed.mul(&p, &r);
            let t4 = ed.mul(&t, &BigUint::from(4u32));
            if t4 != ed.identity() {
                full = Some(p);
                t8 = Some(t);
                break;
            }
        }
        let (full, t8) = (full.expect("full-order point"), t8.unwrap());
        let mut torsion = vec![ed.identity()];
        for k in 1..8 {
            let prev: &EPoint = &torsion[k - 1];
            torsion.push(ed.add(prev, &t8));
        }
        assert_eq!(ed.add(&torsion[7], &t8), ed.identity());
        JubCtx { ed, q, r, gen, torsion, full }
    })
}

impl JubCtx {
    pub fn in_subgroup(&self, p: &EPoint) -> bool {
        self.ed.on_curve(p) && self.ed.mul(p, &self.r) == self.ed.identity()
    }
    pub fn rand_point(&self, rng: &mut SplitMix) -> EPoint {
        let k = BigUint::from_bytes_le(&rng.bytes(32)) % &self.r;
        self.ed.mul(&self.gen, &k)
    }
}

#[derive(Clone, Copy, Debug, PartialEq, Eq, Hash, Serialize, Deserialize)]
pub enum Curve {
    Secp,
    Bls,
}

pub struct WCtx {
    pub curve: Curve,
    pub name: &'static str,
    pub w: Weierstrass,
    /// base field modulus
    pub m: BigUint,
    /// order of the prime-order (sub)group = modulus of the scalar field
    pub n: BigUint,
    pub g: WPoint,
    /// cofactor (1 for secp256k1)
    pub h: BigUint,
    /// limb parameters of the emulated base field
    pub lb: u32,
    pub nl: usize,
    pub msl: u32,
    /// number of public inputs of an assigned scalar
    pub ns: usize,
}

pub fn secp() -> &'static WCtx {
    static C: OnceLock<WCtx> = OnceLock::new();
    C.get_or_init(|| {
        let m = hex("fffffffffffffffffffffffffffffffffffffffffffffffffffffffefffffc2f");
        let n = hex("fffffffffffffffffffffffffffffffebaaedce6af48a03bbfd25e8cd0364141");
        let w = Weierstrass { f: Zp::new(m.clone()), a: BigUint::zero(), b: BigUint::from(7u32) };
        let g = Some((
            hex("79be667ef9dcbbac55a06295ce870b07029bfcdb2dce28d959f2815b16f81798"),
            hex("483ada7726a3c4655da4fbfc0e1108a8fd17b448a68554199c47d08ffb10d4b8"),
        ));
        assert!(w.on_curve(&g));
        assert_eq!(w.mul(&g, &n), None);
        let gl = <K256 as CircuitCurve>::coordinates(&K256::generator()).unwrap();
        assert_eq!(g, Some((to_big(&gl.0), to_big(&gl.1))), "secp256k1 generator");
        WCtx { curve: Curve::Secp, name: "secp256k1", w, m, n, g, h: BigUint::one(), lb: 64, nl: 4, msl: 64, ns: 4 }
    })
}

pub fn bls() -> &'static WCtx {
    static C: OnceLock<WCtx> = OnceLock::new();
    C.get_or_init(|| {
        let m = hex("1a0111ea397fe69a4b1ba7b6434bacd764774b84f38512bf6730d2a0f6b0f6241eabfffeb153ffffb9feffffffffaaab");
        let n = hex("73eda753299d7d483339d80809a1d80553bda402fffe5bfeffffffff00000001");
        let h = hex("396c8c005555e1568c00aaab0000aaab");
        let w = Weierstrass { f: Zp::new(m.clone()), a: BigUint::zero(), b: BigUint::from(4u32) };
        let g = Some((
            hex("17f1d3a73197d7942695638c4fa9ac0fc3688c4f9774b905a14e3a3f171bac586c55e83ff97a1aeffb3af00adb22c6bb"),
            hex("08b3f481e3aaa0f1a09e30ed741d8ae4fcf5e095d5d00af600db18cb2c04b3edd03cc744a2888ae40caa232946c5e7e1"),
        ));
        assert!(w.on_curve(&g));
        assert_eq!(w.mul(&g, &n), None);
        let gl = <G1Projective as CircuitCurve>::coordinates(&G1Projective::generator()).unwrap();
        assert_eq!(g, Some((to_big(&gl.0), to_big(&gl.1))), "BLS12-381 G1 generator");
        WCtx { curve: Curve::Bls, name: "bls12_381", w, m, n, g, h, lb: 56, nl: 7, msl: 45, ns: 1 }
    })
}

pub fn wctx(c: Curve) -> &'static WCtx {
    match c {
        Curve::Secp => secp(),
        Curve::Bls => bls(),
    }
}

impl WCtx {
    pub fn rand_point(&self, rng: &mut SplitMix) -> WPoint {
        let k = BigUint::from_bytes_le(&rng.bytes(40)) % &self.n;
        self.w.mul(&self.g, &k)
    }
    /// A point of the curve outside the prime-order subgroup (BLS only): the
    /// order-3 point (0, 2) plus a subgroup point.
    pub fn order3(&self) -> WPoint {
        let p = Some((BigUint::zero(), BigUint::from(2u32)));
        assert!(self.curve == Curve::Bls && self.w.on_curve(&p));
        p
    }
    pub fn in_subgroup(&self, p: &WPoint) -> bool {
        self.w.on_curve(p) && self.w.mul(p, &self.n).is_none()
    }
}

// ---------------------------------------------------------------------------
// Encodings

/// Honest limbs of an emulated field element: limbs of (v - 1 mod m).
pub fn enc_emul(m: &BigUint, lb: u32, nl: usize, v: &BigUint) -> Vec<F> {
    let mut t = ((v % m) + m - BigUint::one()) % m;
    let base = pow2(lb);
    let mut out = vec![];
    for _ in 0..nl {
        out.push(big_to_f(&(&t % &base)));
        t >>= lb;
    }
    assert!(t.is_zero());
    out
}

/// Decoder of an emulated field element: every limb in its well-formed range
/// (the most significant one below 2^msl), value = 1 + sum limbs, residue mod m.
pub fn dec_emul(m: &BigUint, lb: u32, nl: usize, msl: u32, limbs: &[F]) -> Result<BigUint, &'static str> {
    if limbs.len() != nl {
        return Err("length");
    }
    let mut acc = BigUint::one();
    for (i, l) in limbs.iter().enumerate() {
        let v = f_to_big(l);
        let bound = if i == nl - 1 { msl } else { lb };
        if v.bits() > bound as u64 {
            return Err("limb-out-of-range");
        }
        acc += v << (lb * i as u32);
    }
    Ok(acc % m)
}

impl WCtx {
    pub fn enc_coord(&self, v: &BigUint) -> Vec<F> {
        enc_emul(&self.m, self.lb, self.nl, v)
    }
    pub fn dec_coord(&self, l: &[F]) -> Result<BigUint, &'static str> {
        dec_emul(&self.m, self.lb, self.nl, self.msl, l)
    }
    /// Honest public-input encoding of a point (identity: coordinates (0,0) and
    /// the flag 2^lb added to the first limb).
    pub fn enc_point(&self, p: &WPoint) -> Vec<F> {
        let (x, y) = p.clone().unwrap_or((BigUint::zero(), BigUint::zero()));
        let mut v = self.enc_coord(&x);
        v.extend(self.enc_coord(&y));
        if p.is_none() {
            v[0] += big_to_f(&pow2(self.lb));
        }
        v
    }
    /// Decoder: flag set => identity whatever the coordinates (DESIGN 9.5);
    /// otherwise both coordinates must be well-formed and on the curve.
    pub fn dec_point(&self, v: &[F]) -> Result<WPoint, &'static str> {
        if v.len() != 2 * self.nl {
            return Err("length");
        }
        let l0 = f_to_big(&v[0]);
        let flag = &l0 >> self.lb;
        if flag > BigUint::one() {
            return Err("flag-out-of-range");
        }
        if flag.is_one() {
            return Ok(None);
        }
        let x = self.dec_coord(&v[..self.nl])?;
        let y = self.dec_coord(&v[self.nl..])?;
        let p = Some((x, y));
        if !self.w.on_curve(&p) {
            return Err("off-curve");
        }
        Ok(p)
    }
    pub fn enc_scalar(&self, s: &BigUint) -> Vec<F> {
        match self.curve {
            Curve::Secp => enc_emul(&self.n, 64, 4, s),
            Curve::Bls => vec![big_to_f(&(s % &self.n))],
        }
    }
    pub fn dec_scalar(&self, v: &[F]) -> Result<BigUint, &'static str> {
        match self.curve {
            Curve::Secp => dec_emul(&self.n, 64, 4, 64, v),
            Curve::Bls => Ok(f_to_big(&v[0])),
        }
    }
}

/// Little-endian bit string recomposed in chunks of 254 bits (the way the
/// harness circuits expose bit-vector scalars, and the way
/// `AssignedScalarOfNativeCurve` is exposed by the library).
pub fn enc_bits254(s: &BigUint, nbits: usize) -> Vec<F> {
    let mut out = vec![];
    let mut i = 0;
    while i < nbits {
        let w = (nbits - i).min(254);
        out.push(big_to_f(&((s >> i) & (pow2(w as u32) - BigUint::one()))));
        i += w;
    }
    out
}

pub fn dec_bits254(v: &[F], nbits: usize) -> Option<BigUint> {
    let mut acc = BigUint::zero();
    let mut i = 0;
    for c in v {
        if i >= nbits {
            return None;
        }
        let w = (nbits - i).min(254);
        let x = f_to_big(c);
        if x.bits() > w as u64 {
            return None;
        }
        acc += x << i;
        i += w;
    }
    if i != nbits {
        return None;
    }
    Some(acc)
}

pub fn n_chunks254(nbits: usize) -> usize {
    nbits.div_ceil(254)
}

fn bit_f(b: bool) -> F {
    if b {
        F::ONE
    } else {
        F::ZERO
    }
}

// ---------------------------------------------------------------------------
// memo of model evaluations (judge is called once per S1 position)

#[derive(Clone, Debug, PartialEq, Eq)]
pub enum Ev<T> {
    /// in the domain: expected outputs
    Out(T),
    /// inputs outside the documented domain: nothing may be accepted
    OutOfDomain,
    /// a documented caller-side precondition does not hold: anything goes
    Vacuous,
}

fn memo<T: Clone + Send + 'static>(store: &'static OnceLock<Mutex<HashMap<(String, Vec<BigUint>), Ev<T>>>>, name: String, x: &[BigUint], f: impl FnOnce() -> Ev<T>) -> Ev<T> {
    let m = store.get_or_init(|| Mutex::new(HashMap::new()));
    let key = (name, x.to_vec());
    if let Some(v) = m.lock().unwrap().get(&key) {
        return v.clone();
    }
    let v = f();
    let mut g = m.lock().unwrap();
    if g.len() > 20000 {
        g.clear();
    }
    g.insert(key, v.clone());
    v
}

// ---------------------------------------------------------------------------
// Jubjub ops

#[derive(Clone, Debug, PartialEq, Eq, Hash, Serialize, Deserialize)]
pub enum JubKind {
    /// assign, expose
    Assign,
    /// assign P, assign_fixed C (0: identity, 1: generator, 2: 5*G), expose P, C, P + C
    AssignFixed(u8),
    Add,
    Double,
    Negate,
    /// msm with `n` (point, scalar) pairs, scalars through `assign` (252 bits)
    Msm(usize),
    /// msm_by_bounded_scalars (blanket implementation) with `n` pairs
    MsmBounded(usize),
    /// scalar_from_le_bytes(nbytes) then msm of size 1: integers up to 2^(8 nbytes)
    MulBytes(usize),
    /// scalar through `convert` from a native element (255 canonical bits)
    MulConvert,
    /// mul_by_constant, constant in hex
    MulConst(String),
    FromCoords,
    Coords,
    IsEqual,
    IsZero,
    Select,
    /// ZKIR-style compression into 32 bytes
    Compress,
    /// ZKIR-style decompression from 32 bytes
    Decompress,
    /// hash_to_curve on `n` native inputs
    Htc(usize),
}

#[derive(Clone, Debug)]
pub struct JubOp {
    pub kind: JubKind,
}

fn jub_value(x: &BigUint, y: &BigUint) -> JubjubSubgroup {
    // domain membership is decided by the model before this is called
    JubjubSubgroup::from_raw_unchecked(big_to_f(x), big_to_f(y))
}

fn jub_fixed(c: u8) -> EPoint {
    let j = jub();
    match c {
        0 => j.ed.identity(),
        1 => j.gen.clone(),
        _ => j.ed.mul(&j.gen, &BigUint::from(5u32)),
    }
}

/// ZKIR-style compression of a Jubjub point (repr_J): v little-endian, sign of u in the top bit.
pub fn jub_compress(p: &EPoint) -> Vec<u8> {
    let mut b = p.1.to_bytes_le();
    b.resize(32, 0);
    if p.0.bit(0) {
        b[31] |= 0x80;
    }
    b
}

/// Model decompression: the unique curve point whose compression is `b`, if any.
pub fn jub_decompress(b: &[u8]) -> Option<EPoint> {
    let j = jub();
    let f = &j.ed.f;
    let sign = b[31] & 0x80 != 0;
    let mut yb = b.to_vec();
    yb[31] &= 0x7f;
    let y = BigUint::from_bytes_le(&yb);
    if y >= j.q {
        return None;
    }
    let y2 = f.mul(&y, &y);
    let num = f.sub(&y2, &BigUint::one());
    let den = f.add(&BigUint::one(), &f.mul(&j.ed.d, &y2));
    let x2 = f.mul(&num, &f.inv(&den)?);
    // square root found with the library's field, verified with the model
    let s: Option<F> = Option::from(big_to_f(&x2).sqrt());
    let s = f_to_big(&s?);
    if f.mul(&s, &s) != x2 {
        return None;
    }
    let x = if s.bit(0) == sign { s } else { f.neg(&s) };
    if x.bit(0) != sign {
        return None; // x = 0 with the sign bit set
    }
    let p = (x, y);
    j.ed.on_curve(&p).then_some(p)
}

type Htc = HashToCurveGadget<F, Jub, AssignedNative<F>, PoseidonChip<F>, EccChip<Jub>>;

impl JubKind {
    pub fn label(&self) -> String {
        match self {
            JubKind::Assign => "assign".into(),
            JubKind::AssignFixed(c) => format!("assign_fixed(c={c})"),
            JubKind::Add => "add".into(),
            JubKind::Double => "double".into(),
            JubKind::Negate => "negate".into(),
            JubKind::Msm(n) => format!("msm({n})"),
            JubKind::MsmBounded(n) => format!("msm_by_bounded_scalars({n})"),
            JubKind::MulBytes(n) => format!("mul_le_bytes({n})"),
            JubKind::MulConvert => "mul_convert_native".into(),
            JubKind::MulConst(c) => format!("mul_by_constant({c})"),
            JubKind::FromCoords => "point_from_coordinates".into(),
            JubKind::Coords => "coordinates".into(),
            JubKind::IsEqual => "is_equal".into(),
            JubKind::IsZero => "is_zero".into(),
            JubKind::Select => "select".into(),
            JubKind::Compress => "compress".into(),
            JubKind::Decompress => "decompress".into(),
            JubKind::Htc(n) => format!("hash_to_curve({n})"),
        }
    }
    /// (number of points, number of other scalars) of the input vector
    pub fn shape(&self) -> (usize, usize) {
        match self {
            JubKind::Assign | JubKind::AssignFixed(_) | JubKind::Double | JubKind::Negate | JubKind::Coords | JubKind::IsZero | JubKind::Compress | JubKind::MulConst(_) => (1, 0),
            JubKind::Add | JubKind::IsEqual => (2, 0),
            JubKind::Select => (2, 1),
            JubKind::Msm(n) | JubKind::MsmBounded(n) => (*n, *n),
            JubKind::MulBytes(_) | JubKind::MulConvert => (1, 1),
            JubKind::FromCoords => (0, 2),
            JubKind::Decompress => (0, 32),
            JubKind::Htc(n) => (0, *n),
        }
    }
    /// bit length of the i-th scalar of the input vector as exposed
    fn scalar_bits(&self) -> usize {
        match self {
            JubKind::Msm(_) | JubKind::MsmBounded(_) => 252,
            JubKind::MulBytes(n) => 8 * n,
            _ => 0,
        }
    }
}

/// Expected outputs of a Jubjub op (already encoded: Jubjub encodings are unique).
fn jub_eval(kind: &JubKind, x: &[BigUint]) -> Ev<Vec<F>> {
    static STORE: OnceLock<Mutex<HashMap<(String, Vec<BigUint>), Ev<Vec<F>>>>> = OnceLock::new();
    memo(&STORE, kind.label(), x, || jub_eval_inner(kind, x))
}

fn enc_ep(p: &EPoint) -> Vec<F> {
    vec![big_to_f(&p.0), big_to_f(&p.1)]
}

fn jub_eval_inner(kind: &JubKind, x: &[BigUint]) -> Ev<Vec<F>> {
    let j = jub();
    let (np, ns) = kind.shape();
    if x.len() != 2 * np + ns {
        return Ev::OutOfDomain;
    }
    let mut pts = vec![];
    for i in 0..np {
        if x[2 * i] >= j.q || x[2 * i + 1] >= j.q {
            return Ev::OutOfDomain;
        }
        let p = (x[2 * i].clone(), x[2 * i + 1].clone());
        // the type promises the prime-order subgroup
        if !j.in_subgroup(&p) {
            return Ev::OutOfDomain;
        }
        pts.push(p);
    }
    let ks = &x[2 * np..];
    let ed = &j.ed;
    let out = match kind {
        JubKind::Assign => vec![],
        JubKind::AssignFixed(c) => {
            let cp = jub_fixed(*c);
            let mut o = enc_ep(&cp);
            o.extend(enc_ep(&ed.add(&pts[0], &cp)));
            o
        }
        JubKind::Add => enc_ep(&ed.add(&pts[0], &pts[1])),
        JubKind::Double => enc_ep(&ed.add(&pts[0], &pts[0])),
        JubKind::Negate => enc_ep(&ed.neg(&pts[0])),
        JubKind::Msm(_) | JubKind::MsmBounded(_) | JubKind::MulBytes(_) | JubKind::MulConvert => {
            let bits = match kind {
                JubKind::MulConvert => 0,
                k => k.scalar_bits(),
            };
            let mut acc = ed.identity();
            for (p, k) in pts.iter().zip(ks.iter()) {
                if bits > 0 && k.bits() > bits as u64 {
                    return Ev::OutOfDomain;
                }
                if bits == 0 && *k >= j.q {
                    return Ev::OutOfDomain;
                }
                acc = ed.add(&acc, &ed.mul(p, k));
            }
            enc_ep(&acc)
        }
        JubKind::MulConst(c) => enc_ep(&ed.mul(&pts[0], &(hex(c) % &j.r))),
        JubKind::FromCoords => {
            if ks[0] >= j.q || ks[1] >= j.q {
                return Ev::OutOfDomain;
            }
            let p = (ks[0].clone(), ks[1].clone());
            // "asserting that they satisfy the curve equation ... guaranteed to
            // be in the prime order subgroup"
            if !j.in_subgroup(&p) {
                return Ev::OutOfDomain;
            }
            enc_ep(&p)
        }
        JubKind::Coords => enc_ep(&pts[0]),
        JubKind::IsEqual => vec![bit_f(pts[0] == pts[1])],
        JubKind::IsZero => vec![bit_f(pts[0] == ed.identity())],
        JubKind::Select => {
            if ks[0] > BigUint::one() {
                return Ev::OutOfDomain;
            }
            enc_ep(if ks[0].is_one() { &pts[0] } else { &pts[1] })
        }
        JubKind::Compress => jub_compress(&pts[0]).iter().map(|b| F::from(*b as u64)).collect(),
        JubKind::Decompress => {
            if ks.iter().any(|b| b.bits() > 8) {
                return Ev::OutOfDomain;
            }
            let bytes: Vec<u8> = ks.iter().map(|b| b.to_bytes_le()[0]).collect();
            match jub_decompress(&bytes) {
                Some(p) if j.in_subgroup(&p) => enc_ep(&p),
                _ => return Ev::OutOfDomain,
            }
        }
        JubKind::Htc(_) => {
            if ks.iter().any(|k| *k >= j.q) {
                return Ev::OutOfDomain;
            }
            // documented oracle: the off-circuit CPU implementation; the model
            // adds "on the curve and in the prime-order subgroup".
            let ins: Vec<F> = ks.iter().map(big_to_f).collect();
            let p = <Htc as HashToCurveCPU<Jub, F>>::hash_to_curve(&ins);
            let c = <Jub as CircuitCurve>::coordinates(&p.into()).unwrap();
            let mp = (f_to_big(&c.0), f_to_big(&c.1));
            if !j.in_subgroup(&mp) {
                // reported through an impossible expected output
                return Ev::Out(vec![F::ZERO, F::ZERO, F::ONE]);
            }
            enc_ep(&mp)
        }
    };
    Ev::Out(out)
}

impl JubOp {
    pub fn new(kind: JubKind) -> Self {
        JubOp { kind }
    }
    fn enc_inputs(&self, x: &[BigUint]) -> Vec<F> {
        let (np, _) = self.kind.shape();
        let mut v: Vec<F> = x[..2 * np].iter().map(big_to_f).collect();
        let bits = self.kind.scalar_bits();
        for k in &x[2 * np..] {
            if bits > 0 {
                v.extend(enc_bits254(k, bits));
            } else {
                v.push(big_to_f(k));
            }
        }
        v
    }
}

fn bytes_of(v: &BigUint, n: usize) -> Vec<u8> {
    let mut b = v.to_bytes_le();
    b.resize(n, 0);
    b
}

fn jub_compress_incircuit<L: Layouter<F>>(std: &ZkStdLib, l: &mut L, p: &JPoint) -> Result<Vec<AssignedByte<F>>, Error> {
    // same steps as zkir::into_bytes_incircuit for JubjubPoint
    let jubc = std.jubjub();
    let u = jubc.x_coordinate(p);
    let v = jubc.y_coordinate(p);
    let mut bytes = std.assigned_to_le_bytes(l, &v, Some(32))?;
    let u0: AssignedNative<F> = std.sgn0(l, &u)?.into();
    let byte_31: AssignedNative<F> = bytes[31].clone().into();
    let updated = std.linear_combination(l, &[(F::ONE, byte_31), (F::from(128), u0)], F::ZERO)?;
    bytes[31] = std.convert(l, &updated)?;
    Ok(bytes)
}

impl Op for JubOp {
    fn name(&self) -> String {
        format!("jubjub.{}", self.kind.label())
    }
    fn arch(&self) -> ZkStdLibArch {
        ZkStdLibArch { jubjub: true, poseidon: matches!(self.kind, JubKind::Htc(_)), ..ZkStdLibArch::default() }
    }
    fn circuit<L: Layouter<F>>(&self, std: &ZkStdLib, l: &mut L, x: Value<Vec<BigUint>>) -> Result<(), Error> {
        let jubc = std.jubjub();
        let (np, ns) = self.kind.shape();
        // points first: assign + expose
        let mut ps: Vec<JPoint> = vec![];
        for i in 0..np {
            let v = x.clone().map(|v| jub_value(&v[2 * i], &v[2 * i + 1]));
            let p: JPoint = jubc.assign(l, v)?;
            jubc.constrain_as_public_input(l, &p)?;
            ps.push(p);
        }
        let kv = |i: usize| x.clone().map(move |v| v[2 * np + i].clone());
        let expose = |l: &mut L, p: &JPoint| jubc.constrain_as_public_input(l, p);
        match &self.kind {
            JubKind::Assign => Ok(()),
            JubKind::AssignFixed(c) => {
                let cp = jub_fixed(*c);
                let cpt: JPoint = jubc.assign_fixed(l, jub_value(&cp.0, &cp.1))?;
                expose(l, &cpt)?;
                let r = jubc.add(l, &ps[0], &cpt)?;
                expose(l, &r)
            }
            JubKind::Add => {
                let r = jubc.add(l, &ps[0], &ps[1])?;
                expose(l, &r)
            }
            JubKind::Double => {
                let r = jubc.double(l, &ps[0])?;
                expose(l, &r)
            }
            JubKind::Negate => {
                let r = jubc.negate(l, &ps[0])?;
                expose(l, &r)
            }
            JubKind::Msm(n) | JubKind::MsmBounded(n) => {
                let mut ss: Vec<JScalar> = vec![];
                for i in 0..*n {
                    let s: JScalar = jubc.assign(l, kv(i).map(|k| from_big::<JubFr>(&k)))?;
                    jubc.constrain_as_public_input(l, &s)?;
                    ss.push(s);
                }
                let r = if matches!(self.kind, JubKind::Msm(_)) {
                    jubc.msm(l, &ss, &ps)?
                } else {
                    let bounded: Vec<(JScalar, usize)> = ss.into_iter().map(|s| (s, 252)).collect();
                    jubc.msm_by_bounded_scalars(l, &bounded, &ps)?
                };
                expose(l, &r)
            }
            JubKind::MulBytes(nb) => {
                let vals: Vec<Value<u8>> = (0..*nb).map(|i| kv(0).map(move |k| bytes_of(&k, i + 1)[i])).collect();
                let bytes: Vec<AssignedByte<F>> = std.assign_many(l, &vals)?;
                let s = jubc.scalar_from_le_bytes(l, &bytes)?;
                jubc.constrain_as_public_input(l, &s)?;
                let r = jubc.msm(l, &[s], &ps)?;
                expose(l, &r)
            }
            JubKind::MulConvert => {
                let nat: AssignedNative<F> = std.assign(l, kv(0).map(|k| big_to_f(&k)))?;
                std.constrain_as_public_input(l, &nat)?;
                let s: JScalar = jubc.convert(l, &nat)?;
                let r = jubc.msm(l, &[s], &ps)?;
                expose(l, &r)
            }
            JubKind::MulConst(c) => {
                let r = jubc.mul_by_constant(l, from_big::<JubFr>(&hex(c)), &ps[0])?;
                expose(l, &r)
            }
            JubKind::FromCoords => {
                let cx: AssignedNative<F> = std.assign(l, kv(0).map(|k| big_to_f(&k)))?;
                let cy: AssignedNative<F> = std.assign(l, kv(1).map(|k| big_to_f(&k)))?;
                std.constrain_as_public_input(l, &cx)?;
                std.constrain_as_public_input(l, &cy)?;
                let p = jubc.point_from_coordinates(l, &cx, &cy)?;
                expose(l, &p)
            }
            JubKind::Coords => {
                let cx = jubc.x_coordinate(&ps[0]);
                let cy = jubc.y_coordinate(&ps[0]);
                std.constrain_as_public_input(l, &cx)?;
                std.constrain_as_public_input(l, &cy)
            }
            JubKind::IsEqual => {
                let b = jubc.is_equal(l, &ps[0], &ps[1])?;
                std.constrain_as_public_input(l, &b)
            }
            JubKind::IsZero => {
                let b = jubc.is_zero(l, &ps[0])?;
                std.constrain_as_public_input(l, &b)
            }
            JubKind::Select => {
                let c: AssignedBit<F> = std.assign(l, kv(0).map(|k| k.is_one()))?;
                std.constrain_as_public_input(l, &c)?;
                let r = jubc.select(l, &c, &ps[0], &ps[1])?;
                expose(l, &r)
            }
            JubKind::Compress => {
                let bytes = jub_compress_incircuit(std, l, &ps[0])?;
                for b in &bytes {
                    std.constrain_as_public_input(l, b)?;
                }
                Ok(())
            }
            JubKind::Decompress => {
                let vals: Vec<Value<u8>> = (0..ns).map(|i| kv(i).map(|k| bytes_of(&k, 1)[0])).collect();
                let bytes: Vec<AssignedByte<F>> = std.assign_many(l, &vals)?;
                for b in &bytes {
                    std.constrain_as_public_input(l, b)?;
                }
                // as zkir::from_bytes_incircuit: witness the decoded point (library
                // decoder), compress it in-circuit, compare the bytes
                let pv = x.clone().map(|v| {
                    let mut b = [0u8; 32];
                    for (i, k) in v.iter().enumerate().take(32) {
                        b[i] = bytes_of(k, 1)[0];
                    }
                    Option::<JubjubSubgroup>::from(JubjubSubgroup::from_bytes(&b)).unwrap_or_else(JubjubSubgroup::identity)
                });
                let p: JPoint = jubc.assign(l, pv)?;
                let cb = jub_compress_incircuit(std, l, &p)?;
                for (a, b) in cb.iter().zip(bytes.iter()) {
                    std.assert_equal(l, a, b)?;
                }
                expose(l, &p)
            }
            JubKind::Htc(n) => {
                let mut ins = vec![];
                for i in 0..*n {
                    let a: AssignedNative<F> = std.assign(l, kv(i).map(|k| big_to_f(&k)))?;
                    std.constrain_as_public_input(l, &a)?;
                    ins.push(a);
                }
                let r = std.hash_to_curve(l, &ins)?;
                expose(l, &r)
            }
        }
    }
    fn reference(&self, x: &[BigUint]) -> Option<Vec<F>> {
        match jub_eval(&self.kind, x) {
            Ev::Out(o) => {
                let mut v = self.enc_inputs(x);
                v.extend(o);
                Some(v)
            }
            _ => None,
        }
    }
    fn n_input_scalars(&self) -> usize {
        let (np, ns) = self.kind.shape();
        let bits = self.kind.scalar_bits();
        2 * np + ns * if bits > 0 { n_chunks254(bits) } else { 1 }
    }
    fn decode_inputs(&self, public: &[F]) -> Option<Vec<BigUint>> {
        let (np, ns) = self.kind.shape();
        if public.len() < self.n_input_scalars() {
            return None;
        }
        let mut x: Vec<BigUint> = public[..2 * np].iter().map(f_to_big).collect();
        let bits = self.kind.scalar_bits();
        let w = if bits > 0 { n_chunks254(bits) } else { 1 };
        for i in 0..ns {
            let c = &public[2 * np + i * w..2 * np + (i + 1) * w];
            if bits > 0 {
                x.push(dec_bits254(c, bits)?);
            } else {
                x.push(f_to_big(&c[0]));
            }
        }
        Some(x)
    }
    fn classify(&self, public: &[F]) -> Option<String> {
        let j = jub();
        let n = public.len();
        if n >= 2 && !matches!(self.kind, JubKind::IsEqual | JubKind::IsZero | JubKind::Compress | JubKind::Coords) {
            let p = (f_to_big(&public[n - 2]), f_to_big(&public[n - 1]));
            if !j.ed.on_curve(&p) {
                return Some("exposed-point-off-curve".into());
            }
            if !j.in_subgroup(&p) {
                return Some("exposed-point-outside-subgroup".into());
            }
        }
        Some("wrong-result".into())
    }
}

// ---------------------------------------------------------------------------
// Foreign ops (secp256k1, BLS12-381 G1)

#[derive(Clone, Debug, PartialEq, Eq, Hash, Serialize, Deserialize)]
pub enum ForKind {
    Assign,
    /// assign P, assign_fixed C (0: identity, 1: generator, 2: 5*G), expose P, C, P + C
    AssignFixed(u8),
    Add,
    Double,
    Negate,
    /// `msm` with n pairs, scalars assigned through the scalar chip
    Msm(usize),
    /// `msm_by_bounded_scalars` with n pairs, scalars below 2^bits
    MsmBounded(usize, usize),
    /// `msm_by_bounded_scalars` where ONE assigned base is used in every term (the chip merges
    /// such terms by adding their scalars); term i has its own bit bound
    MsmRep(Vec<usize>),
    /// msm over the bases [P, negate(P)] (the negation computed in-circuit shares cells with P);
    /// `Some(b)`: msm_by_bounded_scalars with b-bit scalars, `None`: msm with full scalars
    MsmPN(Option<usize>),
    /// `msm_by_le_bits` with n pairs, scalars given as `bits` little-endian bits
    MsmLeBits(usize, usize),
    /// `mul_by_constant`, constant in hex (reduced mod the scalar field)
    MulConst(String),
    FromCoords,
    Coords,
    IsEqual,
    IsZero,
    Select,
    /// BLS only: assert_in_bls12_381_subgroup
    InSubgroup,
}

impl ForKind {
    pub fn label(&self) -> String {
        match self {
            ForKind::Assign => "assign".into(),
            ForKind::AssignFixed(c) => format!("assign_fixed(c={c})"),
            ForKind::Add => "add".into(),
            ForKind::Double => "double".into(),
            ForKind::Negate => "negate".into(),
            ForKind::Msm(n) => format!("msm({n})"),
            ForKind::MsmBounded(n, b) => format!("msm_by_bounded_scalars({n},bits={b})"),
            ForKind::MsmRep(bs) => format!("msm_by_bounded_scalars(one base x{},bits={bs:?})", bs.len()),
            ForKind::MsmPN(b) => format!("msm([P,negate(P)],bits={b:?})"),
            ForKind::MsmLeBits(n, b) => format!("msm_by_le_bits({n},bits={b})"),
            ForKind::MulConst(c) => format!("mul_by_constant({c})"),
            ForKind::FromCoords => "point_from_coordinates".into(),
            ForKind::Coords => "coordinates".into(),
            ForKind::IsEqual => "is_equal".into(),
            ForKind::IsZero => "is_zero".into(),
            ForKind::Select => "select".into(),
            ForKind::InSubgroup => "assert_in_bls12_381_subgroup".into(),
        }
    }
    /// (points, scalars) of the input vector; a point takes 3 entries (x, y, flag)
    pub fn shape(&self) -> (usize, usize) {
        match self {
            ForKind::Assign | ForKind::AssignFixed(_) | ForKind::Double | ForKind::Negate | ForKind::Coords | ForKind::IsZero | ForKind::MulConst(_) | ForKind::InSubgroup => (1, 0),
            ForKind::Add | ForKind::IsEqual => (2, 0),
            ForKind::Select => (2, 1),
            ForKind::Msm(n) | ForKind::MsmBounded(n, _) | ForKind::MsmLeBits(n, _) => (*n, *n),
            ForKind::MsmRep(bs) => (1, bs.len()),
            ForKind::MsmPN(_) => (1, 2),
            ForKind::FromCoords => (0, 2),
        }
    }
    pub fn is_msm(&self) -> bool {
        matches!(self, ForKind::Msm(_) | ForKind::MsmBounded(..) | ForKind::MsmLeBits(..) | ForKind::MsmRep(_) | ForKind::MsmPN(_))
    }
}

#[derive(Clone, Debug)]
pub struct ForOp {
    pub curve: Curve,
    pub kind: ForKind,
}

/// Decoded outputs of a foreign op.
#[derive(Clone, Debug, PartialEq, Eq)]
pub enum FOut {
    None,
    Points(Vec<WPoint>),
    Bit(bool),
    Coords(BigUint, BigUint),
}

fn for_fixed(c: &WCtx, k: u8) -> WPoint {
    match k {
        0 => None,
        1 => c.g.clone(),
        _ => c.w.mul(&c.g, &BigUint::from(5u32)),
    }
}

fn for_eval(curve: Curve, kind: &ForKind, x: &[BigUint]) -> Ev<FOut> {
    static STORE: OnceLock<Mutex<HashMap<(String, Vec<BigUint>), Ev<FOut>>>> = OnceLock::new();
    memo(&STORE, format!("{curve:?}.{}", kind.label()), x, || for_eval_inner(curve, kind, x))
}

fn for_eval_inner(curve: Curve, kind: &ForKind, x: &[BigUint]) -> Ev<FOut> {
    let c = wctx(curve);
    let (np, ns) = kind.shape();
    if x.len() != 3 * np + ns {
        return Ev::OutOfDomain;
    }
    let mut pts: Vec<WPoint> = vec![];
    for i in 0..np {
        let p = if !x[3 * i + 2].is_zero() {
            None
        } else {
            if x[3 * i] >= c.m || x[3 * i + 1] >= c.m {
                return Ev::OutOfDomain;
            }
            Some((x[3 * i].clone(), x[3 * i + 1].clone()))
        };
        if !c.w.on_curve(&p) {
            return Ev::OutOfDomain;
        }
        pts.push(p);
    }
    let ks = &x[3 * np..];
    let w = &c.w;
    // scalar multiplication is specified on the prime-order group only (module
    // doc of the foreign chip: no low-order points / large prime order)
    let all_in_subgroup = |pts: &[WPoint]| c.h.is_one() || pts.iter().all(|p| c.in_subgroup(p));
    let out = match kind {
        ForKind::Assign => FOut::None,
        ForKind::AssignFixed(k) => {
            let cp = for_fixed(c, *k);
            FOut::Points(vec![cp.clone(), w.add(&pts[0], &cp)])
        }
        ForKind::Add => FOut::Points(vec![w.add(&pts[0], &pts[1])]),
        ForKind::Double => FOut::Points(vec![w.add(&pts[0], &pts[0])]),
        ForKind::Negate => FOut::Points(vec![w.neg(&pts[0])]),
        ForKind::Msm(_) | ForKind::MsmBounded(..) | ForKind::MsmLeBits(..) => {
            if !all_in_subgroup(&pts) {
                return Ev::Vacuous;
            }
            let mut acc: WPoint = None;
            for (p, k) in pts.iter().zip(ks.iter()) {
                match kind {
                    ForKind::Msm(_) => {
                        if *k >= c.n {
                            return Ev::OutOfDomain;
                        }
                    }
                    ForKind::MsmBounded(_, b) => {
                        if *k >= c.n {
                            return Ev::OutOfDomain;
                        }
                        // "s.0 is a scalar in the range [0, 2^s.1)": caller's responsibility
                        if k.bits() > *b as u64 {
                            return Ev::Vacuous;
                        }
                    }
                    ForKind::MsmLeBits(_, b) => {
                        if k.bits() > *b as u64 {
                            return Ev::OutOfDomain;
                        }
                        // "base_i != identity ... Unsatisfiable Circuit if violated"
                        if p.is_none() {
                            return Ev::OutOfDomain;
                        }
                    }
                    _ => unreachable!(),
                }
                acc = w.add(&acc, &w.mul(p, k));
            }
            FOut::Points(vec![acc])
        }
        ForKind::MsmPN(b) => {
            if !all_in_subgroup(&pts) {
                return Ev::Vacuous;
            }
            for k in ks.iter() {
                if *k >= c.n {
                    return Ev::OutOfDomain;
                }
                if let Some(b) = b {
                    if k.bits() > *b as u64 {
                        return Ev::Vacuous;
                    }
                }
            }
            let acc = w.add(&w.mul(&pts[0], &ks[0]), &w.mul(&w.neg(&pts[0]), &ks[1]));
            FOut::Points(vec![acc])
        }
        ForKind::MsmRep(bs) => {
            if !all_in_subgroup(&pts) {
                return Ev::Vacuous;
            }
            let mut acc: WPoint = None;
            for (k, b) in ks.iter().zip(bs) {
                if *k >= c.n {
                    return Ev::OutOfDomain;
                }
                if k.bits() > *b as u64 {
                    return Ev::Vacuous;
                }
                acc = w.add(&acc, &w.mul(&pts[0], k));
            }
            FOut::Points(vec![acc])
        }
        ForKind::MulConst(k) => {
            if !all_in_subgroup(&pts) {
                return Ev::Vacuous;
            }
            FOut::Points(vec![w.mul(&pts[0], &(hex(k) % &c.n))])
        }
        ForKind::FromCoords => {
            if ks[0] >= c.m || ks[1] >= c.m {
                return Ev::OutOfDomain;
            }
            let p = Some((ks[0].clone(), ks[1].clone()));
            if !w.on_curve(&p) {
                return Ev::OutOfDomain;
            }
            FOut::Points(vec![p])
        }
        ForKind::Coords => {
            // the identity has no affine coordinates; the library exposes its
            // internal (unconstrained) ones: only non-identity points are in the domain
            match &pts[0] {
                None => return Ev::Vacuous,
                Some((a, b)) => FOut::Coords(a.clone(), b.clone()),
            }
        }
        ForKind::IsEqual => FOut::Bit(pts[0] == pts[1]),
        ForKind::IsZero => FOut::Bit(pts[0].is_none()),
        ForKind::Select => {
            if ks[0] > BigUint::one() {
                return Ev::OutOfDomain;
            }
            FOut::Points(vec![if ks[0].is_one() { pts[0].clone() } else { pts[1].clone() }])
        }
        ForKind::InSubgroup => {
            if !c.in_subgroup(&pts[0]) {
                return Ev::OutOfDomain;
            }
            FOut::None
        }
    };
    Ev::Out(out)
}

impl ForOp {
    pub fn new(curve: Curve, kind: ForKind) -> Self {
        ForOp { curve, kind }
    }
    pub fn ctx(&self) -> &'static WCtx {
        wctx(self.curve)
    }
    /// number of public inputs of one scalar input
    fn scalar_width(&self) -> usize {
        let c = self.ctx();
        match &self.kind {
            ForKind::Msm(_) | ForKind::MsmBounded(..) | ForKind::MsmRep(_) | ForKind::MsmPN(_) => c.ns,
            ForKind::MsmLeBits(_, b) => n_chunks254(*b),
            ForKind::FromCoords => c.nl,
            _ => 1,
        }
    }
    fn enc_inputs(&self, x: &[BigUint]) -> Vec<F> {
        let c = self.ctx();
        let (np, _) = self.kind.shape();
        let mut v = vec![];
        for i in 0..np {
            let p = if x[3 * i + 2].is_zero() { Some((x[3 * i].clone(), x[3 * i + 1].clone())) } else { None };
            v.extend(c.enc_point(&p));
        }
        for k in &x[3 * np..] {
            match &self.kind {
                ForKind::Msm(_) | ForKind::MsmBounded(..) | ForKind::MsmRep(_) | ForKind::MsmPN(_) => v.extend(c.enc_scalar(k)),
                ForKind::MsmLeBits(_, b) => v.extend(enc_bits254(k, *b)),
                ForKind::FromCoords => v.extend(c.enc_coord(k)),
                _ => v.push(big_to_f(k)),
            }
        }
        v
    }
    fn enc_out(&self, o: &FOut) -> Vec<F> {
        let c = self.ctx();
        match o {
            FOut::None => vec![],
            FOut::Points(ps) => ps.iter().flat_map(|p| c.enc_point(p)).collect(),
            FOut::Bit(b) => vec![bit_f(*b)],
            FOut::Coords(a, b) => {
                let mut v = c.enc_coord(a);
                v.extend(c.enc_coord(b));
                v
            }
        }
    }
    fn dec_out(&self, like: &FOut, v: &[F]) -> Option<FOut> {
        let c = self.ctx();
        match like {
            FOut::None => v.is_empty().then_some(FOut::None),
            FOut::Points(ps) => {
                if v.len() != ps.len() * 2 * c.nl {
                    return None;
                }
                let mut out = vec![];
                for ch in v.chunks(2 * c.nl) {
                    out.push(c.dec_point(ch).ok()?);
                }
                Some(FOut::Points(out))
            }
            FOut::Bit(_) => {
                if v.len() != 1 || (v[0] != F::ZERO && v[0] != F::ONE) {
                    return None;
                }
                Some(FOut::Bit(v[0] == F::ONE))
            }
            FOut::Coords(..) => {
                if v.len() != 2 * c.nl {
                    return None;
                }
                Some(FOut::Coords(c.dec_coord(&v[..c.nl]).ok()?, c.dec_coord(&v[c.nl..]).ok()?))
            }
        }
    }
}

macro_rules! in_subgroup_dispatch {
    (Bls, $chip:ident, $l:ident, $ps:ident) => {
        $chip.assert_in_bls12_381_subgroup($l, &$ps[0])
    };
    (Secp, $chip:ident, $l:ident, $ps:ident) => {{
        let _ = (&$chip, &$l, &$ps);
        Err(Error::Synthesis("assert_in_bls12_381_subgroup is BLS-only".into()))
    }};
}

macro_rules! foreign_circuit {
    ($fname:ident, $C:ty, $Base:ty, $Scalar:ty, $AS:ty, $chip:ident, $cv:ident,
     assign_scalar = |$std1:ident, $l1:ident, $v1:ident| $assign_scalar:expr,
     expose_scalar = |$std2:ident, $l2:ident, $s2:ident| $expose_scalar:expr) => {
        fn $fname<L: Layouter<F>>(kind: &ForKind, std: &ZkStdLib, l: &mut L, x: Value<Vec<BigUint>>) -> Result<(), Error> {
            type P = AssignedForeignPoint<F, $C, MEP>;
            type Co = AssignedField<F, $Base, MEP>;
            let chip = std.$chip();
            let (np, _) = kind.shape();
            let ctx = wctx(Curve::$cv);
            let pval = |x: &BigUint, y: &BigUint, flag: &BigUint| -> <$C as CircuitCurve>::CryptographicGroup {
                if !flag.is_zero() {
                    <<$C as CircuitCurve>::CryptographicGroup as Group>::identity()
                } else {
                    <$C as CircuitCurve>::from_xy(from_big::<$Base>(x), from_big::<$Base>(y)).expect("model said on curve").into_subgroup()
                }
            };
            let mut ps: Vec<P> = vec![];
            for i in 0..np {
                let v = x.clone().map(|v| pval(&v[3 * i], &v[3 * i + 1], &v[3 * i + 2]));
                let p: P = chip.assign(l, v)?;
                chip.constrain_as_public_input(l, &p)?;
                ps.push(p);
            }
            let kv = |i: usize| x.clone().map(move |v| v[3 * np + i].clone());
            let assign_scalar = |$std1: &ZkStdLib, $l1: &mut L, $v1: Value<$Scalar>| -> Result<$AS, Error> { $assign_scalar };
            let expose_scalar = |$std2: &ZkStdLib, $l2: &mut L, $s2: &$AS| -> Result<(), Error> { $expose_scalar };
            match kind {
                ForKind::Assign => Ok(()),
                ForKind::AssignFixed(k) => {
                    let cp = for_fixed(ctx, *k);
                    let cv = match &cp {
                        None => pval(&BigUint::zero(), &BigUint::zero(), &BigUint::one()),
                        Some((a, b)) => pval(a, b, &BigUint::zero()),
                    };
                    let cpt: P = chip.assign_fixed(l, cv)?;
                    chip.constrain_as_public_input(l, &cpt)?;
                    let r = chip.add(l, &ps[0], &cpt)?;
                    chip.constrain_as_public_input(l, &r)
                }
                ForKind::Add => {
                    let r = chip.add(l, &ps[0], &ps[1])?;
                    chip.constrain_as_public_input(l, &r)
                }
                ForKind::Double => {
                    let r = chip.double(l, &ps[0])?;
                    chip.constrain_as_public_input(l, &r)
                }
                ForKind::Negate => {
                    let r = chip.negate(l, &ps[0])?;
                    chip.constrain_as_public_input(l, &r)
                }
                ForKind::Msm(n) | ForKind::MsmBounded(n, _) => {
                    let mut ss: Vec<$AS> = vec![];
                    for i in 0..*n {
                        let s = assign_scalar(std, l, kv(i).map(|k| from_big::<$Scalar>(&k)))?;
                        expose_scalar(std, l, &s)?;
                        ss.push(s);
                    }
                    let r = match kind {
                        ForKind::MsmBounded(_, b) => {
                            let bounded: Vec<($AS, usize)> = ss.into_iter().map(|s| (s, *b)).collect();
                            chip.msm_by_bounded_scalars(l, &bounded, &ps)?
                        }
                        _ => chip.msm(l, &ss, &ps)?,
                    };
                    chip.constrain_as_public_input(l, &r)
                }
                ForKind::MsmPN(b) => {
                    let mut ss: Vec<$AS> = vec![];
                    for i in 0..2 {
                        let s = assign_scalar(std, l, kv(i).map(|k| from_big::<$Scalar>(&k)))?;
                        expose_scalar(std, l, &s)?;
                        ss.push(s);
                    }
                    let np = chip.negate(l, &ps[0])?;
                    let bases = vec![ps[0].clone(), np];
                    let r = match b {
                        Some(b) => {
                            let bounded: Vec<($AS, usize)> = ss.into_iter().map(|s| (s, *b)).collect();
                            chip.msm_by_bounded_scalars(l, &bounded, &bases)?
                        }
                        None => chip.msm(l, &ss, &bases)?,
                    };
                    chip.constrain_as_public_input(l, &r)
                }
                ForKind::MsmRep(bs) => {
                    let mut bounded: Vec<($AS, usize)> = vec![];
                    for (i, b) in bs.iter().enumerate() {
                        let s = assign_scalar(std, l, kv(i).map(|k| from_big::<$Scalar>(&k)))?;
                        expose_scalar(std, l, &s)?;
                        bounded.push((s, *b));
                    }
                    // the same assigned cells in every term
                    let bases: Vec<P> = bs.iter().map(|_| ps[0].clone()).collect();
                    let r = chip.msm_by_bounded_scalars(l, &bounded, &bases)?;
                    chip.constrain_as_public_input(l, &r)
                }
                ForKind::MsmLeBits(n, nb) => {
                    let mut all: Vec<Vec<AssignedBit<F>>> = vec![];
                    for i in 0..*n {
                        let vals: Vec<Value<bool>> = (0..*nb).map(|j| kv(i).map(move |k| k.bit(j as u64))).collect();
                        let bits: Vec<AssignedBit<F>> = std.assign_many(l, &vals)?;
                        for ch in bits.chunks(254) {
                            let a = std.assigned_from_le_bits(l, ch)?;
                            std.constrain_as_public_input(l, &a)?;
                        }
                        all.push(bits);
                    }
                    let r = chip.msm_by_le_bits(l, &all, &ps)?;
                    chip.constrain_as_public_input(l, &r)
                }
                ForKind::MulConst(k) => {
                    let r = chip.mul_by_constant(l, from_big::<$Scalar>(&hex(k)), &ps[0])?;
                    chip.constrain_as_public_input(l, &r)
                }
                ForKind::FromCoords => {
                    let bf = chip.base_field_chip();
                    let cx: Co = bf.assign(l, kv(0).map(|k| from_big::<$Base>(&k)))?;
                    let cy: Co = bf.assign(l, kv(1).map(|k| from_big::<$Base>(&k)))?;
                    bf.constrain_as_public_input(l, &cx)?;
                    bf.constrain_as_public_input(l, &cy)?;
                    let p = chip.point_from_coordinates(l, &cx, &cy)?;
                    chip.constrain_as_public_input(l, &p)
                }
                ForKind::Coords => {
                    let bf = chip.base_field_chip();
                    let cx = chip.x_coordinate(&ps[0]);
                    let cy = chip.y_coordinate(&ps[0]);
                    bf.constrain_as_public_input(l, &cx)?;
                    bf.constrain_as_public_input(l, &cy)
                }
                ForKind::IsEqual => {
                    let b = chip.is_equal(l, &ps[0], &ps[1])?;
                    std.constrain_as_public_input(l, &b)
                }
                ForKind::IsZero => {
                    let b = chip.is_zero(l, &ps[0])?;
                    std.constrain_as_public_input(l, &b)
                }
                ForKind::Select => {
                    let c: AssignedBit<F> = std.assign(l, kv(0).map(|k| k.is_one()))?;
                    std.constrain_as_public_input(l, &c)?;
                    let r = chip.select(l, &c, &ps[0], &ps[1])?;
                    chip.constrain_as_public_input(l, &r)
                }
                ForKind::InSubgroup => in_subgroup_dispatch!($cv, chip, l, ps),
            }
        }
    };
}

foreign_circuit!(circuit_secp, K256, SecpFp, SecpFq, AssignedField<F, SecpFq, MEP>, secp256k1_curve, Secp,
    assign_scalar = |std, l, v| std.secp256k1_scalar().assign(l, v),
    expose_scalar = |std, l, s| std.secp256k1_scalar().constrain_as_public_input(l, s));

foreign_circuit!(circuit_bls, G1Projective, BlsFp, F, AssignedNative<F>, bls12_381_curve, Bls,
    assign_scalar = |std, l, v| std.assign(l, v),
    expose_scalar = |std, l, s| std.constrain_as_public_input(l, s));

impl Op for ForOp {
    fn name(&self) -> String {
        format!("{}.{}", self.ctx().name, self.kind.label())
    }
    fn arch(&self) -> ZkStdLibArch {
        match self.curve {
            Curve::Secp => ZkStdLibArch { secp256k1: true, ..ZkStdLibArch::default() },
            Curve::Bls => ZkStdLibArch { bls12_381: true, ..ZkStdLibArch::default() },
        }
    }
    fn circuit<L: Layouter<F>>(&self, std: &ZkStdLib, l: &mut L, x: Value<Vec<BigUint>>) -> Result<(), Error> {
        match self.curve {
            Curve::Secp => circuit_secp(&self.kind, std, l, x),
            Curve::Bls => circuit_bls(&self.kind, std, l, x),
        }
    }
    fn reference(&self, x: &[BigUint]) -> Option<Vec<F>> {
        match for_eval(self.curve, &self.kind, x) {
            Ev::Out(o) => {
                let mut v = self.enc_inputs(x);
                v.extend(self.enc_out(&o));
                Some(v)
            }
            _ => None,
        }
    }
    fn n_input_scalars(&self) -> usize {
        let (np, ns) = self.kind.shape();
        np * 2 * self.ctx().nl + ns * self.scalar_width()
    }
    fn decode_inputs(&self, public: &[F]) -> Option<Vec<BigUint>> {
        let c = self.ctx();
        let (np, ns) = self.kind.shape();
        if public.len() < self.n_input_scalars() {
            return None;
        }
        let mut x = vec![];
        let pw = 2 * c.nl;
        for i in 0..np {
            match c.dec_point(&public[i * pw..(i + 1) * pw]).ok()? {
                None => x.extend([BigUint::zero(), BigUint::zero(), BigUint::one()]),
                Some((a, b)) => x.extend([a, b, BigUint::zero()]),
            }
        }
        let w = self.scalar_width();
        for i in 0..ns {
            let ch = &public[np * pw + i * w..np * pw + (i + 1) * w];
            let k = match &self.kind {
                ForKind::Msm(_) | ForKind::MsmBounded(..) | ForKind::MsmRep(_) | ForKind::MsmPN(_) => c.dec_scalar(ch).ok()?,
                ForKind::MsmLeBits(_, b) => dec_bits254(ch, *b)?,
                ForKind::FromCoords => c.dec_coord(ch).ok()?,
                _ => f_to_big(&ch[0]),
            };
            x.push(k);
        }
        Some(x)
    }
    /// Values, not representations: an emulated coordinate may have two
    /// well-formed limb representations, the identity any coordinates.
    fn judge(&self, public: &[F]) -> bool {
        let Some(x) = self.decode_inputs(public) else { return false };
        match for_eval(self.curve, &self.kind, &x) {
            Ev::OutOfDomain => false,
            Ev::Vacuous => true,
            Ev::Out(o) => self.dec_out(&o, &public[self.n_input_scalars()..]).map(|d| d == o).unwrap_or(false),
        }
    }
    fn classify(&self, public: &[F]) -> Option<String> {
        let c = self.ctx();
        let n_in = self.n_input_scalars();
        let (np, _) = self.kind.shape();
        for i in 0..np {
            if let Err(e) = c.dec_point(&public[i * 2 * c.nl..(i + 1) * 2 * c.nl]) {
                return Some(format!("input-point-{e}"));
            }
        }
        if self.decode_inputs(public).is_none() {
            return Some("input-malformed".into());
        }
        let out = &public[n_in..];
        if out.len() >= 2 * c.nl && !matches!(self.kind, ForKind::Coords) {
            if let Err(e) = c.dec_point(&out[out.len() - 2 * c.nl..]) {
                return Some(format!("output-point-{e}"));
            }
        }
        Some("wrong-result".into())
    }
}

// ---------------------------------------------------------------------------
// The constraint system of `assert_in_bls12_381_subgroup` with a prover-chosen
// cofactor root.
//
// `assert_in_bls12_381_subgroup(p)` is: `root := assign(<witness>)`,
// `r := mul_by_constant(COFACTOR, root)`, `assert_equal(p, r)`; the library
// fills `<witness>` with `p * COFACTOR^-1`, a dishonest prover with anything.
// This op issues exactly the same calls with the root value taken from the
// input vector, so an accepted run is an accepting assignment of the
// library's constraint system.

#[derive(Clone, Debug)]
pub struct BlsSubgroupForge;

/// The constant of `assert_in_bls12_381_subgroup` (ecc_chip.rs:2031).
pub fn bls_cofactor_constant() -> F {
    F::from_raw([0x8c00aaab0000aaab, 0x396c8c005555e156, 0, 0])
}

/// A point of exact prime order `d` (d a prime factor of the cofactor) on the
/// BLS12-381 G1 curve, from the model only.
pub fn bls_low_order_point(d: u32) -> WPoint {
    let c = bls();
    let f = &c.w.f;
    let e = (&c.m + 1u32) >> 2; // p = 3 mod 4
    // remove the whole d-part of the group order (the d-Sylow subgroup need not be cyclic)
    let db = BigUint::from(d);
    let mut cof = &c.h * &c.n;
    while (&cof % &db).is_zero() {
        cof /= &db;
    }
    for xi in 1u32..200 {
        let x = BigUint::from(xi);
        let rhs = f.add(&f.mul(&f.mul(&x, &x), &x), &c.w.b);
        let y = f.pow(&rhs, &e);
        if f.mul(&y, &y) != rhs {
            continue;
        }
        let mut q = c.w.mul(&Some((x, y)), &cof);
        if q.is_none() {
            continue;
        }
        // walk down to an element of exact order d
        loop {
            let nq = c.w.mul(&q, &db);
            if nq.is_none() {
                return q;
            }
            q = nq;
        }
    }
    panic!("no point of order {d}")
}

impl Op for BlsSubgroupForge {
    fn name(&self) -> String {
        "bls12_381.assert_in_bls12_381_subgroup[prover-chosen-root]".into()
    }
    fn arch(&self) -> ZkStdLibArch {
        ZkStdLibArch { bls12_381: true, ..ZkStdLibArch::default() }
    }
    /// x = [p.x, p.y, root.x, root.y] (both points different from the identity)
    fn circuit<L: Layouter<F>>(&self, std: &ZkStdLib, l: &mut L, x: Value<Vec<BigUint>>) -> Result<(), Error> {
        type P = AssignedForeignPoint<F, G1Projective, MEP>;
        let chip = std.bls12_381_curve();
        let pv = |i: usize| {
            x.clone().map(move |v| {
                <G1Projective as CircuitCurve>::from_xy(from_big::<BlsFp>(&v[2 * i]), from_big::<BlsFp>(&v[2 * i + 1])).expect("on curve")
            })
        };
        let p: P = chip.assign(l, pv(0))?;
        chip.constrain_as_public_input(l, &p)?;
        // the three calls of assert_in_bls12_381_subgroup
        let root: P = chip.assign(l, pv(1))?;
        let r = chip.mul_by_constant(l, bls_cofactor_constant(), &root)?;
        chip.assert_equal(l, &p, &r)
    }
    fn reference(&self, x: &[BigUint]) -> Option<Vec<F>> {
        Some(bls().enc_point(&Some((x[0].clone(), x[1].clone()))))
    }
    fn n_input_scalars(&self) -> usize {
        2 * bls().nl
    }
    fn judge(&self, public: &[F]) -> bool {
        matches!(bls().dec_point(public), Ok(p) if bls().in_subgroup(&p))
    }
}

// ---------------------------------------------------------------------------
// Engine helpers local to C06 (sampled S1 for expensive ops, plan-driven S2)

/// Completeness + S1 on at most `max_pos` instance positions (at least one
/// output position and one input position when they exist). With
/// `max_pos = usize::MAX` this is `e2::check_complete_and_s1`.
pub fn check_complete_and_s1_sampled<O: Op>(op: &O, x: &[BigUint], seed: u64, max_pos: usize) -> CaseResult {
    let name = op.name();
    let Some(inst) = op.reference(x) else {
        return Ok(Verdict::trivial("out-of-domain-input-skipped"));
    };
    let run = run_given(op, x, &inst);
    if !run.outcome.accepted() {
        return Err(Failure::new(
            format!("{name}:incomplete:{}", run.outcome.label()),
            format!("honest witness for x={x:?} with the reference instance {inst:?} is not accepted: {:?}", run.outcome),
        ));
    }
    if !op.judge(&inst) {
        return Err(Failure::new(format!("harness:{name}:judge-rejects-reference"), format!("x={x:?} inst={inst:?}")));
    }
    let mut rng = SplitMix(seed);
    let n_in = op.n_input_scalars().min(inst.len());
    let mut positions: Vec<usize> = (0..inst.len()).collect();
    if positions.len() > max_pos {
        let mut chosen = vec![];
        if inst.len() > n_in {
            chosen.push(n_in + rng.below((inst.len() - n_in) as u64) as usize);
        }
        if n_in > 0 && max_pos > 1 {
            chosen.push(rng.below(n_in as u64) as usize);
        }
        while chosen.len() < max_pos {
            let p = rng.below(inst.len() as u64) as usize;
            if !chosen.contains(&p) {
                chosen.push(p);
            }
        }
        positions = chosen;
    }
    for pos in positions {
        let variants: Vec<F> = vec![inst[pos] + F::from(1), inst[pos] - F::from(1), F::from(0), F::from(1) - inst[pos], F::from(rng.next_u64())];
        let v = variants[rng.below(variants.len() as u64) as usize];
        if v == inst[pos] {
            continue;
        }
        let mut wrong = inst.clone();
        wrong[pos] = v;
        if op.judge(&wrong) {
            continue;
        }
        let r = run_given(op, x, &wrong);
        if r.outcome.accepted() {
            return Err(Failure::new(
                format!("{name}:unsound:S1:{}", if pos < n_in { "input-position" } else { "output-position" }),
                format!("honest witness for x={x:?} accepted with wrong instance (position {pos}: {:?} instead of {:?})", wrong[pos], inst[pos]),
            ));
        }
    }
    Ok(Verdict::nontrivial("complete+S1").with(name))
}

/// Runs explicit fault plans (built from the honest assignment log) and applies
/// the common oracle. `label` refines the violation signature.
pub fn run_plans<O: Op>(op: &O, x: &[BigUint], label: &str, make: impl FnOnce(&[AssignRecord]) -> Vec<HashMap<usize, Fault<F>>>) -> Result<S2Stats, Failure> {
    let name = op.name();
    let mut stats = S2Stats::default();
    let Some(inst) = op.reference(x) else { return Ok(stats) };
    let honest = run_faulted(op, x, inst.len(), HashMap::new());
    if !honest.outcome.accepted() || honest.public != inst {
        return Err(Failure::new(
            format!("{name}:readback-mismatch"),
            format!("honest run with read-back: outcome {:?}, public {:?} vs reference {:?}", honest.outcome, honest.public, inst),
        ));
    }
    for plan in make(&honest.log) {
        let r = run_faulted(op, x, inst.len(), plan.clone());
        stats.runs += 1;
        match &r.outcome {
            Outcome::Accept => {
                if r.public == inst && !r.log.iter().any(|l| l.faulted) {
                    stats.no_effect += 1;
                } else if op.judge(&r.public) {
                    stats.accepted_correct += 1;
                } else {
                    let cls = op.classify(&r.public).unwrap_or_else(|| "unclassified".into());
                    let mut pl: Vec<_> = plan.iter().map(|(k, v)| format!("{k}:{v:?}")).collect();
                    pl.sort();
                    let sites: Vec<String> = r.log.iter().filter(|l| l.faulted).map(|l| format!("assign#{} col={} row={:?}", l.index, l.column, l.abs_row)).collect();
                    return Err(Failure::new(
                        format!("{name}:unsound:{label}:{cls}"),
                        format!("MockProver accepts a faulted assignment whose public values contradict the reference: inputs x={x:?}; fault plan {pl:?} at {sites:?}; exposed {:?}; honest instance {inst:?}", r.public),
                    ));
                }
            }
            Outcome::Reject(_) => stats.rejected += 1,
            Outcome::SynthErr(_) | Outcome::Panic(_) => stats.aborted += 1,
        }
    }
    Ok(stats)
}

/// Sampled single faults with half of the indices drawn from the first
/// `early` assignments (where the scalar decompositions, GLV hints and
/// selects of a foreign MSM live).
pub fn check_s2_biased<O: Op>(op: &O, x: &[BigUint], seed: u64, n_faults: usize, early: usize) -> Result<S2Stats, Failure> {
    run_plans(op, x, "S2", |log| {
        let n = log.len();
        let mut rng = SplitMix(seed);
        (0..n_faults)
            .map(|k| {
                let i = if k % 2 == 0 { rng.below(early.min(n) as u64) } else { rng.below(n as u64) } as usize;
                HashMap::from([(i, fault_values(&mut rng))])
            })
            .collect()
    })
}

/// Balanced pair faults on the first row of linear-combination regions.
///
/// A range-checked assignment (`assign_less_than_pow2`, used for every limb of
/// an assigned emulated field element) is a "decompose core" region whose
/// first row holds `result` and the least significant sub-limb with
/// coefficient 1: adding the same delta (+-1) to both keeps the row relation
/// and the lookups satisfied, so the assigned limb — and with it the emulated
/// coordinate — moves *coherently* (a single-cell fault there is always
/// rejected by the row relation itself and never reaches the EC constraints).
/// Candidates are all adjacent assignments (offset 0, the columns of the first
/// two assignments of the circuit); `n` of them are sampled, half among the
/// first `early` assignments.
pub fn check_s2_row_pairs<O: Op>(op: &O, x: &[BigUint], seed: u64, n: usize, early: usize, exhaustive: bool) -> Result<S2Stats, Failure> {
    run_plans(op, x, "S2-limb-pair", |log| {
        if log.len() < 2 {
            return vec![];
        }
        let (a, b) = (log[0].column, log[1].column);
        let cand: Vec<usize> = (0..log.len() - 1).filter(|&i| log[i].column == a && log[i].offset == 0 && log[i + 1].column == b && log[i + 1].offset == 0).collect();
        if cand.is_empty() {
            return vec![];
        }
        let mut rng = SplitMix(seed);
        let pair = |i: usize, neg: bool| {
            let d = if neg { -F::ONE } else { F::ONE };
            HashMap::from([(i, Fault::Add(d)), (i + 1, Fault::Add(d))])
        };
        if exhaustive {
            return cand.iter().map(|&i| pair(i, rng.below(2) == 1)).collect();
        }
        let n_early = cand.iter().filter(|&&i| i < early).count().max(1);
        (0..n)
            .map(|k| {
                let i = if k % 2 == 0 { cand[rng.below(n_early as u64) as usize] } else { cand[rng.below(cand.len() as u64) as usize] };
                pair(i, rng.below(2) == 1)
            })
            .collect()
    })
}

/// Fault plans on the GLV hints of a foreign `msm` (full-size scalars):
/// `msm_by_bounded_scalars` first selects (limb by limb: rows of 4 native
/// assignments) a non-identity base and a scalar, then `glv_split` assigns the
/// half-size scalars x1, x2 (native scalar field: one cell each; emulated
/// scalar field: limbs, each a "decompose core" region of 2-assignment rows).
/// The plans move x1 / x2 by +-1 coherently; they must be rejected by the
/// recomposition constraint `scalar = +-x1 + zeta * (+-x2)`. Returns no plan
/// when the log does not have the expected shape.
pub fn glv_hint_plans(log: &[AssignRecord]) -> Vec<HashMap<usize, Fault<F>>> {
    // group into rows
    let mut rows: Vec<(usize, usize)> = vec![]; // (first index, size)
    for (i, l) in log.iter().enumerate() {
        match rows.last_mut() {
            Some((f, n)) if l.abs_row.is_some() && log[*f].abs_row == l.abs_row => {
                *n += 1;
            }
            _ => rows.push((i, 1)),
        }
    }
    // first run of >= 10 rows of exactly 4 assignments
    let mut k = 0;
    let mut after = None;
    while k < rows.len() {
        let mut e = k;
        while e < rows.len() && rows[e].1 == 4 {
            e += 1;
        }
        if e - k >= 10 {
            after = Some(e);
            break;
        }
        k = e.max(k + 1);
    }
    let Some(a) = after else { return vec![] };
    if a + 40 >= rows.len() {
        return vec![];
    }
    let one = F::ONE;
    match rows[a].1 {
        // native scalars: x1, x2 are the next two single-assignment rows
        1 if rows[a + 1].1 == 1 => {
            let (x1, x2) = (rows[a].0, rows[a + 1].0);
            vec![HashMap::from([(x1, Fault::Add(one))]), HashMap::from([(x2, Fault::Add(one))]), HashMap::from([(x1, Fault::Add(-one))]), HashMap::from([(x1, Fault::Add(one)), (x2, Fault::Add(one))])]
        }
        // emulated scalars: first row of the first limb region of x1, and of x2 (4 limbs of 8 rows later)
        2 => {
            let pair = |r: usize, d: F| HashMap::from([(rows[r].0, Fault::Add(d)), (rows[r].0 + 1, Fault::Add(d))]);
            if rows[a + 32].1 != 2 {
                return vec![];
            }
            vec![pair(a, one), pair(a + 32, one), pair(a, -one)]
        }
        _ => vec![],
    }
}

pub fn stats_label(st: &S2Stats) -> String {
    format!("rej{} ok{} abort{} noeff{}", st.rejected.min(1), st.accepted_correct.min(1), st.aborted.min(1), st.no_effect.min(1))
}

// ---------------------------------------------------------------------------
// Adversarial plans on the coordinates of an assigned Jubjub point.
//
// `EccChip::assign(P)` assigns the cofactor root R = P/8 (on-curve gate), then
// returns 8*R. The first two native assignments of a `JubKind::Assign` circuit
// are R.x and R.y.

/// Plans replacing (R.x, R.y) by the given points.
pub fn jub_root_plans(points: &[(BigUint, BigUint)]) -> Vec<HashMap<usize, Fault<F>>> {
    points.iter().map(|(a, b)| HashMap::from([(0usize, Fault::Set(big_to_f(a))), (1usize, Fault::Set(big_to_f(b)))])).collect()
}

/// The cofactor root the honest prover assigns: R with 8R = P, R in the subgroup.
pub fn jub_root(p: &EPoint) -> EPoint {
    let j = jub();
    let inv8 = BigUint::from(8u32).modpow(&(&j.r - 2u32), &j.r);
    j.ed.mul(p, &inv8)
}

/// Edwards addition formulas evaluated on arbitrary (possibly off-curve) pairs;
/// None when a denominator vanishes.
fn ed_formula(p: &EPoint, q: &EPoint) -> Option<EPoint> {
    let j = jub();
    let f = &j.ed.f;
    let x1x2 = f.mul(&p.0, &q.0);
    let y1y2 = f.mul(&p.1, &q.1);
    let dxy = f.mul(&j.ed.d, &f.mul(&x1x2, &y1y2));
    let xn = f.add(&f.mul(&p.0, &q.1), &f.mul(&p.1, &q.0));
    let yn = f.add(&y1y2, &x1x2); // a = -1
    let xd = f.inv(&f.add(&BigUint::one(), &dxy))?;
    let yd = f.inv(&f.sub(&BigUint::one(), &dxy))?;
    Some((f.mul(&xn, &xd), f.mul(&yn, &yd)))
}

/// Is `y` the v-coordinate of some curve point? (The library's witness
/// generation rebuilds points from (sign of u, v) and panics otherwise.)
pub fn jub_valid_v(y: &BigUint) -> bool {
    let j = jub();
    let f = &j.ed.f;
    let y2 = f.mul(y, y);
    let num = f.sub(&y2, &BigUint::one());
    let den = f.add(&BigUint::one(), &f.mul(&j.ed.d, &y2));
    match f.inv(&den) {
        None => false,
        Some(di) => f.is_square(&f.mul(&num, &di)),
    }
}

/// Can the library's witness generation rebuild a curve point from these
/// coordinates without panicking? (`from_xy` decodes (sign of u, v) and
/// panics when v is not the v-coordinate of a curve point or the encoding is
/// refused.) Used only to choose fault values that do not abort synthesis.
pub fn jub_witnessable(p: &EPoint) -> bool {
    jub_valid_v(&p.1) && matches!(vpcore::catch(|| <Jub as CircuitCurve>::from_xy(big_to_f(&p.0), big_to_f(&p.1)).is_some()), Ok(true))
}

/// The accumulators of "multiply by 8" (bits 1,0,0,0) computed with the
/// addition formulas from an arbitrary root: [2R, 4R, 8R] (formula-wise).
pub fn jub_formula_chain(root: &EPoint) -> Option<Vec<EPoint>> {
    let r2 = ed_formula(root, root)?;
    let r4 = ed_formula(&r2, &r2)?;
    let r8 = ed_formula(&r4, &r4)?;
    Some(vec![r2, r4, r8])
}

/// A coherent witness for `assign` with an OFF-curve root `(rx, ry)`: every
/// cell of the "multiply by 8" region is recomputed with the addition formulas
/// (which are rational maps defined off the curve too), so that the only
/// violated constraint is the curve-membership gate of the root. The layout
/// is the one of `EccChip::mul` for the constant scalar 8 (bits 1,0,0,0
/// big-endian); the plan is derived from the honest log (column/offset of each
/// native assignment) and returns None if the log does not have that shape.
pub fn jub_offcurve_plan(log: &[AssignRecord], root: &EPoint) -> Option<HashMap<usize, Fault<F>>> {
    let j = jub();
    let f = &j.ed.f;
    // log[0], log[1]: root x, y (same region, offset 0, different columns)
    if log.len() < 2 || log[0].offset != 0 || log[1].offset != 0 || log[0].column == log[1].column {
        return None;
    }
    let c0 = log[0].column;
    let c1 = log[1].column;
    if c1 != c0 + 1 {
        return None;
    }
    // the mul region starts at the first later assignment into column c0 at offset 0 (copy of id.x)
    let start = (2..log.len()).find(|&i| log[i].column == c0 && log[i].offset == 0 && i + 1 < log.len() && log[i + 1].column == c1 && log[i + 1].offset == 0)?;
    // the 9 Edwards columns are contiguous in the stdlib layout
    let col = |k: usize| c0 + k;
    let mut plan: HashMap<usize, Fault<F>> = HashMap::new();
    plan.insert(0, Fault::Set(big_to_f(&root.0)));
    plan.insert(1, Fault::Set(big_to_f(&root.1)));
    let bits = [true, false, false, false];
    let mut acc = j.ed.identity();
    let mut idx = start + 2;
    let set = |plan: &mut HashMap<usize, Fault<F>>, idx: &mut usize, column: usize, offset: usize, v: &BigUint, optional: bool| -> Option<()> {
        match log.get(*idx) {
            Some(r) if r.column == column && r.offset == offset => {
                plan.insert(*idx, Fault::Set(big_to_f(v)));
                *idx += 1;
                Some(())
            }
            _ if optional => Some(()),
            _ => None,
        }
    };
    for (i, b) in bits.iter().enumerate() {
        // copies: base.x (col 2), base.y (col 3), bit (col 4): set to the consistent values
        set(&mut plan, &mut idx, col(2), i, &root.0, false)?;
        set(&mut plan, &mut idx, col(3), i, &root.1, false)?;
        set(&mut plan, &mut idx, col(4), i, &BigUint::from(*b as u8), true)?;
        let s = if *b { ed_formula(&acc, root)? } else { acc.clone() };
        let prod = f.mul(&f.mul(&acc.0, &acc.1), &f.mul(&root.0, &root.1));
        if i < 3 {
            // add_then_double: xs, ys (cols 5, 6, row i), xr, yr (cols 0, 1, row i+1), xs_xs (col 7), prod (col 8)
            let r = ed_formula(&s, &s)?;
            set(&mut plan, &mut idx, col(5), i, &s.0, false)?;
            set(&mut plan, &mut idx, col(6), i, &s.1, false)?;
            set(&mut plan, &mut idx, col(0), i + 1, &r.0, false)?;
            set(&mut plan, &mut idx, col(1), i + 1, &r.1, false)?;
            set(&mut plan, &mut idx, col(7), i, &f.mul(&s.0, &s.0), false)?;
            set(&mut plan, &mut idx, col(8), i, &prod, false)?;
            acc = r;
        } else {
            // cond_add: xr, yr (cols 5, 6), prod (col 8)
            set(&mut plan, &mut idx, col(5), i, &s.0, false)?;
            set(&mut plan, &mut idx, col(6), i, &s.1, false)?;
            set(&mut plan, &mut idx, col(8), i, &prod, false)?;
            acc = s;
        }
    }
    Some(plan)
}

// ---------------------------------------------------------------------------
// Input generation from operand / scalar classes (shared by the C06 binary
// and by `visit_ops`).
//
// Point classes: 0 random, 1 identity, 2 generator, 3 = point 0 (P=Q),
// 4 = -point 0 (P=-Q), 5 = 2*point 0, 6 BLS order-3 point (0,2),
// 7 BLS generator + (0,2) (on the curve, outside the subgroup),
// 8 = -(fixed constant of AssignFixed).
// Scalar classes: 0 random, 1 zero, 2 one, 3 two, 4 order-1, 5 order,
// 6 order+1, 7 largest value of the input width, 8 small random.

pub fn pc_label(c: u8) -> &'static str {
    match c {
        0 => "random",
        1 => "identity",
        2 => "generator",
        3 => "P=Q",
        4 => "P=-Q",
        5 => "Q=2P",
        6 => "order-3",
        7 => "outside-subgroup",
        8 => "P=-C",
        _ => "?",
    }
}

pub fn kc_label(c: u8) -> &'static str {
    match c {
        0 => "k-random",
        1 => "k=0",
        2 => "k=1",
        3 => "k=2",
        4 => "k=r-1",
        5 => "k=r",
        6 => "k=r+1",
        7 => "k=max",
        8 => "k-small",
        _ => "?",
    }
}

pub fn scalar_of(class: u8, order: &BigUint, width_bits: usize, field_typed: bool, rng: &mut SplitMix) -> BigUint {
    let max = (BigUint::one() << width_bits) - BigUint::one();
    let v = match class {
        0 => BigUint::from_bytes_le(&rng.bytes(48)),
        1 => BigUint::zero(),
        2 => BigUint::one(),
        3 => BigUint::from(2u32),
        4 => order - 1u32,
        5 => order.clone(),
        6 => order + 1u32,
        7 => max.clone(),
        _ => BigUint::from(rng.below(1 << 16)),
    };
    let v = if class == 0 { v % (&max + 1u32) } else { v & &max };
    if field_typed {
        v % order
    } else {
        v
    }
}

/// Input vector of a Jubjub op from operand / scalar classes (see [`pc_label`], [`kc_label`]);
/// returns (x, class labels, nontrivial).
pub fn build_jub(kind: &JubKind, pc: &[u8], kc: &[u8], seed: u64) -> (Vec<BigUint>, Vec<String>, bool) {
    let mut rng = SplitMix(seed);
    let mut labels = vec![];
    let mut nt = false;
    let mut x = vec![];
    let j = jub();
    let (np, ns) = kind.shape();
    let mut pts: Vec<EPoint> = vec![];
    for i in 0..np {
        let cl = pc.get(i).copied().unwrap_or(0);
        let p = match cl {
            1 => j.ed.identity(),
            2 => j.gen.clone(),
            3 if i > 0 => pts[0].clone(),
            4 if i > 0 => j.ed.neg(&pts[0]),
            5 if i > 0 => j.ed.add(&pts[0], &pts[0]),
            8 => match kind {
                JubKind::AssignFixed(k) => j.ed.neg(&match k {
                    0 => j.ed.identity(),
                    1 => j.gen.clone(),
                    _ => j.ed.mul(&j.gen, &BigUint::from(5u32)),
                }),
                _ => j.rand_point(&mut rng),
            },
            _ => j.rand_point(&mut rng),
        };
        if cl != 0 && cl != 2 {
            nt = true;
        }
        labels.push(pc_label(cl).to_string());
        pts.push(p);
    }
    for p in &pts {
        x.push(p.0.clone());
        x.push(p.1.clone());
    }
    match kind {
        JubKind::Msm(n) | JubKind::MsmBounded(n) => {
            for i in 0..*n {
                let cl = kc.get(i).copied().unwrap_or(0);
                x.push(scalar_of(cl, &j.r, 252, true, &mut rng));
                labels.push(kc_label(cl).to_string());
                nt |= cl != 0 && cl != 8;
            }
            nt |= *n >= 2;
        }
        JubKind::MulBytes(nb) => {
            let cl = kc.first().copied().unwrap_or(0);
            x.push(scalar_of(cl, &j.r, 8 * nb, false, &mut rng));
            labels.push(kc_label(cl).to_string());
            nt |= cl != 0 && cl != 8;
        }
        JubKind::MulConvert => {
            let cl = kc.first().copied().unwrap_or(0);
            let v = if cl == 7 { &j.q - 1u32 } else { scalar_of(cl, &j.r, 254, false, &mut rng) % &j.q };
            x.push(v);
            labels.push(kc_label(cl).to_string());
            nt |= cl != 0 && cl != 8;
        }
        JubKind::MulConst(k) => {
            labels.push(format!("const={}", if k.len() > 8 { "big" } else { k }));
            nt |= k.len() <= 2 || k.len() > 60;
        }
        JubKind::Select => {
            let b = kc.first().copied().unwrap_or(0) & 1;
            x.push(BigUint::from(b));
            labels.push(format!("cond={b}"));
            nt = true;
        }
        JubKind::FromCoords => {
            let cl = pc.first().copied().unwrap_or(0);
            let p = match cl {
                1 => j.ed.identity(),
                2 => j.gen.clone(),
                _ => j.rand_point(&mut rng),
            };
            labels.push(pc_label(cl).to_string());
            nt |= cl == 1;
            x.push(p.0);
            x.push(p.1);
        }
        JubKind::Decompress => {
            let cl = pc.first().copied().unwrap_or(0);
            let p = match cl {
                1 => j.ed.identity(),
                2 => j.gen.clone(),
                _ => j.rand_point(&mut rng),
            };
            labels.push(pc_label(cl).to_string());
            nt |= cl == 1;
            x.extend(jub_compress(&p).iter().map(|b| BigUint::from(*b)));
        }
        JubKind::Htc(n) => {
            for i in 0..*n {
                let cl = kc.get(i).copied().unwrap_or(0);
                let v = match cl {
                    1 => BigUint::zero(),
                    2 => BigUint::one(),
                    7 => &j.q - 1u32,
                    _ => BigUint::from_bytes_le(&rng.bytes(40)) % &j.q,
                };
                x.push(v);
                nt |= cl != 0;
            }
            labels.push(format!("inputs={n}"));
            nt |= *n >= 2;
        }
        _ => {}
    }
    let _ = ns;

    (x, labels, nt)
}

/// Input vector of a foreign op from operand / scalar classes.
pub fn build_for(curve: Curve, kind: &ForKind, pc: &[u8], kc: &[u8], seed: u64) -> (Vec<BigUint>, Vec<String>, bool) {
    let mut rng = SplitMix(seed);
    let mut labels = vec![];
    let mut nt = false;
    let mut x = vec![];
    let w = wctx(curve);
    let (np, _) = kind.shape();
    let mut pts: Vec<WPoint> = vec![];
    for i in 0..np {
        let cl = pc.get(i).copied().unwrap_or(0);
        let p: WPoint = match cl {
            1 => None,
            2 => w.g.clone(),
            3 if i > 0 => pts[0].clone(),
            4 if i > 0 => w.w.neg(&pts[0]),
            5 if i > 0 => w.w.add(&pts[0], &pts[0]),
            6 => w.order3(),
            7 => w.w.add(&w.g, &w.order3()),
            8 => match kind {
                ForKind::AssignFixed(k) => w.w.neg(&match k {
                    0 => None,
                    1 => w.g.clone(),
                    _ => w.w.mul(&w.g, &BigUint::from(5u32)),
                }),
                _ => w.rand_point(&mut rng),
            },
            _ => w.rand_point(&mut rng),
        };
        if cl != 0 && cl != 2 {
            nt = true;
        }
        labels.push(pc_label(cl).to_string());
        pts.push(p);
    }
    for p in &pts {
        match p {
            None => x.extend([BigUint::zero(), BigUint::zero(), BigUint::one()]),
            Some((a, b)) => x.extend([a.clone(), b.clone(), BigUint::zero()]),
        }
    }
    match kind {
        ForKind::Msm(n) | ForKind::MsmBounded(n, _) | ForKind::MsmLeBits(n, _) => {
            for i in 0..*n {
                let cl = kc.get(i).copied().unwrap_or(0);
                let k = match kind {
                    ForKind::Msm(_) => scalar_of(cl, &w.n, 256, true, &mut rng),
                    ForKind::MsmBounded(_, b) => scalar_of(cl, &w.n, *b, false, &mut rng) % &w.n,
                    ForKind::MsmLeBits(_, b) => scalar_of(cl, &w.n, *b, false, &mut rng),
                    _ => unreachable!(),
                };
                x.push(k);
                labels.push(kc_label(cl).to_string());
                nt |= cl != 0 && cl != 8;
            }
            nt |= *n >= 2;
        }
        ForKind::MsmPN(b) => {
            for i in 0..2 {
                let cl = kc.get(i).copied().unwrap_or(0);
                let k = match b {
                    Some(b) => scalar_of(cl, &w.n, *b, false, &mut rng) % &w.n,
                    None => scalar_of(cl, &w.n, 256, true, &mut rng),
                };
                x.push(k);
                labels.push(kc_label(cl).to_string());
            }
            nt = true;
        }
        ForKind::MsmRep(bs) => {
            for (i, b) in bs.iter().enumerate() {
                let cl = kc.get(i).copied().unwrap_or(0);
                x.push(scalar_of(cl, &w.n, *b, false, &mut rng) % &w.n);
                labels.push(kc_label(cl).to_string());
            }
            nt = true;
        }
        ForKind::MulConst(k) => {
            labels.push(format!("const={}", if k.len() > 8 { "big" } else { k }));
            nt |= k.len() <= 2 || k.len() > 30;
        }
        ForKind::Select => {
            let b = kc.first().copied().unwrap_or(0) & 1;
            x.push(BigUint::from(b));
            labels.push(format!("cond={b}"));
            nt = true;
        }
        ForKind::FromCoords => {
            let cl = pc.first().copied().unwrap_or(0);
            let p = match cl {
                2 => w.g.clone(),
                6 => w.order3(),
                _ => w.rand_point(&mut rng),
            };
            labels.push(pc_label(cl).to_string());
            nt |= cl == 6;
            let (a, b) = p.unwrap();
            x.push(a);
            x.push(b);
        }
        _ => {}
    }

    (x, labels, nt)
}

// ---------------------------------------------------------------------------
// Catalogue visiting (C08 / C09 reuse)

/// Calls `v.visit(&op, &inputs)` once per op of the ECC catalogue with 3-6
/// in-domain input tuples steering the data-dependent branches differently
/// (identity / non-identity, P=Q, P=-Q, scalars 0 / 1 / r-1 / >= r for bit
/// inputs). `quick`: all Jubjub ops and the foreign ops without scalar
/// multiplication; otherwise also foreign msm / mul_by_constant (including
/// constants in (2^64, 2^128]) / assert_in_bls12_381_subgroup. Left out: the
/// identity base with a foreign constant above 128 bits (known finding D4 of
/// C06: rejected by the library).
pub fn visit_ops<V: OpVisitor>(v: &mut V, quick: bool, seed: u64) {
    let j = jub();
    let mut n = 0u64;
    let mut sd = || {
        n += 1;
        vpcore::derive_seed(&["ops_ecc", "visit"], seed.wrapping_mul(1000003).wrapping_add(n))
    };
    let mut jv = |v: &mut V, kind: JubKind, classes: &[(&[u8], &[u8])]| {
        let inputs: Vec<Vec<BigUint>> = classes.iter().map(|(pc, kc)| build_jub(&kind, pc, kc, sd()).0).collect();
        v.visit(&JubOp::new(kind), &inputs);
    };
    let e: &[u8] = &[];
    jv(v, JubKind::Assign, &[(&[0], e), (&[1], e), (&[2], e)]);
    jv(v, JubKind::AssignFixed(0), &[(&[0], e), (&[1], e), (&[2], e)]);
    jv(v, JubKind::AssignFixed(1), &[(&[0], e), (&[1], e), (&[2], e), (&[8], e)]);
    jv(v, JubKind::Add, &[(&[0, 0], e), (&[0, 1], e), (&[1, 0], e), (&[1, 1], e), (&[0, 3], e), (&[0, 4], e)]);
    jv(v, JubKind::Double, &[(&[0], e), (&[1], e), (&[2], e)]);
    jv(v, JubKind::Negate, &[(&[0], e), (&[1], e), (&[2], e)]);
    jv(v, JubKind::Msm(1), &[(&[0], &[0]), (&[0], &[1]), (&[0], &[2]), (&[0], &[4]), (&[1], &[0])]);
    jv(v, JubKind::Msm(2), &[(&[0, 0], &[0, 0]), (&[0, 3], &[4, 2]), (&[0, 4], &[0, 0]), (&[1, 0], &[1, 4])]);
    jv(v, JubKind::Msm(if quick { 3 } else { 8 }), &[(&[0, 0, 0, 0, 0, 0, 0, 0], &[0, 0, 0, 0, 0, 0, 0, 0]), (&[0, 1, 3, 4, 2, 0, 5, 0], &[0, 4, 1, 2, 3, 0, 8, 4]), (&[1, 1, 1, 1, 1, 1, 1, 1], &[1, 1, 1, 1, 1, 1, 1, 1])]);
    jv(v, JubKind::MsmBounded(2), &[(&[0, 0], &[0, 0]), (&[0, 1], &[4, 1]), (&[0, 4], &[2, 2])]);
    jv(v, JubKind::MulBytes(32), &[(&[0], &[0]), (&[0], &[1]), (&[0], &[5]), (&[0], &[7]), (&[1], &[6])]);
    jv(v, JubKind::MulConvert, &[(&[0], &[0]), (&[0], &[1]), (&[0], &[5]), (&[1], &[7])]);
    jv(v, JubKind::MulConst("0".into()), &[(&[0], e), (&[1], e), (&[2], e)]);
    jv(v, JubKind::MulConst("1".into()), &[(&[0], e), (&[1], e), (&[2], e)]);
    jv(v, JubKind::MulConst("8".into()), &[(&[0], e), (&[1], e), (&[2], e)]);
    jv(v, JubKind::MulConst((&j.r - 1u32).to_str_radix(16)), &[(&[0], e), (&[1], e), (&[2], e)]);
    jv(v, JubKind::FromCoords, &[(&[0], e), (&[1], e), (&[2], e)]);
    jv(v, JubKind::Coords, &[(&[0], e), (&[1], e), (&[2], e)]);
    jv(v, JubKind::IsEqual, &[(&[0, 0], e), (&[0, 3], e), (&[0, 4], e), (&[1, 1], e), (&[1, 0], e)]);
    jv(v, JubKind::IsZero, &[(&[0], e), (&[1], e), (&[2], e)]);
    jv(v, JubKind::Select, &[(&[0, 0], &[0]), (&[0, 0], &[1]), (&[1, 0], &[1]), (&[0, 1], &[0])]);
    jv(v, JubKind::Compress, &[(&[0], e), (&[1], e), (&[2], e), (&[0], e)]);
    jv(v, JubKind::Decompress, &[(&[0], e), (&[1], e), (&[2], e), (&[0], e)]);
    jv(v, JubKind::Htc(1), &[(e, &[0]), (e, &[1]), (e, &[2]), (e, &[7])]);
    jv(v, JubKind::Htc(2), &[(e, &[0, 0]), (e, &[1, 1]), (e, &[7, 0])]);

    for cv in [Curve::Secp, Curve::Bls] {
        let w = wctx(cv);
        let bls = cv == Curve::Bls;
        let mut fv = |v: &mut V, kind: ForKind, classes: &[(&[u8], &[u8])]| {
            let inputs: Vec<Vec<BigUint>> = classes.iter().map(|(pc, kc)| build_for(cv, &kind, pc, kc, sd()).0).collect();
            v.visit(&ForOp::new(cv, kind), &inputs);
        };
        // on BLS the chip works on the whole curve: class 6 / 7 are points outside the prime-order subgroup
        let o: u8 = if bls { 6 } else { 0 };
        let o7: u8 = if bls { 7 } else { 2 };
        fv(v, ForKind::Assign, &[(&[0], e), (&[1], e), (&[2], e), (&[o], e)]);
        fv(v, ForKind::AssignFixed(0), &[(&[0], e), (&[1], e), (&[2], e)]);
        fv(v, ForKind::AssignFixed(1), &[(&[0], e), (&[1], e), (&[2], e), (&[8], e)]);
        fv(v, ForKind::Add, &[(&[0, 0], e), (&[0, 1], e), (&[1, 0], e), (&[1, 1], e), (&[0, 3], e), (&[0, 4], e)]);
        if bls {
            fv(v, ForKind::Add, &[(&[6, 3], e), (&[6, 4], e), (&[7, 0], e), (&[6, 7], e)]);
        }
        fv(v, ForKind::Double, &[(&[0], e), (&[1], e), (&[2], e), (&[o], e), (&[o7], e)]);
        fv(v, ForKind::Negate, &[(&[0], e), (&[1], e), (&[2], e)]);
        fv(v, ForKind::Select, &[(&[0, 0], &[0]), (&[0, 0], &[1]), (&[1, 0], &[1]), (&[0, 1], &[0])]);
        fv(v, ForKind::IsEqual, &[(&[0, 0], e), (&[0, 3], e), (&[0, 4], e), (&[1, 1], e), (&[1, 0], e)]);
        fv(v, ForKind::IsZero, &[(&[0], e), (&[1], e), (&[2], e)]);
        fv(v, ForKind::FromCoords, &[(&[0], e), (&[2], e), (&[0], e)]);
        fv(v, ForKind::Coords, &[(&[0], e), (&[2], e), (&[0], e)]);
        fv(v, ForKind::MulConst("0".into()), &[(&[0], e), (&[1], e), (&[2], e)]);
        fv(v, ForKind::MulConst("1".into()), &[(&[0], e), (&[1], e), (&[2], e)]);
        if !quick {
            fv(v, ForKind::MulConst("b".into()), &[(&[0], e), (&[1], e), (&[2], e)]);
            fv(v, ForKind::MulConst("10000000000000001".into()), &[(&[0], e), (&[1], e), (&[2], e)]);
            fv(v, ForKind::MulConst("ffffffffffffffffffffffffffffffff".into()), &[(&[0], e), (&[1], e), (&[2], e)]);
            if bls {
                fv(v, ForKind::InSubgroup, &[(&[0], e), (&[1], e), (&[2], e)]);
            }
            // (identity base with a constant above 128 bits is rejected: defect D4 of C06)
            fv(v, ForKind::MulConst((&w.n - 1u32).to_str_radix(16)), &[(&[0], e), (&[2], e), (&[0], e)]);
            fv(v, ForKind::Msm(1), &[(&[0], &[0]), (&[0], &[1]), (&[0], &[2]), (&[0], &[4]), (&[1], &[0])]);
            fv(v, ForKind::Msm(2), &[(&[0, 0], &[0, 0]), (&[0, 3], &[4, 2]), (&[0, 4], &[0, 0]), (&[1, 0], &[1, 4])]);
            fv(v, ForKind::MsmBounded(2, 64), &[(&[0, 0], &[0, 0]), (&[0, 1], &[7, 1]), (&[0, 4], &[2, 2])]);
            fv(v, ForKind::MsmRep(vec![7, 7, 7]), &[(&[0], &[7, 7, 7]), (&[0], &[0, 1, 2]), (&[1], &[7, 0, 7])]);
            fv(v, ForKind::MsmPN(Some(64)), &[(&[0], &[7, 0]), (&[0], &[0, 0]), (&[1], &[2, 3])]);
            fv(v, ForKind::MsmLeBits(1, 260), &[(&[0], &[0]), (&[0], &[1]), (&[0], &[5]), (&[0], &[7]), (&[2], &[6])]);
        }
    }
}
