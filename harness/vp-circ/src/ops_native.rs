//! C04 — catalogue of native-field gadget operations as E2 ops (`NOp`), their
//! big-integer reference models, boundary-value input generation and the
//! check wrappers used by `bin/c04.rs`.
//!
//! Every op assigns its inputs through the typed public API (`assign` for
//! natives, bits, bytes), exposes inputs and outputs with
//! `constrain_as_public_input`, and has a num-bigint model `model(x)` that
//! returns `None` when `x` is outside the documented domain of the operation
//! (then no instance may be accepted with these inputs).

use std::collections::HashMap;

use midnight_circuits::{
    field::AssignedBounded,
    hash::poseidon::PoseidonChip,
    instructions::{
        map::{MapCPU, MapInstructions},
        *,
    },
    map::cpu::MapMt,
    types::{AssignedBit, AssignedByte, AssignedNative, AssignedVector, InnerValue, Vectorizable},
};
use midnight_proofs::{
    circuit::{Layouter, Value},
    plonk::Error,
};
use midnight_zk_stdlib::{ZkStdLib, ZkStdLibArch};
use num_bigint::BigUint;
use num_integer::Integer;
use num_traits::{One, ToPrimitive, Zero};
use serde::{Deserialize, Serialize};
use vpcore::{CaseResult, Failure, SplitMix, Verdict};

use crate::e2::*;

// ---------------------------------------------------------------------------
// small helpers

pub fn p() -> BigUint {
    modulus()
}
pub fn big(x: u64) -> BigUint {
    BigUint::from(x)
}
pub fn pow2(k: usize) -> BigUint {
    BigUint::one() << k
}
fn inv_mod(x: &BigUint) -> BigUint {
    x.modpow(&(p() - big(2)), &p())
}
fn sub_mod(a: &BigUint, b: &BigUint) -> BigUint {
    ((a % p()) + p() - (b % p())) % p()
}
/// Readable rendering of constants in op names.
fn bs(x: &BigUint) -> String {
    let pm = p();
    if x.bits() <= 20 {
        return x.to_string();
    }
    for (d, s) in [(0u32, "p"), (1, "p-1"), (2, "p-2")] {
        if x + big(d as u64) == pm {
            return s.into();
        }
    }
    if *x == (&pm - big(1)) / big(2) {
        return "(p-1)/2".into();
    }
    if *x == (&pm + big(1)) / big(2) {
        return "(p+1)/2".into();
    }
    let k = (x.bits() - 1) as usize;
    if *x == pow2(k) {
        return format!("2^{k}");
    }
    if *x == pow2(k) + big(1) {
        return format!("2^{k}+1");
    }
    if x + big(1) == pow2(k + 1) {
        return format!("2^{}-1", k + 1);
    }
    format!("0x{}", x.to_str_radix(16))
}
fn obs(x: &Option<BigUint>) -> String {
    x.as_ref().map(bs).unwrap_or_else(|| "None".into())
}

#[derive(Clone, Copy, Debug, PartialEq, Eq, Hash, Serialize, Deserialize)]
pub enum Ty {
    Nat,
    Bit,
    Byte,
}
impl Ty {
    fn s(&self) -> &'static str {
        match self {
            Ty::Nat => "native",
            Ty::Bit => "bit",
            Ty::Byte => "byte",
        }
    }
    fn bound(&self) -> BigUint {
        match self {
            Ty::Nat => p(),
            Ty::Bit => big(2),
            Ty::Byte => big(256),
        }
    }
}

#[derive(Clone, Debug)]
pub enum V {
    N(AssignedNative<F>),
    B(AssignedBit<F>),
    Y(AssignedByte<F>),
}
impl V {
    fn n(&self) -> &AssignedNative<F> {
        match self {
            V::N(x) => x,
            _ => panic!("harness: expected a native"),
        }
    }
    fn b(&self) -> &AssignedBit<F> {
        match self {
            V::B(x) => x,
            _ => panic!("harness: expected a bit"),
        }
    }
    fn y(&self) -> &AssignedByte<F> {
        match self {
            V::Y(x) => x,
            _ => panic!("harness: expected a byte"),
        }
    }
}

fn to_u8(v: &BigUint) -> u8 {
    (v % big(256)).to_u8().unwrap()
}

fn assign_in<L: Layouter<F>>(std: &ZkStdLib, l: &mut L, ty: Ty, v: Value<BigUint>) -> Result<V, Error> {
    Ok(match ty {
        Ty::Nat => V::N(std.assign(l, v.map(|v| big_to_f(&v)))?),
        Ty::Bit => V::B(std.assign(l, v.map(|v| !v.is_zero()))?),
        Ty::Byte => V::Y(std.assign(l, v.map(|v| to_u8(&v)))?),
    })
}

fn expose<L: Layouter<F>>(std: &ZkStdLib, l: &mut L, v: &V) -> Result<(), Error> {
    match v {
        V::N(x) => std.constrain_as_public_input(l, x),
        V::B(x) => std.constrain_as_public_input(l, x),
        V::Y(x) => std.constrain_as_public_input(l, x),
    }
}

#[derive(Clone, Copy, Debug, PartialEq, Eq)]
pub enum CmpOp {
    Lt,
    Leq,
    Geq,
    Gt,
}
impl CmpOp {
    fn s(&self) -> &'static str {
        match self {
            CmpOp::Lt => "lower_than",
            CmpOp::Leq => "leq",
            CmpOp::Geq => "geq",
            CmpOp::Gt => "greater_than",
        }
    }
    fn eval(&self, x: &BigUint, y: &BigUint) -> bool {
        match self {
            CmpOp::Lt => x < y,
            CmpOp::Leq => x <= y,
            CmpOp::Geq => x >= y,
            CmpOp::Gt => x > y,
        }
    }
}

#[derive(Clone, Copy, Debug, PartialEq, Eq)]
pub enum VecAct {
    Limits,
    Trim(usize),
    /// resize to L
    Resize(usize),
}

/// The operation (with all its circuit-shaping parameters).
#[derive(Clone, Debug)]
pub enum K {
    // arithmetic
    Add,
    Sub,
    Mul(Option<BigUint>),
    Div,
    Neg,
    Inv,
    Inv0,
    AddConst(BigUint),
    AddConsts(Vec<BigUint>),
    MulConst(BigUint),
    Square,
    Pow(u64),
    AddAndMul([BigUint; 5]),
    LinComb(Vec<BigUint>, BigUint),
    // zero / equality
    IsZero,
    IsEq(Ty),
    IsNeq(Ty),
    IsEqFixed(Ty, BigUint),
    IsNeqFixed(Ty, BigUint),
    // assertions
    AssertEq(Ty),
    AssertNeq(Ty),
    AssertEqFixed(Ty, BigUint),
    AssertNeqFixed(Ty, BigUint),
    AssertZero,
    AssertNonZero,
    AssertTrue,
    AssertFalse,
    CondAssertEq(Ty),
    // binary
    And(usize),
    Or(usize),
    Xor(usize),
    Not,
    // bitwise
    Band(usize),
    Bor(usize),
    Bxor(usize),
    Bnot(usize),
    // decomposition
    ToBits { n: Option<usize>, canon: bool, be: bool },
    ToBytes { n: Option<usize>, be: bool },
    ToChunks { c: usize, n: Option<usize> },
    FromBits { n: usize, be: bool },
    FromBytes { n: usize, be: bool },
    Sgn0,
    // canonicity
    IsCanonical(usize),
    BitsLt(usize, BigUint),
    BitsGeq(usize, BigUint),
    // range checks
    AssignLt(BigUint),
    AssertLt(BigUint),
    AssertLt2(BigUint, BigUint),
    // comparisons
    Cmp { op: CmpOp, nx: usize, ny: usize },
    CmpFixed { op: CmpOp, n: usize, c: BigUint },
    StdLowerThan(u32),
    Bounded(usize),
    // control flow
    Select(Ty),
    CondSwap(Ty),
    // division
    DivRem(BigUint, Option<BigUint>),
    Rem(BigUint, Option<BigUint>),
    // conversions
    BitToNat,
    NatToBit,
    ByteToNat,
    NatToByte,
    ByteNatByte,
    /// Two operations on one cell: the first leaves a cached bound on it
    /// (NativeGadget's bound bookkeeping), the second consumes it.
    Chain(Prod, Cons),
    // vectors: inputs are the elements (their number is the length)
    Vector { m: usize, a: usize, byte: bool, filler: Option<u64>, act: VecAct, small: bool },
    // maps: initial entries are op parameters
    MapGet(Vec<(u64, u64)>),
    MapInsertGet(Vec<(u64, u64)>),
}

/// First step of a `Chain`: how the cell gets its cached bound.
#[derive(Clone, Debug)]
pub enum Prod {
    /// byte -> native conversion (bound 256)
    Byte,
    /// bit -> native conversion (bound 2)
    Bit,
    /// assert_lower_than_fixed(x, b)
    AssertLt(BigUint),
    /// bounded_of_element(n, x) (bound 2^n)
    Bounded(usize),
    /// assert_equal(x, native of a byte): the bound travels to x
    EqByte,
}

/// Second step of a `Chain`.
#[derive(Clone, Debug)]
pub enum Cons {
    /// bounded_of_element(n, x) then <cmp>_fixed(c)
    CmpFixed(CmpOp, usize, BigUint),
    AssertLt(BigUint),
    ToByte,
    ToBit,
    Bounded(usize),
}

impl Prod {
    fn s(&self) -> String {
        match self {
            Prod::Byte => "convert<byte,native>".into(),
            Prod::Bit => "convert<bit,native>".into(),
            Prod::AssertLt(b) => format!("assert_lower_than_fixed({})", bs(b)),
            Prod::Bounded(n) => format!("bounded_of_element({n})"),
            Prod::EqByte => "assert_equal(x,convert<byte,native>)".into(),
        }
    }
    /// exclusive bound the first step enforces
    fn bound(&self) -> BigUint {
        match self {
            Prod::Byte | Prod::EqByte => big(256),
            Prod::Bit => big(2),
            Prod::AssertLt(b) => b.clone(),
            Prod::Bounded(n) => pow2(*n),
        }
    }
}

impl Cons {
    fn s(&self) -> String {
        match self {
            Cons::CmpFixed(op, n, c) => format!("{}_fixed(n={n},c={})", op.s(), bs(c)),
            Cons::AssertLt(b) => format!("assert_lower_than_fixed({})", bs(b)),
            Cons::ToByte => "convert<native,byte>".into(),
            Cons::ToBit => "convert<native,bit>".into(),
            Cons::Bounded(n) => format!("bounded_of_element({n})"),
        }
    }
    fn pivot(&self) -> BigUint {
        match self {
            Cons::CmpFixed(_, _, c) | Cons::AssertLt(c) => c.clone(),
            Cons::ToByte => big(256),
            Cons::ToBit => big(2),
            Cons::Bounded(n) => pow2(*n),
        }
    }
}

#[derive(Clone, Debug)]
pub struct NOp {
    pub k: K,
    /// (nr_pow2range_cols, max_bit_len); None = default architecture, 8.
    pub cfg: Option<(u8, u8)>,
    /// operand i is not a witness but the constant cell `assign_fixed(c)` (the chips cache
    /// constant cells and take shortcuts when they recognise them)
    pub fixed: Option<(usize, BigUint)>,
}

impl NOp {
    pub fn new(k: K) -> Self {
        NOp { k, cfg: None, fixed: None }
    }
    pub fn with_cfg(k: K, cols: u8, mbl: u8) -> Self {
        NOp { k, cfg: Some((cols, mbl)), fixed: None }
    }
    pub fn with_fixed(k: K, i: usize, c: BigUint) -> Self {
        NOp { k, cfg: None, fixed: Some((i, c)) }
    }

    fn base_name(&self) -> String {
        let l = |v: &Vec<BigUint>| v.iter().map(bs).collect::<Vec<_>>().join(",");
        match &self.k {
            K::Add => "add".into(),
            K::Sub => "sub".into(),
            K::Mul(c) => format!("mul(c={})", obs(c)),
            K::Div => "div".into(),
            K::Neg => "neg".into(),
            K::Inv => "inv".into(),
            K::Inv0 => "inv0".into(),
            K::AddConst(c) => format!("add_constant({})", bs(c)),
            K::AddConsts(c) => format!("add_constants([{}])", l(c)),
            K::MulConst(c) => format!("mul_by_constant({})", bs(c)),
            K::Square => "square".into(),
            K::Pow(n) => format!("pow({n})"),
            K::AddAndMul(c) => format!("add_and_mul([{}])", l(&c.to_vec())),
            K::LinComb(c, k) => format!("linear_combination([{}],k={})", l(c), bs(k)),
            K::IsZero => "is_zero".into(),
            K::IsEq(t) => format!("is_equal<{}>", t.s()),
            K::IsNeq(t) => format!("is_not_equal<{}>", t.s()),
            K::IsEqFixed(t, c) => format!("is_equal_to_fixed<{}>({})", t.s(), bs(c)),
            K::IsNeqFixed(t, c) => format!("is_not_equal_to_fixed<{}>({})", t.s(), bs(c)),
            K::AssertEq(t) => format!("assert_equal<{}>", t.s()),
            K::AssertNeq(t) => format!("assert_not_equal<{}>", t.s()),
            K::AssertEqFixed(t, c) => format!("assert_equal_to_fixed<{}>({})", t.s(), bs(c)),
            K::AssertNeqFixed(t, c) => format!("assert_not_equal_to_fixed<{}>({})", t.s(), bs(c)),
            K::AssertZero => "assert_zero".into(),
            K::AssertNonZero => "assert_non_zero".into(),
            K::AssertTrue => "assert_true".into(),
            K::AssertFalse => "assert_false".into(),
            K::CondAssertEq(t) => format!("cond_assert_equal<{}>", t.s()),
            K::And(n) => format!("and({n})"),
            K::Or(n) => format!("or({n})"),
            K::Xor(n) => format!("xor({n})"),
            K::Not => "not".into(),
            K::Band(n) => format!("band({n})"),
            K::Bor(n) => format!("bor({n})"),
            K::Bxor(n) => format!("bxor({n})"),
            K::Bnot(n) => format!("bnot({n})"),
            K::ToBits { n, canon, be } => format!("assigned_to_{}_bits(n={:?},canonical={})", if *be { "be" } else { "le" }, n, canon),
            K::ToBytes { n, be } => format!("assigned_to_{}_bytes(n={:?})", if *be { "be" } else { "le" }, n),
            K::ToChunks { c, n } => format!("assigned_to_le_chunks(c={c},n={n:?})"),
            K::FromBits { n, be } => format!("assigned_from_{}_bits({n})", if *be { "be" } else { "le" }),
            K::FromBytes { n, be } => format!("assigned_from_{}_bytes({n})", if *be { "be" } else { "le" }),
            K::Sgn0 => "sgn0".into(),
            K::IsCanonical(n) => format!("is_canonical({n})"),
            K::BitsLt(n, b) => format!("le_bits_lower_than(n={n},bound={})", bs(b)),
            K::BitsGeq(n, b) => format!("le_bits_geq_than(n={n},bound={})", bs(b)),
            K::AssignLt(b) => format!("assign_lower_than_fixed({})", bs(b)),
            K::AssertLt(b) => format!("assert_lower_than_fixed({})", bs(b)),
            K::AssertLt2(a, b) => format!("assert_lower_than_fixed({});assert_lower_than_fixed({})", bs(a), bs(b)),
            K::Cmp { op, nx, ny } => format!("{}(nx={nx},ny={ny})", op.s()),
            K::CmpFixed { op, n, c } => format!("{}_fixed(n={n},c={})", op.s(), bs(c)),
            K::StdLowerThan(n) => format!("ZkStdLib::lower_than(n={n})"),
            K::Bounded(n) => format!("bounded_of_element({n})"),
            K::Select(t) => format!("select<{}>", t.s()),
            K::CondSwap(t) => format!("cond_swap<{}>", t.s()),
            K::DivRem(d, b) => format!("div_rem(d={},bound={})", bs(d), obs(b)),
            K::Rem(d, b) => format!("rem(d={},bound={})", bs(d), obs(b)),
            K::BitToNat => "convert<bit,native>".into(),
            K::NatToBit => "convert<native,bit>".into(),
            K::ByteToNat => "convert<byte,native>".into(),
            K::NatToByte => "convert<native,byte>".into(),
            K::ByteNatByte => "convert<byte,native,byte>".into(),
            K::Chain(a, b) => format!("{};{}", a.s(), b.s()),
            K::Vector { m, a, byte, filler, act, .. } => {
                format!("vector<{},M={m},A={a}>(filler={filler:?}).{act:?}", if *byte { "byte" } else { "native" })
            }
            K::MapGet(e) => format!("map.get(init={e:?})"),
            K::MapInsertGet(e) => format!("map.insert;get(init={e:?})"),
        }
    }

    /// Ops whose circuit does not follow the generic "assign typed inputs,
    /// expose, apply, expose outputs" scheme.
    fn is_raw(&self) -> bool {
        matches!(self.k, K::AssignLt(_) | K::Vector { .. } | K::MapGet(_) | K::MapInsertGet(_))
    }

    fn uses_cmp(&self) -> bool {
        matches!(self.k, K::Cmp { .. } | K::CmpFixed { .. } | K::Bounded(_) | K::Chain(..))
    }

    /// Types of the (exposed) inputs of generic ops.
    pub fn in_tys(&self) -> Vec<Ty> {
        use Ty::*;
        match &self.k {
            K::Add | K::Sub | K::Mul(_) | K::Div => vec![Nat; 2],
            K::Neg | K::Inv | K::Inv0 | K::AddConst(_) | K::MulConst(_) | K::Square | K::Pow(_) => vec![Nat],
            K::AddConsts(c) => vec![Nat; c.len()],
            K::AddAndMul(_) => vec![Nat; 3],
            K::LinComb(c, _) => vec![Nat; c.len()],
            K::IsZero | K::AssertZero | K::AssertNonZero => vec![Nat],
            K::IsEq(t) | K::IsNeq(t) | K::AssertEq(t) | K::AssertNeq(t) => vec![*t; 2],
            K::IsEqFixed(t, _) | K::IsNeqFixed(t, _) | K::AssertEqFixed(t, _) | K::AssertNeqFixed(t, _) => vec![*t],
            K::AssertTrue | K::AssertFalse | K::Not => vec![Bit],
            K::CondAssertEq(t) | K::Select(t) | K::CondSwap(t) => vec![Bit, *t, *t],
            K::And(n) | K::Or(n) | K::Xor(n) => vec![Bit; *n],
            K::Band(_) | K::Bor(_) | K::Bxor(_) => vec![Nat; 2],
            K::Bnot(_) => vec![Nat],
            K::ToBits { .. } | K::ToBytes { .. } | K::ToChunks { .. } | K::Sgn0 => vec![Nat],
            K::FromBits { n, .. } => vec![Bit; *n],
            K::FromBytes { n, .. } => vec![Byte; *n],
            K::IsCanonical(n) | K::BitsLt(n, _) | K::BitsGeq(n, _) => vec![Bit; *n],
            K::AssertLt(_) | K::AssertLt2(..) => vec![Nat],
            K::Cmp { .. } | K::StdLowerThan(_) => vec![Nat; 2],
            K::CmpFixed { .. } | K::Bounded(_) => vec![Nat],
            K::DivRem(..) | K::Rem(..) => vec![Nat],
            K::BitToNat => vec![Bit],
            K::NatToBit | K::NatToByte => vec![Nat],
            K::ByteToNat | K::ByteNatByte => vec![Byte],
            K::Chain(a, _) => match a {
                Prod::Byte => vec![Byte],
                Prod::Bit => vec![Bit],
                Prod::AssertLt(_) | Prod::Bounded(_) => vec![Nat],
                Prod::EqByte => vec![Byte, Nat],
            },
            K::AssignLt(_) | K::Vector { .. } | K::MapGet(_) | K::MapInsertGet(_) => vec![],
        }
    }

    /// Number of exposed output scalars.
    pub fn n_out(&self) -> usize {
        match &self.k {
            K::AddConsts(c) => c.len(),
            K::AssertEq(_) | K::AssertNeq(_) | K::AssertEqFixed(..) | K::AssertNeqFixed(..) | K::AssertZero | K::AssertNonZero | K::AssertTrue | K::AssertFalse | K::CondAssertEq(_) | K::AssertLt(_) | K::AssertLt2(..) => 0,
            K::ToBits { n, .. } => n.unwrap_or(255),
            K::ToBytes { n, .. } => n.unwrap_or(32),
            K::ToChunks { c, n } => n.unwrap_or(255usize.div_ceil(*c)),
            K::CondSwap(_) | K::DivRem(..) => 2,
            K::Vector { m, act, .. } => 2 + match act {
                VecAct::Resize(l) => *l,
                _ => *m,
            },
            K::MapGet(_) => 3,
            K::MapInsertGet(_) => 6,
            K::Chain(_, Cons::AssertLt(_)) => 0,
            _ => 1,
        }
    }

    pub fn n_public(&self) -> usize {
        self.in_tys().len() + self.n_out()
    }

    /// Ops with many assignments: thorough S2 is sampled instead of exhaustive.
    pub fn wide(&self) -> bool {
        self.n_public() > 40 || matches!(self.k, K::MapGet(_) | K::MapInsertGet(_) | K::Pow(_) | K::Band(_) | K::Bor(_) | K::Bxor(_) | K::Vector { .. })
    }
}

// ---------------------------------------------------------------------------
// circuits

macro_rules! call_ty {
    ($std:ident . $m:ident ($l:ident, $ty:expr; $($v:expr),* )) => {
        match $ty {
            Ty::Nat => $std.$m($l, $($v.n()),*),
            Ty::Bit => $std.$m($l, $($v.b()),*),
            Ty::Byte => $std.$m($l, $($v.y()),*),
        }
    };
}
macro_rules! call_ty_fixed {
    ($std:ident . $m:ident ($l:ident, $ty:expr; $v:expr, $c:expr)) => {
        match $ty {
            Ty::Nat => $std.$m($l, $v.n(), big_to_f($c)),
            Ty::Bit => $std.$m($l, $v.b(), !$c.is_zero()),
            Ty::Byte => $std.$m($l, $v.y(), to_u8($c)),
        }
    };
}

impl NOp {
    fn apply<L: Layouter<F>>(&self, std: &ZkStdLib, l: &mut L, ins: &[V]) -> Result<Vec<V>, Error> {
        let f = big_to_f;
        let nat = |x: AssignedNative<F>| vec![V::N(x)];
        let bit = |x: AssignedBit<F>| vec![V::B(x)];
        Ok(match &self.k {
            K::Add => nat(std.add(l, ins[0].n(), ins[1].n())?),
            K::Sub => nat(std.sub(l, ins[0].n(), ins[1].n())?),
            K::Mul(c) => nat(std.mul(l, ins[0].n(), ins[1].n(), c.as_ref().map(f))?),
            K::Div => nat(std.div(l, ins[0].n(), ins[1].n())?),
            K::Neg => nat(std.neg(l, ins[0].n())?),
            K::Inv => nat(std.inv(l, ins[0].n())?),
            K::Inv0 => nat(std.inv0(l, ins[0].n())?),
            K::AddConst(c) => nat(std.add_constant(l, ins[0].n(), f(c))?),
            K::AddConsts(cs) => {
                let xs: Vec<_> = ins.iter().map(|v| v.n().clone()).collect();
                let cs: Vec<F> = cs.iter().map(f).collect();
                std.add_constants(l, &xs, &cs)?.into_iter().map(V::N).collect()
            }
            K::MulConst(c) => nat(std.mul_by_constant(l, ins[0].n(), f(c))?),
            K::Square => nat(std.square(l, ins[0].n())?),
            K::Pow(n) => nat(std.pow(l, ins[0].n(), *n)?),
            K::AddAndMul([a, b, c, k, m]) => nat(std.add_and_mul(l, (f(a), ins[0].n()), (f(b), ins[1].n()), (f(c), ins[2].n()), f(k), f(m))?),
            K::LinComb(cs, k) => {
                let terms: Vec<_> = cs.iter().zip(ins.iter()).map(|(c, v)| (f(c), v.n().clone())).collect();
                nat(std.linear_combination(l, &terms, f(k))?)
            }
            K::IsZero => bit(std.is_zero(l, ins[0].n())?),
            K::IsEq(t) => bit(call_ty!(std.is_equal(l, t; ins[0], ins[1]))?),
            K::IsNeq(t) => bit(call_ty!(std.is_not_equal(l, t; ins[0], ins[1]))?),
            K::IsEqFixed(t, c) => bit(call_ty_fixed!(std.is_equal_to_fixed(l, t; ins[0], c))?),
            K::IsNeqFixed(t, c) => bit(call_ty_fixed!(std.is_not_equal_to_fixed(l, t; ins[0], c))?),
            K::AssertEq(t) => {
                call_ty!(std.assert_equal(l, t; ins[0], ins[1]))?;
                vec![]
            }
            K::AssertNeq(t) => {
                call_ty!(std.assert_not_equal(l, t; ins[0], ins[1]))?;
                vec![]
            }
            K::AssertEqFixed(t, c) => {
                call_ty_fixed!(std.assert_equal_to_fixed(l, t; ins[0], c))?;
                vec![]
            }
            K::AssertNeqFixed(t, c) => {
                call_ty_fixed!(std.assert_not_equal_to_fixed(l, t; ins[0], c))?;
                vec![]
            }
            K::AssertZero => {
                std.assert_zero(l, ins[0].n())?;
                vec![]
            }
            K::AssertNonZero => {
                std.assert_non_zero(l, ins[0].n())?;
                vec![]
            }
            K::AssertTrue => {
                std.assert_true(l, ins[0].b())?;
                vec![]
            }
            K::AssertFalse => {
                std.assert_false(l, ins[0].b())?;
                vec![]
            }
            K::CondAssertEq(t) => {
                match t {
                    Ty::Nat => std.cond_assert_equal(l, ins[0].b(), ins[1].n(), ins[2].n())?,
                    Ty::Bit => std.cond_assert_equal(l, ins[0].b(), ins[1].b(), ins[2].b())?,
                    Ty::Byte => std.cond_assert_equal(l, ins[0].b(), ins[1].y(), ins[2].y())?,
                }
                vec![]
            }
            K::And(_) | K::Or(_) | K::Xor(_) => {
                let bits: Vec<_> = ins.iter().map(|v| v.b().clone()).collect();
                bit(match &self.k {
                    K::And(_) => std.and(l, &bits)?,
                    K::Or(_) => std.or(l, &bits)?,
                    _ => std.xor(l, &bits)?,
                })
            }
            K::Not => bit(std.not(l, ins[0].b())?),
            K::Band(n) => nat(std.band(l, ins[0].n(), ins[1].n(), *n)?),
            K::Bor(n) => nat(std.bor(l, ins[0].n(), ins[1].n(), *n)?),
            K::Bxor(n) => nat(std.bxor(l, ins[0].n(), ins[1].n(), *n)?),
            K::Bnot(n) => nat(std.bnot(l, ins[0].n(), *n)?),
            K::ToBits { n, canon, be } => {
                let bits = if *be { std.assigned_to_be_bits(l, ins[0].n(), *n, *canon)? } else { std.assigned_to_le_bits(l, ins[0].n(), *n, *canon)? };
                bits.into_iter().map(V::B).collect()
            }
            K::ToBytes { n, be } => {
                let bytes = if *be { std.assigned_to_be_bytes(l, ins[0].n(), *n)? } else { std.assigned_to_le_bytes(l, ins[0].n(), *n)? };
                bytes.into_iter().map(V::Y).collect()
            }
            K::ToChunks { c, n } => std.assigned_to_le_chunks(l, ins[0].n(), *c, *n)?.into_iter().map(V::N).collect(),
            K::FromBits { be, .. } => {
                let bits: Vec<_> = ins.iter().map(|v| v.b().clone()).collect();
                let r: AssignedNative<F> = if *be { std.assigned_from_be_bits(l, &bits)? } else { std.assigned_from_le_bits(l, &bits)? };
                nat(r)
            }
            K::FromBytes { be, .. } => {
                let bytes: Vec<_> = ins.iter().map(|v| v.y().clone()).collect();
                let r: AssignedNative<F> = if *be { std.assigned_from_be_bytes(l, &bytes)? } else { std.assigned_from_le_bytes(l, &bytes)? };
                nat(r)
            }
            K::Sgn0 => bit(std.sgn0(l, ins[0].n())?),
            K::IsCanonical(_) | K::BitsLt(..) | K::BitsGeq(..) => {
                let bits: Vec<_> = ins.iter().map(|v| v.b().clone()).collect();
                bit(match &self.k {
                    K::IsCanonical(_) => std.is_canonical(l, &bits)?,
                    K::BitsLt(_, b) => std.le_bits_lower_than(l, &bits, b.clone())?,
                    K::BitsGeq(_, b) => std.le_bits_geq_than(l, &bits, b.clone())?,
                    _ => unreachable!(),
                })
            }
            K::AssertLt(b) => {
                std.assert_lower_than_fixed(l, ins[0].n(), b)?;
                vec![]
            }
            K::AssertLt2(a, b) => {
                std.assert_lower_than_fixed(l, ins[0].n(), a)?;
                std.assert_lower_than_fixed(l, ins[0].n(), b)?;
                vec![]
            }
            K::Cmp { op, nx, ny } => {
                let ng = std.jubjub().native_gadget();
                let bx: AssignedBounded<F> = ng.bounded_of_element(l, *nx, ins[0].n())?;
                let by: AssignedBounded<F> = ng.bounded_of_element(l, *ny, ins[1].n())?;
                bit(match op {
                    CmpOp::Lt => ng.lower_than(l, &bx, &by)?,
                    CmpOp::Leq => ng.leq(l, &bx, &by)?,
                    CmpOp::Geq => ng.geq(l, &bx, &by)?,
                    CmpOp::Gt => ng.greater_than(l, &bx, &by)?,
                })
            }
            K::CmpFixed { op, n, c } => {
                let ng = std.jubjub().native_gadget();
                let bx: AssignedBounded<F> = ng.bounded_of_element(l, *n, ins[0].n())?;
                bit(match op {
                    CmpOp::Lt => ng.lower_than_fixed(l, &bx, f(c))?,
                    CmpOp::Leq => ng.leq_fixed(l, &bx, f(c))?,
                    CmpOp::Geq => ng.geq_fixed(l, &bx, f(c))?,
                    CmpOp::Gt => ng.greater_than_fixed(l, &bx, f(c))?,
                })
            }
            K::StdLowerThan(n) => bit(std.lower_than(l, ins[0].n(), ins[1].n(), *n)?),
            K::Bounded(n) => {
                let ng = std.jubjub().native_gadget();
                let bx: AssignedBounded<F> = ng.bounded_of_element(l, *n, ins[0].n())?;
                nat(ng.element_of_bounded(l, &bx)?)
            }
            K::Select(t) => vec![match t {
                Ty::Nat => V::N(std.select(l, ins[0].b(), ins[1].n(), ins[2].n())?),
                Ty::Bit => V::B(std.select(l, ins[0].b(), ins[1].b(), ins[2].b())?),
                Ty::Byte => V::Y(std.select(l, ins[0].b(), ins[1].y(), ins[2].y())?),
            }],
            K::CondSwap(t) => match t {
                Ty::Nat => {
                    let (a, b) = std.cond_swap(l, ins[0].b(), ins[1].n(), ins[2].n())?;
                    vec![V::N(a), V::N(b)]
                }
                Ty::Bit => {
                    let (a, b) = std.cond_swap(l, ins[0].b(), ins[1].b(), ins[2].b())?;
                    vec![V::B(a), V::B(b)]
                }
                Ty::Byte => {
                    let (a, b) = std.cond_swap(l, ins[0].b(), ins[1].y(), ins[2].y())?;
                    vec![V::Y(a), V::Y(b)]
                }
            },
            K::DivRem(d, b) => {
                let (q, r) = std.div_rem(l, ins[0].n(), d.clone(), b.clone())?;
                vec![V::N(q), V::N(r)]
            }
            K::Rem(d, b) => nat(std.rem(l, ins[0].n(), d.clone(), b.clone())?),
            K::BitToNat => nat(std.convert(l, ins[0].b())?),
            K::NatToBit => bit(std.convert(l, ins[0].n())?),
            K::ByteToNat => nat(std.convert(l, ins[0].y())?),
            K::NatToByte => vec![V::Y(std.convert(l, ins[0].n())?)],
            K::ByteNatByte => {
                let n: AssignedNative<F> = std.convert(l, ins[0].y())?;
                let y: AssignedByte<F> = std.convert(l, &n)?;
                vec![V::Y(y)]
            }
            K::Chain(a, b) => {
                let ng = std.jubjub().native_gadget();
                let x: AssignedNative<F> = match a {
                    Prod::Byte => std.convert(l, ins[0].y())?,
                    Prod::Bit => std.convert(l, ins[0].b())?,
                    Prod::AssertLt(bd) => {
                        std.assert_lower_than_fixed(l, ins[0].n(), bd)?;
                        ins[0].n().clone()
                    }
                    Prod::Bounded(n) => {
                        let bx: AssignedBounded<F> = ng.bounded_of_element(l, *n, ins[0].n())?;
                        ng.element_of_bounded(l, &bx)?
                    }
                    Prod::EqByte => {
                        let y: AssignedNative<F> = std.convert(l, ins[0].y())?;
                        std.assert_equal(l, ins[1].n(), &y)?;
                        ins[1].n().clone()
                    }
                };
                match b {
                    Cons::CmpFixed(op, n, c) => {
                        let bx: AssignedBounded<F> = ng.bounded_of_element(l, *n, &x)?;
                        bit(match op {
                            CmpOp::Lt => ng.lower_than_fixed(l, &bx, f(c))?,
                            CmpOp::Leq => ng.leq_fixed(l, &bx, f(c))?,
                            CmpOp::Geq => ng.geq_fixed(l, &bx, f(c))?,
                            CmpOp::Gt => ng.greater_than_fixed(l, &bx, f(c))?,
                        })
                    }
                    Cons::AssertLt(bd) => {
                        std.assert_lower_than_fixed(l, &x, bd)?;
                        vec![]
                    }
                    Cons::ToByte => vec![V::Y(std.convert(l, &x)?)],
                    Cons::ToBit => bit(std.convert(l, &x)?),
                    Cons::Bounded(n) => {
                        let bx: AssignedBounded<F> = ng.bounded_of_element(l, *n, &x)?;
                        nat(ng.element_of_bounded(l, &bx)?)
                    }
                }
            }
            K::AssignLt(_) | K::Vector { .. } | K::MapGet(_) | K::MapInsertGet(_) => unreachable!("raw op"),
        })
    }
}

// ---------------------------------------------------------------------------
// raw circuits: range-checked assignment, vectors, maps

type MapCpu = MapMt<F, PoseidonChip<F>>;

fn build_map(entries: &[(u64, u64)]) -> MapCpu {
    let mut m = MapCpu::new(&F::from(0));
    for (k, v) in entries {
        m.insert(&F::from(*k), &F::from(*v));
    }
    m
}

fn vec_expose<L: Layouter<F>, T, const M: usize, const A: usize>(std: &ZkStdLib, l: &mut L, v: &AssignedVector<F, T, M, A>) -> Result<(), Error>
where
    T: Vectorizable,
    T::Element: Copy,
    ZkStdLib: VectorInstructions<F, T, M, A>,
{
    let (s, e) = VectorInstructions::<F, T, M, A>::get_limits(std, l, v)?;
    std.constrain_as_public_input(l, &s)?;
    std.constrain_as_public_input(l, &e)?;
    let flags = VectorInstructions::<F, T, M, A>::padding_flag(std, l, v)?;
    for b in flags.iter() {
        std.constrain_as_public_input(l, b)?;
    }
    Ok(())
}

thread_local! {
    /// Set by `run_complete` only: compare `AssignedVector::value()` with the
    /// expected logical content (meaningless, and a source of aborts, under faults).
    static VALUE_CHECK: std::cell::Cell<bool> = const { std::cell::Cell::new(false) };
}

/// Honest-witness check of the logical content of a vector (the buffer is
/// not accessible from outside the crate, only `value()` is).
fn vec_check_value<T, const M: usize, const A: usize>(v: &AssignedVector<F, T, M, A>, expect: Value<Option<Vec<T::Element>>>) -> Result<(), Error>
where
    T: Vectorizable,
    T::Element: Copy + PartialEq,
{
    if !VALUE_CHECK.with(|c| c.get()) {
        return Ok(());
    }
    let mut skip = false;
    expect.as_ref().map(|e| skip = e.is_none());
    if skip {
        return Ok(());
    }
    v.value().zip(expect).error_if_known_and(|(got, exp)| Some(got) != exp.as_ref())
}

fn vec_circuit<L: Layouter<F>, T, const M: usize, const A: usize, const L2: usize>(
    std: &ZkStdLib,
    l: &mut L,
    elems: Value<Vec<T::Element>>,
    filler: Option<T::Element>,
    act: VecAct,
) -> Result<(), Error>
where
    T: Vectorizable,
    T::Element: Copy + PartialEq,
    ZkStdLib: VectorInstructions<F, T, M, A> + VectorInstructions<F, T, L2, A>,
{
    let v: AssignedVector<F, T, M, A> = VectorInstructions::<F, T, M, A>::assign_with_filler(std, l, elems.clone(), filler)?;
    match act {
        VecAct::Limits => {
            vec_check_value(&v, elems.map(Some))?;
            vec_expose(std, l, &v)
        }
        VecAct::Trim(n) => {
            let w = VectorInstructions::<F, T, M, A>::trim_beginning(std, l, &v, n)?;
            vec_check_value(&w, elems.map(|e| if e.len() >= n { Some(e[n..].to_vec()) } else { None }))?;
            vec_expose(std, l, &w)
        }
        VecAct::Resize(_) => {
            let w: AssignedVector<F, T, L2, A> = VectorInstructions::<F, T, M, A>::resize::<L2>(std, l, v)?;
            vec_check_value(&w, elems.map(Some))?;
            vec_expose(std, l, &w)
        }
    }
}

/// Supported (M, A, L) instantiations (L is only used by `Resize`).
pub const VEC_SHAPES: [(usize, usize, usize); 5] = [(4, 1, 5), (4, 2, 8), (4, 4, 8), (6, 3, 9), (8, 4, 16)];

macro_rules! vec_dispatch {
    ($std:ident, $l:ident, $x:ident, $m:expr, $a:expr, $byte:expr, $filler:expr, $act:expr; $(($M:literal, $A:literal, $L2:literal)),*) => {
        match ($m, $a) {
            $(($M, $A) => {
                if let VecAct::Resize(l2) = $act { assert_eq!(l2, $L2, "harness: unsupported resize target"); }
                if $byte {
                    vec_circuit::<L, AssignedByte<F>, $M, $A, $L2>($std, $l, $x.map(|x| x.iter().map(to_u8).collect()), $filler.map(|f: u64| f as u8), $act)
                } else {
                    vec_circuit::<L, AssignedNative<F>, $M, $A, $L2>($std, $l, $x.map(|x| x.iter().map(big_to_f).collect()), $filler.map(|f: u64| F::from(f)), $act)
                }
            })*
            _ => panic!("harness: unsupported vector shape"),
        }
    };
}

impl NOp {
    fn raw_circuit<L: Layouter<F>>(&self, std: &ZkStdLib, l: &mut L, x: Value<Vec<BigUint>>) -> Result<(), Error> {
        match &self.k {
            K::AssignLt(b) => {
                let y: AssignedNative<F> = std.assign_lower_than_fixed(l, x.map(|x| big_to_f(&x[0])), b)?;
                std.constrain_as_public_input(l, &y)
            }
            K::Vector { m, a, byte, filler, act, .. } => {
                vec_dispatch!(std, l, x, (*m, *a).0, (*m, *a).1, *byte, *filler, *act; (4, 1, 5), (4, 2, 8), (4, 4, 8), (6, 3, 9), (8, 4, 16))
            }
            K::MapGet(entries) => {
                let mut m = std.map_gadget().clone();
                m.init(l, Value::known(build_map(entries)))?;
                std.constrain_as_public_input(l, &m.succinct_repr())?;
                let key: AssignedNative<F> = std.assign(l, x.map(|x| big_to_f(&x[0])))?;
                std.constrain_as_public_input(l, &key)?;
                let v = m.get(l, &key)?;
                std.constrain_as_public_input(l, &v)
            }
            K::MapInsertGet(entries) => {
                let mut m = std.map_gadget().clone();
                m.init(l, Value::known(build_map(entries)))?;
                std.constrain_as_public_input(l, &m.succinct_repr())?;
                let key: AssignedNative<F> = std.assign(l, x.clone().map(|x| big_to_f(&x[0])))?;
                std.constrain_as_public_input(l, &key)?;
                let val: AssignedNative<F> = std.assign(l, x.clone().map(|x| big_to_f(&x[1])))?;
                std.constrain_as_public_input(l, &val)?;
                m.insert(l, &key, &val)?;
                std.constrain_as_public_input(l, &m.succinct_repr())?;
                let key2: AssignedNative<F> = std.assign(l, x.map(|x| big_to_f(&x[2])))?;
                std.constrain_as_public_input(l, &key2)?;
                let v = m.get(l, &key2)?;
                std.constrain_as_public_input(l, &v)
            }
            _ => unreachable!(),
        }
    }
}

// ---------------------------------------------------------------------------
// reference models (num-bigint)

fn bits_val(bits: &[BigUint]) -> BigUint {
    bits.iter().enumerate().fold(BigUint::zero(), |acc, (i, b)| acc + (b << i))
}
fn b2(x: bool) -> BigUint {
    if x {
        big(1)
    } else {
        big(0)
    }
}

/// Expected (start, end, flags) of a vector of length `len` in a buffer of
/// size `m` aligned to `a` (documented layout: `get_lims`, flag 1 = padding).
fn vec_model(m: usize, a: usize, len: usize) -> Vec<BigUint> {
    let pad = (a - len % a) % a;
    let (start, end) = (m - len - pad, m - pad);
    let mut out = vec![big(start as u64), big(end as u64)];
    out.extend((0..m).map(|i| b2(!(start <= i && i < end))));
    out
}

impl NOp {
    /// Outputs for in-domain inputs, `None` outside the documented domain.
    pub fn model(&self, x: &[BigUint]) -> Option<Vec<BigUint>> {
        let pm = p();
        let one = |v: BigUint| Some(vec![v % p()]);
        let ob = |v: bool| Some(vec![b2(v)]);
        let unit = |ok: bool| if ok { Some(vec![]) } else { None };
        match &self.k {
            K::Add => one(&x[0] + &x[1]),
            K::Sub => one(sub_mod(&x[0], &x[1])),
            K::Mul(c) => one(&x[0] * &x[1] * c.clone().unwrap_or_else(BigUint::one)),
            K::Div => {
                if x[1].is_zero() {
                    None
                } else {
                    one(&x[0] * inv_mod(&x[1]))
                }
            }
            K::Neg => one(sub_mod(&big(0), &x[0])),
            K::Inv => {
                if x[0].is_zero() {
                    None
                } else {
                    one(inv_mod(&x[0]))
                }
            }
            K::Inv0 => one(if x[0].is_zero() { big(0) } else { inv_mod(&x[0]) }),
            K::AddConst(c) => one(&x[0] + c),
            K::AddConsts(cs) => Some(x.iter().zip(cs).map(|(x, c)| (x + c) % &pm).collect()),
            K::MulConst(c) => one(&x[0] * c),
            K::Square => one(&x[0] * &x[0]),
            K::Pow(n) => one(x[0].modpow(&big(*n), &pm)),
            K::AddAndMul([a, b, c, k, m]) => one(a * &x[0] + b * &x[1] + c * &x[2] + k + m * &x[0] * &x[1]),
            K::LinComb(cs, k) => one(cs.iter().zip(x).fold(k.clone(), |acc, (c, x)| acc + c * x)),
            K::IsZero => ob(x[0].is_zero()),
            K::IsEq(_) => ob(x[0] == x[1]),
            K::IsNeq(_) => ob(x[0] != x[1]),
            K::IsEqFixed(_, c) => ob(x[0] == *c),
            K::IsNeqFixed(_, c) => ob(x[0] != *c),
            K::AssertEq(_) => unit(x[0] == x[1]),
            K::AssertNeq(_) => unit(x[0] != x[1]),
            K::AssertEqFixed(_, c) => unit(x[0] == *c),
            K::AssertNeqFixed(_, c) => unit(x[0] != *c),
            K::AssertZero => unit(x[0].is_zero()),
            K::AssertNonZero => unit(!x[0].is_zero()),
            K::AssertTrue => unit(x[0].is_one()),
            K::AssertFalse => unit(x[0].is_zero()),
            K::CondAssertEq(_) => unit(x[0].is_zero() || x[1] == x[2]),
            K::And(_) => ob(x.iter().all(|b| b.is_one())),
            K::Or(_) => ob(x.iter().any(|b| b.is_one())),
            K::Xor(_) => ob(x.iter().filter(|b| b.is_one()).count() % 2 == 1),
            K::Not => ob(x[0].is_zero()),
            K::Band(n) | K::Bor(n) | K::Bxor(n) => {
                if x[0] >= pow2(*n) || x[1] >= pow2(*n) {
                    return None;
                }
                Some(vec![match &self.k {
                    K::Band(_) => &x[0] & &x[1],
                    K::Bor(_) => &x[0] | &x[1],
                    _ => &x[0] ^ &x[1],
                }])
            }
            K::Bnot(n) => {
                if x[0] >= pow2(*n) {
                    None
                } else {
                    Some(vec![pow2(*n) - big(1) - &x[0]])
                }
            }
            K::ToBits { n, be, .. } => {
                let n = n.unwrap_or(255);
                if x[0] >= pow2(n) {
                    return None;
                }
                let mut v: Vec<BigUint> = (0..n).map(|i| b2(x[0].bit(i as u64))).collect();
                if *be {
                    v.reverse();
                }
                Some(v)
            }
            K::ToBytes { n, be } => {
                let n = n.unwrap_or(32);
                if x[0] >= pow2(8 * n) {
                    return None;
                }
                let mut v: Vec<BigUint> = (0..n).map(|i| (&x[0] >> (8 * i)) & big(255)).collect();
                if *be {
                    v.reverse();
                }
                Some(v)
            }
            K::ToChunks { c, n } => {
                let n = n.unwrap_or(255usize.div_ceil(*c));
                if x[0] >= pow2(c * n) {
                    return None;
                }
                Some((0..n).map(|i| (&x[0] >> (c * i)) & (pow2(*c) - big(1))).collect())
            }
            K::FromBits { be, .. } => {
                let mut b = x.to_vec();
                if *be {
                    b.reverse();
                }
                one(bits_val(&b))
            }
            K::FromBytes { be, .. } => {
                let mut b = x.to_vec();
                if *be {
                    b.reverse();
                }
                one(b.iter().enumerate().fold(BigUint::zero(), |acc, (i, y)| acc + (y << (8 * i))))
            }
            K::Sgn0 => ob(x[0].bit(0)),
            K::IsCanonical(n) => ob(*n <= 255 && bits_val(x) < pm),
            K::BitsLt(_, b) => ob(bits_val(x) < *b),
            K::BitsGeq(_, b) => ob(bits_val(x) >= *b),
            K::AssignLt(b) => {
                if x[0] < *b {
                    Some(vec![x[0].clone()])
                } else {
                    None
                }
            }
            K::AssertLt(b) => unit(x[0] < *b),
            K::AssertLt2(a, b) => unit(x[0] < *a && x[0] < *b),
            K::Chain(a, b) => {
                let v = x.last().unwrap();
                if *v >= a.bound() || (matches!(a, Prod::EqByte) && x[0] != x[1]) {
                    return None;
                }
                match b {
                    Cons::CmpFixed(op, n, c) => {
                        if *v >= pow2(*n) {
                            None
                        } else {
                            ob(match op {
                                CmpOp::Lt => v < c,
                                CmpOp::Leq => v <= c,
                                CmpOp::Geq => v >= c,
                                CmpOp::Gt => v > c,
                            })
                        }
                    }
                    Cons::AssertLt(bd) => unit(v < bd),
                    Cons::ToByte => if *v < big(256) { Some(vec![v.clone()]) } else { None },
                    Cons::ToBit => if *v < big(2) { Some(vec![v.clone()]) } else { None },
                    Cons::Bounded(n) => if *v < pow2(*n) { Some(vec![v.clone()]) } else { None },
                }
            }
            K::Cmp { op, nx, ny } => {
                if x[0] >= pow2(*nx) || x[1] >= pow2(*ny) {
                    None
                } else {
                    ob(op.eval(&x[0], &x[1]))
                }
            }
            K::CmpFixed { op, n, c } => {
                if x[0] >= pow2(*n) {
                    None
                } else {
                    ob(op.eval(&x[0], c))
                }
            }
            K::StdLowerThan(n) => {
                if x[0] >= pow2(*n as usize) || x[1] >= pow2(*n as usize) {
                    None
                } else {
                    ob(x[0] < x[1])
                }
            }
            K::Bounded(n) => {
                if x[0] >= pow2(*n) {
                    None
                } else {
                    Some(vec![x[0].clone()])
                }
            }
            K::Select(_) => Some(vec![if x[0].is_one() { x[1].clone() } else { x[2].clone() }]),
            K::CondSwap(_) => Some(if x[0].is_one() { vec![x[2].clone(), x[1].clone()] } else { vec![x[1].clone(), x[2].clone()] }),
            K::DivRem(d, _) => {
                let (q, r) = x[0].div_rem(d);
                Some(vec![q, r])
            }
            K::Rem(d, _) => Some(vec![&x[0] % d]),
            K::BitToNat | K::ByteToNat | K::ByteNatByte => Some(vec![x[0].clone()]),
            K::NatToBit => {
                if x[0] < big(2) {
                    Some(vec![x[0].clone()])
                } else {
                    None
                }
            }
            K::NatToByte => {
                if x[0] < big(256) {
                    Some(vec![x[0].clone()])
                } else {
                    None
                }
            }
            K::Vector { m, a, act, .. } => {
                let len = x.len();
                if len > *m {
                    return None;
                }
                match act {
                    VecAct::Limits => Some(vec_model(*m, *a, len)),
                    VecAct::Trim(n) => {
                        if len < *n {
                            None
                        } else {
                            Some(vec_model(*m, *a, len - n))
                        }
                    }
                    VecAct::Resize(l2) => Some(vec_model(*l2, *a, len)),
                }
            }
            K::MapGet(entries) => {
                let cpu = build_map(entries);
                let mut model: HashMap<BigUint, BigUint> = HashMap::new();
                for (k, v) in entries {
                    model.insert(big(*k), big(*v));
                }
                Some(vec![f_to_big(&cpu.succinct_repr()), x[0].clone(), model.get(&x[0]).cloned().unwrap_or_default()])
            }
            K::MapInsertGet(entries) => {
                let mut cpu = build_map(entries);
                let mut model: HashMap<BigUint, BigUint> = HashMap::new();
                for (k, v) in entries {
                    model.insert(big(*k), big(*v));
                }
                let r0 = f_to_big(&cpu.succinct_repr());
                cpu.insert(&big_to_f(&x[0]), &big_to_f(&x[1]));
                model.insert(x[0].clone(), x[1].clone());
                let r1 = f_to_big(&cpu.succinct_repr());
                Some(vec![r0, x[0].clone(), x[1].clone(), r1, x[2].clone(), model.get(&x[2]).cloned().unwrap_or_default()])
            }
        }
    }

    /// Is (x, y) a correct (inputs, outputs) pair? (`x` decoded and typed.)
    fn judge_io(&self, x: &[BigUint], y: &[BigUint]) -> bool {
        let pm = p();
        match &self.k {
            // non-canonical full-width bit decomposition: any bit vector with the right sum
            K::ToBits { n, canon: false, be } if n.unwrap_or(255) == 255 => {
                let mut b = y.to_vec();
                if *be {
                    b.reverse();
                }
                y.len() == 255 && b.iter().all(|b| *b < big(2)) && bits_val(&b) % &pm == x[0]
            }
            // documented as not canonical: chunks in range with the right sum mod p
            K::ToChunks { c, n } => {
                let n = n.unwrap_or(255usize.div_ceil(*c));
                y.len() == n && y.iter().all(|v| *v < pow2(*c)) && y.iter().enumerate().fold(BigUint::zero(), |acc, (i, v)| acc + (v << (c * i))) % &pm == x[0]
            }
            _ => self.model(x).as_deref() == Some(y),
        }
    }
}

impl Op for NOp {
    fn name(&self) -> String {
        let base = match &self.fixed {
            None => self.base_name(),
            Some((i, c)) => format!("{}[operand{i}=assign_fixed({})]", self.base_name(), bs(c)),
        };
        match self.cfg {
            None => base,
            Some((c, m)) => format!("{base}@cols={c},mbl={m}"),
        }
    }
    fn arch(&self) -> ZkStdLibArch {
        ZkStdLibArch {
            jubjub: self.uses_cmp(),
            poseidon: matches!(self.k, K::MapGet(_) | K::MapInsertGet(_)),
            nr_pow2range_cols: self.cfg.map(|c| c.0).unwrap_or(1),
            ..ZkStdLibArch::default()
        }
    }
    fn max_bit_len(&self) -> u8 {
        self.cfg.map(|c| c.1).unwrap_or(8)
    }
    fn circuit<L: Layouter<F>>(&self, std: &ZkStdLib, l: &mut L, x: Value<Vec<BigUint>>) -> Result<(), Error> {
        if self.is_raw() {
            return self.raw_circuit(std, l, x);
        }
        let tys = self.in_tys();
        let mut ins = Vec::with_capacity(tys.len());
        if tys.len() > 4 && tys.iter().all(|t| *t == Ty::Bit) {
            // also exercises assign_many (range-check based bit assignment)
            let vals: Vec<Value<bool>> = (0..tys.len()).map(|i| x.clone().map(|x| !x[i].is_zero())).collect();
            let bits: Vec<AssignedBit<F>> = std.assign_many(l, &vals)?;
            ins.extend(bits.into_iter().map(V::B));
        } else if tys.len() > 4 && tys.iter().all(|t| *t == Ty::Byte) {
            let vals: Vec<Value<u8>> = (0..tys.len()).map(|i| x.clone().map(|x| to_u8(&x[i]))).collect();
            let bytes: Vec<AssignedByte<F>> = std.assign_many(l, &vals)?;
            ins.extend(bytes.into_iter().map(V::Y));
        } else {
            for (i, ty) in tys.iter().enumerate() {
                match &self.fixed {
                    Some((j, c)) if *j == i => ins.push(match ty {
                        Ty::Nat => V::N(std.assign_fixed(l, big_to_f(c))?),
                        Ty::Bit => V::B(std.assign_fixed(l, !c.is_zero())?),
                        Ty::Byte => V::Y(std.assign_fixed(l, to_u8(c))?),
                    }),
                    _ => ins.push(assign_in(std, l, *ty, x.clone().map(|x| x[i].clone()))?),
                }
            }
        }
        for v in &ins {
            expose(std, l, v)?;
        }
        let outs = self.apply(std, l, &ins)?;
        for o in &outs {
            expose(std, l, o)?;
        }
        Ok(())
    }
    fn reference(&self, x: &[BigUint]) -> Option<Vec<F>> {
        if let Some((i, c)) = &self.fixed {
            // the circuit exposes the constant whatever the witness says
            if x.get(*i) != Some(c) {
                return None;
            }
        }
        let y = self.model(x)?;
        let mut v: Vec<F> = if self.is_raw() { vec![] } else { x.iter().map(big_to_f).collect() };
        v.extend(y.iter().map(big_to_f));
        Some(v)
    }
    fn n_input_scalars(&self) -> usize {
        self.in_tys().len()
    }
    fn decode_inputs(&self, public: &[F]) -> Option<Vec<BigUint>> {
        let tys = self.in_tys();
        if public.len() < tys.len() {
            return None;
        }
        let x: Vec<BigUint> = public[..tys.len()].iter().map(f_to_big).collect();
        if x.iter().zip(&tys).any(|(x, t)| *x >= t.bound()) {
            return None;
        }
        Some(x)
    }
    fn judge(&self, public: &[F]) -> bool {
        if public.len() != self.n_public() {
            return false;
        }
        let pv: Vec<BigUint> = public.iter().map(f_to_big).collect();
        match &self.k {
            K::AssignLt(b) => pv[0] < *b,
            K::Vector { m, a, act, .. } => {
                // the vector is a private witness: correct iff the outputs are
                // those of some admissible length
                let (lo, mm) = match act {
                    VecAct::Limits => (0, *m),
                    VecAct::Trim(n) => (*n, *m),
                    VecAct::Resize(_) => (0, *m),
                };
                (lo..=mm).any(|len| {
                    let out = match act {
                        VecAct::Limits => vec_model(*m, *a, len),
                        VecAct::Trim(n) => vec_model(*m, *a, len - n),
                        VecAct::Resize(l2) => vec_model(*l2, *a, len),
                    };
                    out == pv
                })
            }
            K::MapGet(_) => self.model(&pv[1..2]).as_deref() == Some(&pv[..]),
            K::MapInsertGet(_) => self.model(&[pv[1].clone(), pv[2].clone(), pv[4].clone()]).as_deref() == Some(&pv[..]),
            _ => match self.decode_inputs(public) {
                None => false,
                Some(x) => self.judge_io(&x, &pv[x.len()..]),
            },
        }
    }
    fn classify(&self, public: &[F]) -> Option<String> {
        match &self.k {
            K::DivRem(d, None) if public.len() == 3 => {
                let (x, q, r) = (f_to_big(&public[0]), f_to_big(&public[1]), f_to_big(&public[2]));
                if d * &q + &r == &x + p() && r < *d {
                    Some("wraparound-mod-p".into())
                } else {
                    None
                }
            }
            K::Vector { m, a, act, .. } => {
                // the known `padding_flag` defect: admissible final length in
                // 1..=A, correct limits, flags = 1 before `end` and 0 from `end` on
                let mm = match act {
                    VecAct::Resize(l2) => *l2,
                    _ => *m,
                };
                let pv: Vec<BigUint> = public.iter().map(f_to_big).collect();
                let trimmed = match act {
                    VecAct::Trim(n) => *n,
                    _ => 0,
                };
                let hit = (1..=*a).filter(|fin| fin + trimmed <= *m).any(|fin| {
                    let good = vec_model(mm, *a, fin);
                    let end = mm - (a - fin % a) % a;
                    let mut bad = good[..2].to_vec();
                    bad.extend((0..mm).map(|i| b2(i < end)));
                    pv == bad
                });
                if hit {
                    Some(PADFLAG.into())
                } else {
                    None
                }
            }
            K::Rem(d, None) if public.len() == 2 => {
                let (x, r) = (f_to_big(&public[0]), f_to_big(&public[1]));
                if r < *d && r == (&x + p() % d) && r != &x % d {
                    Some("wraparound-mod-p".into())
                } else {
                    None
                }
            }
            _ => None,
        }
    }
}

// ---------------------------------------------------------------------------
// input generation from boundary classes

/// A generated case: the op (by name), four shrinkable picks (value class,
/// raw value) for the first operands and a seed for everything else.
#[derive(Clone, Debug, Serialize, Deserialize)]
pub struct Case {
    pub op: String,
    pub picks: Vec<(u8, u64)>,
    pub seed: u64,
}

pub const N_CLS: u8 = 18;

#[derive(Clone, Copy, PartialEq)]
enum Bias {
    None,
    /// 1/2: equal to the previous operand
    EqPrev,
    /// 3/8: equal to the pivot
    Pivot,
}

struct Src<'a> {
    picks: &'a [(u8, u64)],
    i: usize,
    rng: SplitMix,
    prev: Option<BigUint>,
    /// an operand came from a boundary class
    boundary: bool,
}

fn uniform_below(r: u64, bound: &BigUint) -> BigUint {
    if bound.is_zero() {
        return BigUint::zero();
    }
    BigUint::from_bytes_le(&SplitMix(r).bytes(48)) % bound
}

impl<'a> Src<'a> {
    fn new(c: &'a Case) -> Self {
        Src { picks: &c.picks, i: 0, rng: SplitMix(c.seed), prev: None, boundary: false }
    }
    fn next(&mut self) -> (u8, u64) {
        let r = if self.i < self.picks.len() {
            self.picks[self.i]
        } else {
            ((self.rng.next_u64() % N_CLS as u64) as u8, self.rng.next_u64())
        };
        self.i += 1;
        (r.0 % N_CLS, r.1)
    }
    /// A value around `pivot`; values >= `dom` (exclusive domain bound) are
    /// folded into the domain in 7 of 8 cases (always when `strict`).
    fn val(&mut self, pivot: &BigUint, dom: Option<&BigUint>, strict: bool, bias: Bias) -> BigUint {
        let (mut cls, r) = self.next();
        let pm = p();
        let sel = (r >> 56) & 7;
        match bias {
            Bias::EqPrev if sel < 4 && self.prev.is_some() => cls = 12,
            Bias::Pivot if sel < 3 => cls = 5,
            _ => {}
        }
        let prev = self.prev.clone().unwrap_or_default();
        let mut v = match cls {
            0 => big(0),
            1 => big(1),
            2 => big(2),
            3 => big(r % 256),
            4 => {
                if pivot.is_zero() {
                    big(0)
                } else {
                    pivot - big(1)
                }
            }
            5 => pivot.clone(),
            6 => pivot + big(1),
            7 => pivot / big(2),
            8 => &pm - big(1),
            9 => &pm - big(2),
            10 => (&pm - big(1)) / big(2),
            11 => (&pm + big(1)) / big(2),
            12 => prev,
            13 => prev + big(1),
            14 => {
                if prev.is_zero() {
                    &pm - big(1)
                } else {
                    prev - big(1)
                }
            }
            15 => uniform_below(r, pivot),
            16 => big(r),
            _ => uniform_below(r, &pm),
        };
        if !matches!(cls, 3 | 15 | 16 | 17) {
            self.boundary = true;
        }
        if let Some(d) = dom {
            if v >= *d && (strict || (r >> 61) != 0) {
                v %= d;
            }
        }
        self.prev = Some(v.clone());
        v
    }
}

/// What the generator reports about a case (for class labels / non-triviality).
pub struct Meta {
    pub boundary: bool,
}

impl NOp {
    /// Pivot (the interesting constant) and exclusive domain bound of operand `i`.
    fn slot(&self, i: usize) -> (BigUint, Option<BigUint>, bool, Bias) {
        let pm = p();
        let nat = |k: usize| (pow2(k), Some(pm.clone()), true, Bias::None);
        let dom = |k: usize| (pow2(k), Some(pow2(k)), false, Bias::None);
        let ty_slot = |t: &Ty, bias: Bias| match t {
            Ty::Nat => (pow2(64), Some(pm.clone()), true, bias),
            Ty::Bit => (big(1), Some(big(2)), true, bias),
            Ty::Byte => (big(128), Some(big(256)), true, bias),
        };
        match &self.k {
            K::Div if i == 1 => (big(0), Some(pm.clone()), true, Bias::None),
            K::IsEq(t) | K::IsNeq(t) | K::AssertEq(t) | K::AssertNeq(t) => ty_slot(t, if i == 1 { Bias::EqPrev } else { Bias::None }),
            K::IsEqFixed(t, c) | K::IsNeqFixed(t, c) | K::AssertEqFixed(t, c) | K::AssertNeqFixed(t, c) => {
                let (_, d, s, _) = ty_slot(t, Bias::None);
                (c.clone(), d, s, Bias::Pivot)
            }
            K::IsZero | K::AssertZero | K::AssertNonZero | K::Inv | K::Inv0 => (big(0), Some(pm.clone()), true, Bias::Pivot),
            K::CondAssertEq(t) | K::Select(t) | K::CondSwap(t) => {
                if i == 0 {
                    ty_slot(&Ty::Bit, Bias::None)
                } else {
                    ty_slot(t, if i == 2 { Bias::EqPrev } else { Bias::None })
                }
            }
            K::AssertTrue | K::AssertFalse | K::Not | K::And(_) | K::Or(_) | K::Xor(_) | K::BitToNat => ty_slot(&Ty::Bit, Bias::None),
            K::ByteToNat | K::ByteNatByte => ty_slot(&Ty::Byte, Bias::None),
            K::NatToBit => (big(2), Some(big(2)), false, Bias::None),
            K::NatToByte => (big(256), Some(big(256)), false, Bias::None),
            K::Band(n) | K::Bor(n) | K::Bxor(n) | K::Bnot(n) | K::Bounded(n) => dom(*n),
            K::ToBits { n, .. } => match n {
                Some(n) if *n < 255 => dom(*n),
                _ => (pow2(254), Some(pm.clone()), true, Bias::None),
            },
            K::ToBytes { n, .. } => match n {
                Some(n) if *n < 32 => dom(8 * n),
                _ => (pow2(248), Some(pm.clone()), true, Bias::None),
            },
            K::ToChunks { c, n } => {
                let bits = c * n.unwrap_or(255usize.div_ceil(*c));
                if bits < 255 {
                    dom(bits)
                } else {
                    (pow2(*c), Some(pm.clone()), true, Bias::None)
                }
            }
            K::AssignLt(b) | K::AssertLt(b) => (b.clone(), Some(b.clone()), false, Bias::None),
            K::AssertLt2(a, b) => (a.min(b).clone(), Some(a.min(b).clone()), false, Bias::None),
            // the pivot is the threshold of the second step; the domain is what the first step admits
            K::Chain(a, b) => match (a, i) {
                (Prod::EqByte, 1) => (b.pivot(), Some(a.bound()), false, Bias::EqPrev),
                (Prod::Byte | Prod::Bit | Prod::EqByte, _) => (b.pivot().min(a.bound() - big(1)), Some(a.bound()), true, Bias::Pivot),
                _ => (b.pivot(), Some(a.bound()), false, Bias::Pivot),
            },
            K::Cmp { nx, ny, .. } => {
                let n = if i == 0 { *nx } else { *ny };
                (pow2(n), Some(pow2(n)), false, if i == 1 { Bias::EqPrev } else { Bias::None })
            }
            K::StdLowerThan(n) => (pow2(*n as usize), Some(pow2(*n as usize)), false, if i == 1 { Bias::EqPrev } else { Bias::None }),
            K::CmpFixed { n, c, .. } => (c.clone(), Some(pow2(*n)), false, Bias::None),
            K::DivRem(d, b) | K::Rem(d, b) => match b {
                // an explicit bound is a caller precondition: only valid dividends
                Some(b) => (d.clone(), Some(b + big(1)), true, Bias::None),
                None => (d.clone(), Some(pm.clone()), true, Bias::None),
            },
            K::MapGet(e) | K::MapInsertGet(e) => (big(e.first().map(|e| e.0).unwrap_or(7)), Some(pm.clone()), true, Bias::Pivot),
            _ => nat(64),
        }
    }

    /// Inputs of a case (typed values, all < p).
    pub fn inputs(&self, c: &Case) -> (Vec<BigUint>, Meta) {
        let mut s = Src::new(c);
        let pm = p();
        let x: Vec<BigUint> = match &self.k {
            // bit strings derived from one integer around a pivot
            K::FromBits { n, be } => {
                let v = s.val(&pow2(n.saturating_sub(1)), None, false, Bias::None) % pow2(*n);
                let mut b: Vec<BigUint> = (0..*n).map(|i| b2(v.bit(i as u64))).collect();
                if *be {
                    b.reverse();
                }
                b
            }
            K::IsCanonical(n) | K::BitsLt(n, _) | K::BitsGeq(n, _) => {
                let pivot = match &self.k {
                    K::IsCanonical(_) => pm.clone(),
                    K::BitsLt(_, b) | K::BitsGeq(_, b) => b.clone(),
                    _ => unreachable!(),
                };
                // not reduced mod p: p, p+1, 2^255-1 are the interesting patterns
                let mut v = s.val(&pivot, None, false, Bias::None);
                if v >= pow2(*n) {
                    v = if (c.seed & 1) == 0 { pow2(*n) - big(1) } else { v % pow2(*n) };
                }
                (0..*n).map(|i| b2(v.bit(i as u64))).collect()
            }
            K::FromBytes { n, .. } => {
                let v = s.val(&pow2((8 * n).saturating_sub(1)), None, false, Bias::None) % pow2(8 * n);
                (0..*n).map(|i| (&v >> (8 * i)) & big(255)).collect()
            }
            K::Vector { m, a, byte, act, small, .. } => {
                // every admissible length 0..=M (> M panics by contract). The
                // lengths whose payload lies entirely in the last chunk
                // (final length in 1..=A) are generated only when `small`
                // (separate sub-check, see `padding_flag` finding).
                let affected = |len: usize| {
                    let fin = match act {
                        VecAct::Trim(n) => len.checked_sub(*n),
                        _ => Some(len),
                    };
                    matches!(fin, Some(f) if f >= 1 && f <= *a)
                };
                let cands: Vec<usize> = (0..=*m).filter(|l| affected(*l) == *small).collect();
                let (cls, r) = s.next();
                let len = if cands.is_empty() {
                    0
                } else {
                    match cls {
                        0 => cands[0],
                        4 | 5 => cands[cands.len() - 1],
                        _ => cands[(r % cands.len() as u64) as usize],
                    }
                };
                s.boundary = len == 0 || len == *m || len == 1 || matches!(act, VecAct::Trim(n) if len == *n || len + 1 == *n);
                (0..len).map(|_| if *byte { big(1 + s.rng.next_u64() % 255) } else { big(1) + uniform_below(s.rng.next_u64(), &(&pm - big(1))) }).collect()
            }
            K::MapInsertGet(e) => {
                let key = s.val(&big(e.first().map(|e| e.0).unwrap_or(7)), Some(&pm), true, Bias::Pivot);
                let val = s.val(&big(0), Some(&pm), true, Bias::None);
                let key2 = s.val(&key, Some(&pm), true, Bias::EqPrev);
                // EqPrev refers to `val`; make key2 == key in half of the cases instead
                let key2 = if (c.seed & 1) == 0 { key.clone() } else { key2 };
                vec![key, val, key2]
            }
            K::AssignLt(_) | K::MapGet(_) => {
                let (pv, d, st, b) = self.slot(0);
                vec![s.val(&pv, d.as_ref(), st, b) % &pm]
            }
            _ => {
                let tys = self.in_tys();
                (0..tys.len())
                    .map(|i| {
                        let (pv, d, st, b) = self.slot(i);
                        s.val(&pv, d.as_ref(), st, b) % tys[i].bound()
                    })
                    .collect()
            }
        };
        let mut x = x;
        if let Some((i, c)) = &self.fixed {
            if *i < x.len() {
                x[*i] = c.clone();
            }
        }
        (x, Meta { boundary: s.boundary })
    }

    /// A branch of the operation's definition crossed by these inputs.
    pub fn branch(&self, x: &[BigUint]) -> Option<&'static str> {
        let pm = p();
        match &self.k {
            K::Add if &x[0] + &x[1] >= pm => Some("wrap"),
            K::Sub if x[0] < x[1] => Some("wrap"),
            K::Mul(_) | K::Square | K::MulConst(_) | K::Pow(_) | K::LinComb(..) | K::AddAndMul(_) => None,
            K::IsZero | K::Inv0 if x[0].is_zero() => Some("zero"),
            K::IsEq(_) | K::IsNeq(_) | K::Cmp { .. } | K::StdLowerThan(_) if x[0] == x[1] => Some("equal"),
            K::IsEqFixed(_, c) | K::IsNeqFixed(_, c) | K::CmpFixed { c, .. } if x[0] == *c => Some("equal"),
            K::Select(_) | K::CondSwap(_) | K::CondAssertEq(_) if x[1] == x[2] => Some("equal"),
            K::DivRem(d, _) | K::Rem(d, _) if (&x[0] % d).is_zero() => Some("exact"),
            K::DivRem(d, None) | K::Rem(d, None) if x[0] < d - (&pm % d) => Some("x<d-(p mod d)"),
            K::ToBits { canon: true, n: None, .. } if &x[0] + &pm < pow2(255) => Some("two-representations"),
            _ => None,
        }
    }
}

// ---------------------------------------------------------------------------
// checks

/// Adds the S2 statistics as repeated class labels, so that the class
/// histogram of the evidence shows the aggregated counts.
pub fn with_s2_stats(mut v: Verdict, st: &S2Stats) -> Verdict {
    for (label, n) in [("s2:runs", st.runs), ("s2:rejected", st.rejected), ("s2:accepted-correct", st.accepted_correct), ("s2:aborted", st.aborted), ("s2:no-effect", st.no_effect)] {
        for _ in 0..n {
            v.classes.push(label.into());
        }
    }
    v
}

/// Completeness + S1 with at most `max_pos` sampled instance positions (the
/// engine's `check_complete_and_s1` visits every position, which is too
/// expensive for ops exposing hundreds of scalars).
pub fn complete_and_s1_sampled<O: Op>(op: &O, x: &[BigUint], seed: u64, max_pos: usize) -> CaseResult {
    let name = op.name();
    let Some(inst) = op.reference(x) else {
        return Ok(Verdict::trivial("out-of-domain-input-skipped"));
    };
    let run = run_given(op, x, &inst);
    if !run.outcome.accepted() {
        return Err(Failure::new(
            format!("{name}:incomplete:{}", run.outcome.label()),
            format!("honest witness for x={x:?} with the reference instance {inst:?} is not accepted: {:?}", run.outcome),
        ));
    }
    if !op.judge(&inst) {
        return Err(Failure::new(format!("harness:{name}:judge-rejects-reference"), format!("x={x:?} inst={inst:?}")));
    }
    let mut rng = SplitMix(seed);
    let n_in = op.n_input_scalars();
    let mut positions: Vec<usize> = (0..inst.len()).collect();
    if positions.len() > max_pos {
        // first, last, first output, plus random ones
        let mut sel = vec![0, inst.len() - 1, n_in.min(inst.len() - 1)];
        while sel.len() < max_pos {
            sel.push(rng.below(inst.len() as u64) as usize);
        }
        sel.sort();
        sel.dedup();
        positions = sel;
    }
    for pos in positions {
        let variants: Vec<F> = vec![inst[pos] + F::from(1), inst[pos] - F::from(1), F::from(0), F::from(1) - inst[pos], F::from(rng.next_u64())];
        let v = variants[rng.below(variants.len() as u64) as usize];
        if v == inst[pos] {
            continue;
        }
        let mut wrong = inst.clone();
        wrong[pos] = v;
        if op.judge(&wrong) {
            continue;
        }
        let r = run_given(op, x, &wrong);
        if r.outcome.accepted() {
            return Err(Failure::new(
                format!("{name}:unsound:S1:{}", if pos < n_in { "input-position" } else { "output-position" }),
                format!("honest witness for x={x:?} accepted with wrong instance (position {pos}: {:?} instead of {:?})", wrong[pos], inst[pos]),
            ));
        }
    }
    Ok(Verdict::nontrivial("complete+S1").with(name))
}

/// Inputs outside the documented domain: whatever outputs the library's own
/// witness generation produces, the circuit must not be satisfied; the same
/// under `n_faults` sampled assignment faults unless the exposed values form a
/// correct pair.
pub fn must_reject(op: &NOp, x: &[BigUint], seed: u64, n_faults: usize) -> Result<S2Stats, Failure> {
    let name = op.name();
    let n_pub = op.n_public();
    let mut st = S2Stats::default();
    let honest = run_faulted(op, x, n_pub, HashMap::new());
    if honest.outcome.accepted() && !op.judge(&honest.public) {
        return Err(Failure::new(
            format!("{name}:accepts-out-of-domain-input"),
            format!("inputs x={x:?} are outside the documented domain but the honest synthesis is accepted, exposing {:?}", honest.public),
        ));
    }
    let n = honest.log.len();
    if n == 0 {
        return Ok(st);
    }
    let mut rng = SplitMix(seed);
    for _ in 0..n_faults {
        let plan = HashMap::from([(rng.below(n as u64) as usize, fault_values(&mut rng))]);
        let r = run_faulted(op, x, n_pub, plan.clone());
        st.runs += 1;
        match &r.outcome {
            Outcome::Accept => {
                if op.judge(&r.public) {
                    st.accepted_correct += 1;
                } else {
                    if op.classify(&r.public).as_deref() == Some(PADFLAG) {
                        return Err(Failure::new(PADFLAG_SIG, format!("{name}: out-of-domain inputs x={x:?}, fault plan {plan:?}: accepted, exposing {:?}", r.public)));
                    }
                    return Err(Failure::new(
                        format!("{name}:unsound:S2:out-of-domain-input"),
                        format!("out-of-domain inputs x={x:?}, fault plan {plan:?}: accepted, exposing {:?}", r.public),
                    ));
                }
            }
            Outcome::Reject(_) => st.rejected += 1,
            _ => st.aborted += 1,
        }
    }
    Ok(st)
}

/// Completeness (+S1) or must-reject for one generated case.
pub fn run_complete(op: &NOp, c: &Case) -> CaseResult {
    VALUE_CHECK.with(|f| f.set(true));
    let r = vpcore::catch(|| run_complete_inner(op, c));
    VALUE_CHECK.with(|f| f.set(false));
    match r {
        Ok(r) => r,
        Err(p) => Err(Failure::new(format!("panic:{}", vpcore::panic_signature(&p)), format!("unexpected panic: {p}"))),
    }
}

fn run_complete_inner(op: &NOp, c: &Case) -> CaseResult {
    let (x, meta) = op.inputs(c);
    let name = op.name();
    let branch = op.branch(&x);
    if op.model(&x).is_none() {
        let st = must_reject(op, &x, c.seed, 3)?;
        return Ok(with_s2_stats(Verdict::nontrivial("out-of-domain:rejected").with(name), &st));
    }
    if op.n_public() <= 12 {
        check_complete_and_s1(op, &x, c.seed)?;
    } else {
        complete_and_s1_sampled(op, &x, c.seed, 8)?;
    }
    let nt = meta.boundary || branch.is_some();
    let mut v = Verdict::of(nt, "complete+S1").with(name);
    if meta.boundary {
        v = v.with("boundary-operand");
    }
    if let Some(b) = branch {
        v = v.with(format!("branch:{b}"));
    }
    Ok(v)
}

/// S2 for one generated case.
pub fn run_s2(op: &NOp, c: &Case, n_faults: usize, exhaustive: bool, pairs: bool) -> CaseResult {
    let (x, _) = op.inputs(c);
    let name = op.name();
    if op.model(&x).is_none() {
        let st = must_reject(op, &x, c.seed, n_faults)?;
        let nt = st.rejected + st.accepted_correct > 0;
        return Ok(with_s2_stats(Verdict::of(nt, "S2:out-of-domain-input").with(name), &st));
    }
    let (st, _) = check_s2(op, &x, c.seed, n_faults, exhaustive, pairs).map_err(|f| {
        // one defect, one signature, wherever it is found
        if f.signature.ends_with(&format!(":unsound:S2:{PADFLAG}")) {
            Failure::new(PADFLAG_SIG, format!("{name}: {}", f.detail))
        } else {
            f
        }
    })?;
    let nt = st.rejected + st.accepted_correct > 0;
    Ok(with_s2_stats(Verdict::of(nt, "S2").with(name), &st))
}

/// F19 probe: pair faults (quotient hint := floor(p/d), remainder hint :=
/// x + (p mod d)) over the pairs (i < max_idx, j < 4) of assignment indices.
pub fn f19_probe(op: &NOp, x: &BigUint, max_idx: usize) -> CaseResult {
    let d = match &op.k {
        K::DivRem(d, None) | K::Rem(d, None) => d.clone(),
        _ => panic!("harness: f19_probe needs div_rem/rem with the default bound"),
    };
    let pm = p();
    let m = &pm % &d;
    if d < big(2) || *x >= &d - &m {
        return Ok(Verdict::trivial("precondition-not-met"));
    }
    let (q_adv, r_adv) = (big_to_f(&(&pm / &d)), big_to_f(&(x + &m)));
    let n_pub = op.n_public();
    let xs = [x.clone()];
    let honest = run_faulted(op, &xs, n_pub, HashMap::new());
    if !honest.outcome.accepted() {
        return Err(Failure::new(format!("{}:incomplete:{}", op.name(), honest.outcome.label()), format!("x={x}: {:?}", honest.outcome)));
    }
    // the remainder hint is assigned right after the dividend (one of the
    // first few assignments), the quotient hint somewhere after the
    // remainder's range check: j ranges over the first 4 indices, i over the
    // first `max_idx`.
    let n = honest.log.len().min(max_idx);
    let fam = if matches!(op.k, K::DivRem(..)) { "div_rem" } else { "rem" };
    for j in 0..n.min(4) {
        for i in 0..n {
            if i == j {
                continue;
            }
            let plan = HashMap::from([(i, Fault::Set(q_adv)), (j, Fault::Set(r_adv))]);
            let r = run_faulted(op, &xs, n_pub, plan);
            if r.outcome.accepted() && !op.judge(&r.public) {
                let cls = op.classify(&r.public).unwrap_or_else(|| "unclassified".into());
                return Err(Failure::new(
                    format!("{fam}(d=..,bound=None):unsound:S2:{cls}"),
                    format!(
                        "{}: x={x}; plan {{assign#{i} := floor(p/d), assign#{j} := x + (p mod d)}} (cells col={} row={:?} / col={} row={:?}) is accepted by MockProver; exposed {:?}, correct would be {:?}",
                        op.name(),
                        honest.log[i].column,
                        honest.log[i].abs_row,
                        honest.log[j].column,
                        honest.log[j].abs_row,
                        r.public,
                        op.reference(&xs)
                    ),
                ));
            }
        }
    }
    Ok(Verdict::nontrivial("no-wraparound-witness-found").with(op.name()))
}

// ---------------------------------------------------------------------------
// catalogue

pub struct Family {
    pub name: &'static str,
    pub ops: Vec<NOp>,
}

/// Class / signature of the `padding_flag` finding.
pub const PADFLAG: &str = "padding_flag(0<len<=A)";
pub const PADFLAG_SIG: &str = "padding_flag(0<len<=A):accepts-wrong-flags";

pub const CHUNK_SIZES_SMALL: [usize; 8] = [1, 7, 8, 9, 31, 32, 33, 63];
pub const CHUNK_SIZES_BIG: [usize; 6] = [64, 65, 96, 127, 128, 200];

pub fn catalogue() -> Vec<Family> {
    use Ty::*;
    let pm = p();
    let pm1 = &pm - big(1);
    let half = (&pm - big(1)) / big(2);
    let n = NOp::new;
    let mut fams = vec![];

    let b = |v: &[u64]| v.iter().map(|x| big(*x)).collect::<Vec<_>>();
    fams.push(Family {
        name: "arith",
        ops: vec![
            n(K::Add),
            n(K::Sub),
            n(K::Mul(None)),
            n(K::Mul(Some(big(0)))),
            n(K::Mul(Some(big(1)))),
            n(K::Mul(Some(big(7)))),
            n(K::Mul(Some(pm1.clone()))),
            n(K::Div),
            n(K::Neg),
            n(K::Inv),
            n(K::Inv0),
            n(K::AddConst(big(0))),
            n(K::AddConst(big(1))),
            n(K::AddConst(pm1.clone())),
            n(K::AddConsts(vec![])),
            n(K::AddConsts(vec![big(1), big(0), pm1.clone(), big(5)])),
            n(K::AddConsts(b(&[3, 4, 5, 6, 7]))),
            n(K::MulConst(big(0))),
            n(K::MulConst(big(1))),
            n(K::MulConst(big(2))),
            n(K::MulConst(pm1.clone())),
            n(K::Square),
            n(K::Pow(0)),
            n(K::Pow(1)),
            n(K::Pow(2)),
            n(K::Pow(5)),
            n(K::Pow(u64::MAX)),
            n(K::AddAndMul([big(1), big(1), big(0), big(0), big(1)])),
            n(K::AddAndMul([big(2), pm1.clone(), big(3), big(7), big(5)])),
            n(K::AddAndMul([big(0), big(0), big(0), big(0), big(0)])),
            n(K::LinComb(vec![], big(5))),
            n(K::LinComb(b(&[1]), big(0))),
            n(K::LinComb(b(&[0, 0]), big(3))),
            n(K::LinComb(b(&[1, 2, 3, 4]), big(0))),
            n(K::LinComb(b(&[1, 2, 3, 4, 5]), big(1))),
            n(K::LinComb(vec![big(100), big(10), big(1), big(0), pm1.clone(), pow2(64), big(7), big(8), big(9)], pm1.clone())),
        ],
    });

    let mut eq = vec![n(K::IsZero)];
    let mut asrt = vec![n(K::AssertZero), n(K::AssertNonZero), n(K::AssertTrue), n(K::AssertFalse)];
    for t in [Nat, Bit, Byte] {
        eq.push(n(K::IsEq(t)));
        eq.push(n(K::IsNeq(t)));
        asrt.push(n(K::AssertEq(t)));
        asrt.push(n(K::AssertNeq(t)));
        asrt.push(n(K::CondAssertEq(t)));
        let consts: Vec<BigUint> = match t {
            Nat => vec![big(0), big(1), pm1.clone(), half.clone()],
            Bit => vec![big(0), big(1)],
            Byte => vec![big(0), big(77), big(255)],
        };
        for c in consts {
            eq.push(n(K::IsEqFixed(t, c.clone())));
            eq.push(n(K::IsNeqFixed(t, c.clone())));
            asrt.push(n(K::AssertEqFixed(t, c.clone())));
            asrt.push(n(K::AssertNeqFixed(t, c)));
        }
    }
    fams.push(Family { name: "equality", ops: eq });
    fams.push(Family { name: "assertions", ops: asrt });

    let mut bin = vec![n(K::Not)];
    for k in [1usize, 2, 3, 6] {
        bin.extend([n(K::And(k)), n(K::Or(k)), n(K::Xor(k))]);
    }
    fams.push(Family { name: "binary", ops: bin });

    let mut bw = vec![];
    for k in [1usize, 8, 9, 64] {
        bw.extend([n(K::Band(k)), n(K::Bor(k)), n(K::Bxor(k)), n(K::Bnot(k))]);
    }
    bw.extend([n(K::Band(128)), n(K::Bnot(200)), n(K::Bnot(254))]);
    fams.push(Family { name: "bitwise", ops: bw });

    let mut dec = vec![n(K::Sgn0)];
    for k in [Some(0usize), Some(1), Some(7), Some(8), Some(9), Some(64), Some(254), Some(255), None] {
        dec.push(n(K::ToBits { n: k, canon: true, be: false }));
    }
    dec.push(n(K::ToBits { n: None, canon: false, be: false }));
    dec.push(n(K::ToBits { n: Some(8), canon: false, be: false }));
    dec.push(n(K::ToBits { n: Some(8), canon: true, be: true }));
    dec.push(n(K::ToBits { n: None, canon: true, be: true }));
    for k in [Some(1usize), Some(2), Some(8), Some(31), Some(32), None] {
        dec.push(n(K::ToBytes { n: k, be: false }));
    }
    dec.push(n(K::ToBytes { n: Some(2), be: true }));
    dec.push(n(K::ToBytes { n: None, be: true }));
    for c in CHUNK_SIZES_SMALL {
        dec.push(n(K::ToChunks { c, n: None }));
        dec.push(n(K::ToChunks { c, n: Some(if c == 1 { 8 } else { 3 }) }));
    }
    dec.push(n(K::ToChunks { c: 63, n: Some(4) }));
    dec.push(n(K::ToChunks { c: 8, n: Some(1) }));
    for k in [0usize, 1, 8, 255, 256, 300] {
        dec.push(n(K::FromBits { n: k, be: false }));
    }
    dec.push(n(K::FromBits { n: 8, be: true }));
    dec.push(n(K::FromBits { n: 256, be: true }));
    for k in [0usize, 1, 4, 31, 32, 33] {
        dec.push(n(K::FromBytes { n: k, be: false }));
    }
    dec.push(n(K::FromBytes { n: 4, be: true }));
    dec.push(n(K::FromBytes { n: 33, be: true }));
    fams.push(Family { name: "decomposition", ops: dec });

    let mut can = vec![];
    for k in [1usize, 8, 254, 255, 256] {
        can.push(n(K::IsCanonical(k)));
    }
    let bounds: Vec<(usize, BigUint)> = vec![
        (0, big(0)),
        (0, big(1)),
        (1, big(1)),
        (4, big(16)),
        (8, big(0)),
        (8, big(17)),
        (8, big(255)),
        (8, big(256)),
        (8, big(300)),
        (64, pow2(63) + big(1)),
        (255, pm.clone()),
        (255, pm1.clone()),
        (255, (&pm + big(1)) / big(2)),
        (255, pow2(254)),
    ];
    for (k, bd) in bounds {
        can.push(n(K::BitsLt(k, bd.clone())));
        can.push(n(K::BitsGeq(k, bd)));
    }
    fams.push(Family { name: "canonicity", ops: can });

    let rbounds: Vec<BigUint> = vec![
        big(1),
        big(2),
        big(3),
        big(5),
        big(255),
        big(256),
        big(257),
        pow2(16) - big(1),
        pow2(16),
        pow2(16) + big(1),
        pow2(64),
        pow2(64) + big(1),
        pow2(128) - big(1),
        pow2(253),
        pow2(254),
        pow2(254) + big(1),
        half.clone(),
        &half + big(1),
        pm1.clone(),
        pm.clone(),
    ];
    let mut rng_ops = vec![];
    for bd in &rbounds {
        rng_ops.push(n(K::AssertLt(bd.clone())));
    }
    for bd in [big(1), big(2), big(5), big(256), big(1000), pow2(64), pow2(64) + big(1), pow2(254), pm1.clone(), pm.clone()] {
        rng_ops.push(n(K::AssignLt(bd)));
    }
    for (a, c) in [(big(256), big(100)), (big(100), big(256)), (big(5), big(5)), (pow2(64), pow2(64) + big(1)), (pow2(64) + big(1), pow2(64))] {
        rng_ops.push(n(K::AssertLt2(a, c)));
    }
    fams.push(Family { name: "range", ops: rng_ops });

    let mut cmp = vec![];
    for k in [1usize, 8, 64, 253] {
        cmp.push(n(K::Cmp { op: CmpOp::Lt, nx: k, ny: k }));
    }
    cmp.push(n(K::Cmp { op: CmpOp::Lt, nx: 8, ny: 16 }));
    cmp.push(n(K::Cmp { op: CmpOp::Lt, nx: 200, ny: 9 }));
    for (o, ks) in [(CmpOp::Leq, [8usize, 253]), (CmpOp::Geq, [8, 64]), (CmpOp::Gt, [8, 128])] {
        for k in ks {
            cmp.push(n(K::Cmp { op: o, nx: k, ny: k }));
        }
    }
    let fixed: Vec<(CmpOp, usize, BigUint)> = vec![
        (CmpOp::Lt, 8, big(0)),
        (CmpOp::Lt, 8, big(1)),
        (CmpOp::Lt, 8, big(100)),
        (CmpOp::Lt, 8, big(255)),
        (CmpOp::Lt, 8, big(256)),
        (CmpOp::Lt, 8, big(300)),
        (CmpOp::Lt, 64, pow2(63)),
        (CmpOp::Lt, 253, pow2(252) + big(1)),
        (CmpOp::Leq, 8, big(0)),
        (CmpOp::Leq, 8, big(254)),
        (CmpOp::Leq, 8, big(255)),
        (CmpOp::Leq, 64, pow2(64) - big(1)),
        (CmpOp::Geq, 8, big(1)),
        (CmpOp::Geq, 8, big(128)),
        (CmpOp::Geq, 16, pow2(16) - big(1)),
        (CmpOp::Gt, 8, big(0)),
        (CmpOp::Gt, 8, big(254)),
        (CmpOp::Gt, 8, big(255)),
    ];
    for (o, k, c) in fixed {
        cmp.push(n(K::CmpFixed { op: o, n: k, c }));
    }
    for k in [1u32, 8, 64, 127, 253] {
        cmp.push(n(K::StdLowerThan(k)));
    }
    for k in [0usize, 1, 8, 253] {
        cmp.push(n(K::Bounded(k)));
    }
    fams.push(Family { name: "comparison", ops: cmp });

    let mut cf = vec![];
    for t in [Nat, Bit, Byte] {
        cf.push(n(K::Select(t)));
        cf.push(n(K::CondSwap(t)));
    }
    cf.extend([n(K::BitToNat), n(K::NatToBit), n(K::ByteToNat), n(K::NatToByte), n(K::ByteNatByte)]);
    fams.push(Family { name: "control+conversion", ops: cf });

    // constant cells as operands (assign_fixed instead of a witness): the chips recognise cached
    // constant cells and shortcut
    let mut fx = vec![];
    let pm1c = &p() - big(1);
    for pos in 0..2usize {
        for c in [big(0), big(1), pm1c.clone()] {
            for k in [K::Add, K::Sub, K::Mul(None), K::Mul(Some(big(1))), K::Mul(Some(big(3))), K::Mul(Some(pm1c.clone())), K::Div, K::IsEq(Nat), K::AssertEq(Nat)] {
                if matches!(k, K::Div) && pos == 1 && c.is_zero() {
                    continue;
                }
                fx.push(NOp::with_fixed(k, pos, c.clone()));
            }
        }
        for c in [big(0), big(1)] {
            for k in [K::And(2), K::Or(2), K::Xor(2), K::IsEq(Bit)] {
                fx.push(NOp::with_fixed(k, pos, c.clone()));
            }
        }
    }
    for c in [big(0), big(1)] {
        fx.push(NOp::with_fixed(K::Select(Nat), 0, c.clone()));
        fx.push(NOp::with_fixed(K::CondSwap(Nat), 0, c.clone()));
        fx.push(NOp::with_fixed(K::Not, 0, c.clone()));
    }
    for c in [big(0), big(1), pm1c.clone()] {
        for k in [K::Neg, K::Inv0, K::IsZero, K::Square, K::AddConst(big(5)), K::MulConst(big(3))] {
            fx.push(NOp::with_fixed(k, 0, c.clone()));
        }
    }
    fams.push(Family { name: "constant-operands", ops: fx });

    // bound bookkeeping across two operations on the same cell: thresholds around the cached bound
    let mut ch = vec![];
    let prods = vec![Prod::Byte, Prod::Bit, Prod::EqByte, Prod::AssertLt(big(5)), Prod::AssertLt(big(100)), Prod::AssertLt(big(257)), Prod::AssertLt(pow2(64) + big(1)), Prod::Bounded(1), Prod::Bounded(8), Prod::Bounded(13)];
    for a in prods {
        let bd = a.bound();
        let bits = (&bd - big(1)).bits().max(1) as usize;
        for t in [&bd - big(1), bd.clone(), &bd + big(1)] {
            if t.is_zero() {
                continue;
            }
            for op in [CmpOp::Lt, CmpOp::Leq, CmpOp::Geq, CmpOp::Gt] {
                // the comparisons with a fixed value are defined through lower_than_fixed(c) / lower_than_fixed(c + 1)
                let c = if matches!(op, CmpOp::Leq | CmpOp::Gt) { &t - big(1) } else { t.clone() };
                ch.push(n(K::Chain(a.clone(), Cons::CmpFixed(op, bits, c.clone()))));
                if op == CmpOp::Lt {
                    ch.push(n(K::Chain(a.clone(), Cons::CmpFixed(op, bits + 1, c))));
                }
            }
            ch.push(n(K::Chain(a.clone(), Cons::AssertLt(t))));
        }
        ch.push(n(K::Chain(a.clone(), Cons::ToByte)));
        ch.push(n(K::Chain(a.clone(), Cons::ToBit)));
        for m in [bits.saturating_sub(1).max(1), bits, bits + 1] {
            ch.push(n(K::Chain(a.clone(), Cons::Bounded(m))));
        }
    }
    let mut seen = std::collections::HashSet::new();
    ch.retain(|o| seen.insert(o.name()));
    fams.push(Family { name: "bound-bookkeeping", ops: ch });

    let mut dv = vec![];
    for d in [big(1), big(2), big(3), big(5), big(7), big(256), big(1000), pow2(64), pow2(128) + big(1), half.clone(), pm1.clone()] {
        dv.push(n(K::DivRem(d, None)));
    }
    for (d, bd) in [(big(5), pow2(16) - big(1)), (big(7), big(1000)), (big(256), pow2(32)), (big(3), big(3)), (big(1000), pow2(64)), (big(2), pow2(253)), (big(1), big(10))] {
        dv.push(n(K::DivRem(d, Some(bd))));
    }
    for d in [big(2), big(5), big(1000)] {
        dv.push(n(K::Rem(d, None)));
    }
    dv.push(n(K::Rem(big(7), Some(big(255)))));
    dv.push(n(K::Rem(big(4), Some(big(8)))));
    fams.push(Family { name: "division", ops: dv });

    let mut vc = vec![];
    for (i, (m, a, l2)) in VEC_SHAPES.iter().enumerate() {
        let byte = i % 2 == 1;
        vc.push(n(K::Vector { m: *m, a: *a, byte, filler: None, act: VecAct::Limits, small: false }));
        vc.push(n(K::Vector { m: *m, a: *a, byte: !byte, filler: Some(9), act: VecAct::Limits, small: false }));
        vc.push(n(K::Vector { m: *m, a: *a, byte, filler: None, act: VecAct::Resize(*l2), small: false }));
        let trims: Vec<usize> = if *m <= 6 { (0..=*m).collect() } else { vec![0, 1, 3, 4, 5, 8] };
        for t in trims {
            vc.push(n(K::Vector { m: *m, a: *a, byte, filler: None, act: VecAct::Trim(t), small: false }));
        }
    }
    fams.push(Family { name: "vector", ops: vc });

    fams.push(Family {
        name: "map",
        ops: vec![
            n(K::MapGet(vec![])),
            n(K::MapGet(vec![(7, 11)])),
            n(K::MapGet(vec![(1, 5), (2, 6), (1, 9), (3, 0), (1000, 1)])),
            n(K::MapInsertGet(vec![])),
            n(K::MapInsertGet(vec![(1, 5), (2, 6)])),
        ],
    });

    // range-check configurations: pow2range columns 1..4 x table sizes
    let mut cfg = vec![];
    for (cols, mbl) in [(1u8, 9u8), (2, 8), (3, 8), (4, 8), (2, 10), (4, 11)] {
        for k in [
            K::ToBits { n: Some(9), canon: true, be: false },
            K::ToBytes { n: Some(5), be: false },
            K::ToChunks { c: 13, n: Some(5) },
            K::ToChunks { c: 33, n: None },
            K::AssertLt(big(257)),
            K::AssignLt(pow2(64) + big(1)),
            K::StdLowerThan(64),
            K::DivRem(big(7), Some(big(1000))),
            K::IsEq(Byte),
        ] {
            cfg.push(NOp::with_cfg(k, cols, mbl));
        }
    }
    fams.push(Family { name: "range-config", ops: cfg });

    fams
}

/// F18 parameterisations: chunk sizes >= 64 bits.
pub fn f18_ops() -> Vec<NOp> {
    let mut v = vec![];
    for c in CHUNK_SIZES_BIG {
        v.push(NOp::new(K::ToChunks { c, n: None }));
        v.push(NOp::new(K::ToChunks { c, n: Some(1) }));
    }
    v.push(NOp::new(K::ToChunks { c: 64, n: Some(3) }));
    v
}

/// Parameterisations hitting the `padding_flag` finding (payload entirely in
/// the last chunk: final length in 1..=A).
pub fn padflag_ops() -> Vec<NOp> {
    let mut v = vec![];
    for (i, (m, a, l2)) in VEC_SHAPES.iter().enumerate() {
        let byte = i % 2 == 1;
        v.push(NOp::new(K::Vector { m: *m, a: *a, byte, filler: None, act: VecAct::Limits, small: true }));
        v.push(NOp::new(K::Vector { m: *m, a: *a, byte, filler: None, act: VecAct::Resize(*l2), small: true }));
        for t in [1usize, *m - 1] {
            v.push(NOp::new(K::Vector { m: *m, a: *a, byte, filler: None, act: VecAct::Trim(t), small: true }));
        }
    }
    v
}

/// For the `padding_flag` finding: what does the circuit accept for these
/// inputs (honest synthesis, public values read back)? Violation iff it is
/// accepted with flags that differ from the documented definition.
pub fn padflag_probe(op: &NOp, c: &Case) -> CaseResult {
    let (x, _) = op.inputs(c);
    let Some(inst) = op.reference(&x) else {
        return Ok(Verdict::trivial("out-of-domain"));
    };
    let r = run_faulted(op, &x, op.n_public(), HashMap::new());
    let short = |v: &[F]| v.iter().map(|f| f_to_big(f).to_string()).collect::<Vec<_>>().join(",");
    if r.outcome.accepted() && r.public != inst {
        return Err(Failure::new(
            PADFLAG_SIG,
            format!("{}: vector of length {}: the circuit is satisfied with (start,end,flags..) = [{}], the documented meaning (1 = padding, 0 = payload, payload at get_lims(len)) is [{}]", op.name(), x.len(), short(&r.public), short(&inst)),
        ));
    }
    if !r.outcome.accepted() {
        return Err(Failure::new(format!("{}:incomplete:{}", op.name(), r.outcome.label()), format!("x={x:?}: {:?}", r.outcome)));
    }
    Ok(Verdict::nontrivial("flags-correct").with(op.name()))
}

/// F19 probes: (op, dividend) with dividend < d - (p mod d).
pub fn f19_items() -> Vec<(NOp, BigUint)> {
    let pm = p();
    let mut v = vec![];
    for d in [2u64, 3, 5, 7, 1000] {
        let d = big(d);
        let lim = &d - (&pm % &d);
        for x in [big(0), &lim - big(1)] {
            if x < lim {
                v.push((NOp::new(K::DivRem(d.clone(), None)), x.clone()));
            }
        }
        v.push((NOp::new(K::Rem(d.clone(), None)), big(0)));
    }
    v
}

// ---------------------------------------------------------------------------
// catalogue visiting (C08 / C09 reuse)

/// Calls `v.visit(&op, &inputs)` once per op of the C04 catalogue with 3–6
/// (quick: up to 4) distinct in-domain input tuples that steer the
/// data-dependent branches of the off-circuit helpers differently: all-zero
/// operands, p-1 (wrap-around / carries), pivot-1 / pivot (boundary bit sizes,
/// bound-1 / bound), equal operands, uniform values; for vectors the empty,
/// the full and intermediate lengths. Parameterisations that hit known defects
/// (chunk sizes >= 64 bits, vectors whose payload lies entirely in the last
/// chunk) are not visited.
pub fn visit_ops<V: OpVisitor>(v: &mut V, quick: bool, seed: u64) {
    let want = if quick { 4 } else { 6 };
    // class schedules for the first operands: zero, p-1, pivot-1, pivot,
    // equal operands, adjacent operands, uniform
    let schedules: [[u8; 4]; 8] = [[0, 0, 0, 0], [8, 8, 1, 1], [4, 4, 4, 4], [5, 12, 12, 12], [17, 12, 17, 12], [15, 13, 15, 13], [1, 0, 2, 1], [17, 17, 17, 17]];
    for fam in catalogue() {
        for op in &fam.ops {
            let mut rng = SplitMix(vpcore::derive_seed(&["C04", "visit", &op.name()], seed));
            let mut inputs: Vec<Vec<BigUint>> = vec![];
            let mut attempt = 0;
            while inputs.len() < want && attempt < 64 {
                let picks: Vec<(u8, u64)> = if attempt < schedules.len() {
                    // r with its top bits set keeps operands inside the domain
                    schedules[attempt].iter().map(|c| (*c, rng.next_u64() | (7 << 61))).collect()
                } else {
                    (0..4).map(|_| ((rng.next_u64() % N_CLS as u64) as u8, rng.next_u64() | (7 << 61))).collect()
                };
                let c = Case { op: op.name(), picks, seed: rng.next_u64() };
                let (x, _) = op.inputs(&c);
                if op.model(&x).is_some() && !inputs.contains(&x) {
                    inputs.push(x);
                }
                attempt += 1;
            }
            if !inputs.is_empty() {
                v.visit(op, &inputs);
            }
        }
    }
}

// ---------------------------------------------------------------------------
// targeted adversarial strategies beyond single faults

/// "Flip the output, search one repairing cell" (a small stand-in for the S3
/// search of the design): find the assignments whose fault changes an exposed
/// output, then for each of them (at most `cap_j`) try every other assignment
/// with a few values as the second fault. Catches dropped hint equations
/// (e.g. `is_zero`: res := 1, aux := 0) that single faults cannot reach.
pub fn check_flip_repair(op: &NOp, x: &[BigUint], cap_n: usize, cap_j: usize) -> CaseResult {
    let name = op.name();
    let Some(inst) = op.reference(x) else {
        return Ok(Verdict::trivial("out-of-domain-input-skipped"));
    };
    let n_in = op.n_input_scalars();
    if inst.len() == n_in {
        return Ok(Verdict::trivial("no-outputs"));
    }
    let honest = run_faulted(op, x, inst.len(), HashMap::new());
    if !honest.outcome.accepted() || honest.public != inst {
        return Err(Failure::new(format!("{name}:readback-mismatch"), format!("honest run with read-back: outcome {:?}, public {:?} vs reference {:?}", honest.outcome, honest.public, inst)));
    }
    let n = honest.log.len();
    if n == 0 || n > cap_n {
        return Ok(Verdict::trivial("too-wide-for-flip-repair"));
    }
    let mut st = S2Stats::default();
    let one = F::from(1);
    // output-carrying assignments
    let mut carriers = vec![];
    for j in (0..n).rev() {
        let r = run_faulted(op, x, inst.len(), HashMap::from([(j, Fault::Add(one))]));
        st.runs += 1;
        if matches!(r.outcome, Outcome::Accept | Outcome::Reject(_)) && r.public.len() == inst.len() && r.public[..n_in] == inst[..n_in] && r.public[n_in..] != inst[n_in..] {
            carriers.push(j);
        }
        if r.outcome.accepted() && !op.judge(&r.public) {
            return Err(Failure::new(format!("{name}:unsound:S2:{}", op.classify(&r.public).unwrap_or_else(|| "unclassified".into())), format!("x={x:?}, single fault {{{j}: Add(1)}} accepted, exposing {:?}", r.public)));
        }
    }
    carriers.truncate(cap_j);
    for &j in &carriers {
        for fj in [Fault::OneMinus, Fault::Add(one), Fault::Set(F::from(0))] {
            for i in 0..n {
                if i == j {
                    continue;
                }
                for fi in [Fault::Set(F::from(0)), Fault::Set(one), Fault::OneMinus, Fault::Add(one), Fault::Add(-one)] {
                    let plan = HashMap::from([(j, fj), (i, fi)]);
                    let r = run_faulted(op, x, inst.len(), plan);
                    st.runs += 1;
                    match &r.outcome {
                        Outcome::Accept => {
                            if op.judge(&r.public) {
                                st.accepted_correct += 1;
                            } else {
                                let cls = op.classify(&r.public).unwrap_or_else(|| "unclassified".into());
                                return Err(Failure::new(
                                    format!("{name}:unsound:S2:{cls}"),
                                    format!(
                                        "flip+repair: inputs x={x:?}; plan {{assign#{j} (col {} row {:?}): {fj:?}, assign#{i} (col {} row {:?}): {fi:?}}} is accepted by MockProver; exposed {:?}; honest instance {inst:?}",
                                        honest.log[j].column, honest.log[j].abs_row, honest.log[i].column, honest.log[i].abs_row, r.public
                                    ),
                                ));
                            }
                        }
                        Outcome::Reject(_) => st.rejected += 1,
                        _ => st.aborted += 1,
                    }
                }
            }
        }
    }
    let nt = !carriers.is_empty() && st.rejected + st.accepted_correct > 0;
    Ok(with_s2_stats(Verdict::of(nt, "flip+repair").with(name), &st))
}

pub fn run_flip(op: &NOp, c: &Case, cap_n: usize, cap_j: usize) -> CaseResult {
    let (x, _) = op.inputs(c);
    check_flip_repair(op, &x, cap_n, cap_j)
}

/// Canonicity probe for the full-width canonical bit decomposition
/// (`assigned_to_le_bits(x, None, true)`, also behind `assigned_to_le_bytes(x,
/// None)` and `sgn0`-free callers): for x < 2^255 - p the integer x + p has a
/// second 255-bit representation. The probe rewrites the whole decomposition
/// region (every limb and every running remainder of the linear combination)
/// to that representation through a multi-fault plan; the circuit must reject.
pub fn noncanonical_probe(op: &NOp, x: &BigUint) -> CaseResult {
    let name = op.name();
    let pm = p();
    if x + &pm >= pow2(255) {
        return Ok(Verdict::trivial("single-representation"));
    }
    let xs = [x.clone()];
    let Some(inst) = op.reference(&xs) else {
        return Ok(Verdict::trivial("out-of-domain"));
    };
    let honest = run_faulted(op, &xs, inst.len(), HashMap::new());
    if !honest.outcome.accepted() {
        return Err(Failure::new(format!("{name}:incomplete:{}", honest.outcome.label()), format!("x={x}: {:?}", honest.outcome)));
    }
    // the decomposition region: starting right after the input assignment,
    // rows (result_r in column c0, limb_r in another column), offsets 0..254
    let log = &honest.log;
    let alt = x + &pm;
    let mut plan = HashMap::new();
    let mut rem = x.clone(); // running remainder, row 0 holds x itself
    let mut idx = 1;
    let mut row = 0usize;
    while row < 255 && idx + 1 < log.len() {
        let (a, b) = (&log[idx], &log[idx + 1]);
        if a.offset != row || b.offset != row || a.column == b.column {
            break;
        }
        let bit = alt.bit(row as u64);
        if row > 0 {
            plan.insert(idx, Fault::Set(big_to_f(&rem)));
        }
        plan.insert(idx + 1, Fault::Set(F::from(bit as u64)));
        // next remainder: rem - 2^row * bit (mod p)
        rem = sub_mod(&rem, &(if bit { pow2(row) % &pm } else { big(0) }));
        idx += 2;
        row += 1;
    }
    if row != 255 {
        return Ok(Verdict::trivial(format!("layout-not-recognised(rows={row})")));
    }
    let r = run_faulted(op, &xs, inst.len(), plan);
    match &r.outcome {
        Outcome::Accept if !op.judge(&r.public) => Err(Failure::new(
            format!("{name}:unsound:noncanonical-representation"),
            format!("x={x}: the decomposition of x+p (all 255 limbs and running remainders rewritten) is accepted by MockProver; exposed {:?}", &r.public[..r.public.len().min(12)]),
        )),
        Outcome::Accept => Ok(Verdict::trivial("accepted-with-correct-public-values(plan-had-no-effect?)").with(name)),
        Outcome::Reject(_) => Ok(Verdict::nontrivial("noncanonical-witness-rejected").with(name)),
        _ => Ok(Verdict::trivial("aborted").with(name)),
    }
}
