#!/bin/bash
# stage_seed.sh <tag e.g. c11c> <seed id e.g. C11-3>: copies the sub-agent's deliverables into seeded/<id>/ and removes its scratch worktree
T=$1; ID=$2
mkdir -p /verif/seeded/$ID && cp -r /tmp/seedout-$T/patch.diff /tmp/seedout-$T/meta.json /tmp/seedout-$T/demo /verif/seeded/$ID/ && git -C /repo worktree remove --force /tmp/seedwt-$T; rm -rf /tmp/seedwt-$T /tmp/seedout-$T; ls /verif/seeded/$ID/demo
