//! C02 — the verifier enforces every constraint class and agrees with the
//! mock checker.
//!
//! Generator: E1 spec x honest plan x one fault: a plain advice assignment or an
//! instance cell, fault value in {+1, 0, swap with neighbour, random}. The
//! fault is applied to the plan before MockProver and create_proof see it.
//! Oracles: (a) verdict(real prover+verifier) == verdict(MockProver) on every
//! case; (b) a fault that violates a constraint according to the harness's
//! own evaluation of the plan (Plan::violated: gate equations, lookup
//! membership, copies, pinned constants, instance links) is rejected by both;
//! (c) a fault that violates nothing (unused cell, unread instance cell,
//! absorbed by a zero coefficient/factor) is accepted by both.

use ff::Field;
use midnight_proofs::transcript::{CircuitTranscript, Transcript};
use proptest::prelude::*;
use serde::{Deserialize, Serialize};
use vp_plonk::{
    e1::{build_plan, expand, knobs_strategy, Knobs, Plan, Spec, F},
    pv::{self, Blake, Poseidon},
};
use vpcore::{idx, CaseResult, Failure, SplitMix, Verdict};

#[derive(Clone, Debug, Serialize, Deserialize)]
struct FaultKnob {
    site: u16,
    kind: u8,
    rnd: u64,
    instance: bool,
}

#[derive(Clone, Debug, Serialize, Deserialize)]
struct Case {
    knobs: Knobs,
    wseed: u64,
    poseidon: bool,
    faults: Vec<FaultKnob>,
}

fn strategy(max_ops: usize, nfaults: usize) -> BoxedStrategy<Case> {
    let fault = (any::<u16>(), 0u8..4, any::<u64>(), proptest::bool::weighted(0.2))
        .prop_map(|(site, kind, rnd, instance)| FaultKnob { site, kind, rnd, instance });
    (knobs_strategy(max_ops), any::<u64>(), any::<bool>(), proptest::collection::vec(fault, 1..=nfaults))
        .prop_map(|(knobs, wseed, poseidon, faults)| Case { knobs, wseed, poseidon, faults })
        .boxed()
}

fn real_verdict(spec: &Spec, pk: &midnight_proofs::plonk::ProvingKey<F, pv::CS>, vk: &midnight_proofs::plonk::VerifyingKey<F, pv::CS>, plan: &Plan, poseidon: bool, seed: u64) -> Result<(), String> {
    let st = pv::statement(vk, spec, &[plan.instances.clone()], 0);
    if poseidon {
        let mut t = CircuitTranscript::<Poseidon>::init();
        pv::prove(pk, spec, std::slice::from_ref(plan), 0, seed, &mut t)?;
        let proof = t.finalize();
        let mut t = CircuitTranscript::<Poseidon>::init_from_bytes(&proof);
        pv::verify(vk, spec.k, &st, &mut t)
    } else {
        let mut t = CircuitTranscript::<Blake>::init();
        pv::prove(pk, spec, std::slice::from_ref(plan), 0, seed, &mut t)?;
        let proof = t.finalize();
        let mut t = CircuitTranscript::<Blake>::init_from_bytes(&proof);
        pv::verify(vk, spec.k, &st, &mut t)
    }
}

enum Target {
    Advice(usize, usize),
    Instance(usize, usize),
}

struct World<'a> {
    spec: &'a Spec,
    honest: &'a Plan,
    pk: &'a midnight_proofs::plonk::ProvingKey<F, pv::CS>,
    vk: &'a midnight_proofs::plonk::VerifyingKey<F, pv::CS>,
    sites: &'a [(usize, usize)],
    inst_sites: &'a [(usize, usize)],
    poseidon: bool,
}

/// One single-cell fault: the three verdicts must agree. Returns (label, the fault violates a constraint).
fn judge_fault(w: &World, target: Target, kind: u8, rnd: u64) -> Result<(String, bool), Failure> {
    let (spec, honest) = (w.spec, w.honest);
    let mut plan = honest.clone();
    let mut rng = SplitMix(rnd);
    let classes: Vec<&'static str>;
    let desc;
    match target {
        Target::Instance(col, row) => {
            let old = plan.instances[col][row];
            let pos = w.inst_sites.iter().position(|s| *s == (col, row)).unwrap_or(0);
            let new = match kind {
                0 => old + F::ONE,
                1 => if old == F::ZERO { F::ONE } else { F::ZERO },
                2 => {
                    let (c2, r2) = w.inst_sites[(pos + 1) % w.inst_sites.len()];
                    let o = plan.instances[c2][r2];
                    if o == old { old + F::ONE } else { o }
                }
                _ => old + F::from(rng.next_u64() | 1),
            };
            plan.instances[col][row] = new;
            classes = honest.classes_of_instance(col, row);
            desc = format!("instance[{col}][{row}] kind={kind}");
        }
        Target::Advice(r, i) => {
            let a = &honest.regions[r].assigns[i];
            let si = w.sites.iter().position(|s| *s == (r, i)).unwrap_or(0);
            let delta = match kind {
                0 => F::ONE,
                1 => if a.base == F::ZERO && a.chal.is_none() { F::ONE } else if a.chal.is_some() { F::ONE } else { -a.base },
                2 => {
                    let (r2, i2) = w.sites[(si + 1) % w.sites.len()];
                    let o = honest.regions[r2].assigns[i2].base;
                    if o == a.base || a.chal.is_some() { F::ONE } else { o - a.base }
                }
                _ => F::from(rng.next_u64() | 1),
            };
            plan.regions[r].assigns[i].delta = delta;
            classes = honest.classes_of(r, i);
            desc = format!("advice region={r} assign={i} col={} offset={} kind={kind}", a.col, a.offset);
        }
    }
    let violated = plan.violated(spec);
    let expect_reject = !violated.is_empty();
    let mock = pv::mock(spec, &plan);
    let real = real_verdict(spec, w.pk, w.vk, &plan, w.poseidon, rnd ^ 0x77);
    let cls = if classes.is_empty() { "none".to_string() } else { classes.join("+") };
    if mock.is_ok() != real.is_ok() {
        let which = if violated.is_empty() { "none".to_string() } else { violated.join("+") };
        return Err(Failure::new(
            format!("verdict-mismatch:mock={}:real={}:violated={which}", if mock.is_ok() { "accept" } else { "reject" }, if real.is_ok() { "accept" } else { "reject" }),
            format!("fault {desc} (classes {cls}): MockProver {:?} but prover+verifier {:?}; spec={spec:?}", mock.as_ref().err(), real.as_ref().err()),
        ));
    }
    if expect_reject && real.is_ok() {
        return Err(Failure::new(
            format!("violating-fault-accepted:{}", violated.join("+")),
            format!("fault {desc} violates {violated:?} but the proof verifies (and MockProver accepts); spec={spec:?}"),
        ));
    }
    if !expect_reject && real.is_err() {
        return Err(Failure::new(
            format!("benign-fault-rejected:{cls}"),
            format!("fault {desc} (classes {cls}) violates no constraint by the harness evaluation but is rejected: mock {:?} real {:?}; spec={spec:?}", mock.err(), real.err()),
        ));
    }
    let label = if expect_reject { format!("rejected:{}", violated.join("+")) } else if cls == "none" { "accepted:unused-cell".to_string() } else { format!("accepted:absorbed:{cls}") };
    Ok((label, expect_reject))
}

fn run(c: &Case) -> CaseResult {
    let spec = expand(&c.knobs);
    let honest = build_plan(&spec, c.wseed);
    pv::mock(&spec, &honest).map_err(|e| Failure::new("mock-rejects-honest-plan", format!("{e}; spec={spec:?}")))?;
    let (pk, vk) = pv::keygen(&spec).map_err(|e| Failure::new("keygen-fails", format!("{e}; spec={spec:?}")))?;
    let sites = honest.fault_sites();
    let inst_sites: Vec<(usize, usize)> = honest.instances.iter().enumerate().flat_map(|(c, col)| (0..col.len()).map(move |r| (c, r))).collect();
    let w = World { spec: &spec, honest: &honest, pk: &pk, vk: &vk, sites: &sites, inst_sites: &inst_sites, poseidon: c.poseidon };
    let mut verdict = Verdict::of(false, "no-fault");
    let mut any_nt = false;
    for fk in &c.faults {
        let target = if fk.instance && !inst_sites.is_empty() {
            let (col, row) = inst_sites[idx(fk.site, inst_sites.len())];
            Target::Instance(col, row)
        } else {
            if sites.is_empty() {
                continue;
            }
            let (r, i) = sites[idx(fk.site, sites.len())];
            Target::Advice(r, i)
        };
        let (label, nt) = judge_fault(&w, target, fk.kind, fk.rnd)?;
        any_nt |= nt;
        verdict = verdict.with(label);
    }
    verdict.nontrivial = any_nt;
    Ok(verdict)
}

// ---------------------------------------------------------------------------
// copy-constraint classes: several cells copied from one source, equalities declared more
// than once and either way round; every member of every class is faulted

#[derive(Clone, Debug, Serialize, Deserialize)]
struct CycleCase {
    knobs: Knobs,
    wseed: u64,
    poseidon: bool,
    /// which earlier op each op copies from (index scaled over the earlier ops)
    links: Vec<u16>,
    redundant: u8,
}

fn cycle_strategy() -> BoxedStrategy<CycleCase> {
    (knobs_strategy(8), any::<u64>(), any::<bool>(), proptest::collection::vec(any::<u16>(), 8), 1u8..=255)
        .prop_map(|(knobs, wseed, poseidon, links, redundant)| CycleCase { knobs, wseed, poseidon, links, redundant })
        .boxed()
}

fn run_cycles(c: &CycleCase) -> CaseResult {
    use vp_plonk::e1::{Check, Src};
    let mut kn = c.knobs.clone();
    kn.phases = 1;
    kn.redundant = c.redundant;
    let mut spec = expand(&kn);
    // most ops copy the output of op 0 or 1 (one big class), some of another earlier op
    for i in 1..spec.ops.len() {
        let from = match c.links[i % c.links.len()] % 4 {
            0 => idx(c.links[i % c.links.len()], i),
            1 => 1.min(i - 1),
            _ => 0,
        };
        if spec.ops[i].srcs.is_empty() {
            spec.ops[i].srcs.push(Src::Copy { op: from });
        } else {
            spec.ops[i].srcs[0] = Src::Copy { op: from };
        }
    }
    // cells that only the permutation argument constrains: filler cells copying earlier outputs
    spec.filler_copies = true;
    for (i, o) in spec.ops.iter_mut().enumerate() {
        o.filler = 1 + (c.links[i % c.links.len()] as usize >> 4) % 2;
    }
    spec.k = spec.k.max(vp_plonk::e1::min_k(&spec));
    let honest = build_plan(&spec, c.wseed);
    if pv::mock(&spec, &honest).is_err() {
        return Ok(Verdict::trivial("harness:rewired-spec-not-satisfiable"));
    }
    let (pk, vk) = pv::keygen(&spec).map_err(|e| Failure::new("keygen-fails", format!("{e}; spec={spec:?}")))?;
    let sites = honest.fault_sites();
    let inst_sites: Vec<(usize, usize)> = honest.instances.iter().enumerate().flat_map(|(c, col)| (0..col.len()).map(move |r| (c, r))).collect();
    let w = World { spec: &spec, honest: &honest, pk: &pk, vk: &vk, sites: &sites, inst_sites: &inst_sites, poseidon: c.poseidon };
    // members of copy classes
    let mut members: Vec<(usize, usize)> = vec![];
    let mut n_copies = 0;
    let mut n_rev = 0;
    for (ri, rp) in honest.regions.iter().enumerate() {
        for ch in &rp.checks {
            match ch {
                Check::Copy { here, region, there } | Check::CopyRev { here, region, there } => {
                    members.push((ri, *here));
                    members.push((*region, *there));
                    n_copies += 1;
                    if matches!(ch, Check::CopyRev { .. }) {
                        n_rev += 1;
                    }
                }
                _ => {}
            }
        }
    }
    members.sort();
    members.dedup();
    members.retain(|m| sites.contains(m));
    let mut verdict = Verdict::of(false, format!("copy-class-members:{}", match members.len() { 0 => "0", 1..=3 => "1-3", 4..=8 => "4-8", _ => "9+" }));
    let mut rejected = 0;
    for (n, (r, i)) in members.iter().enumerate() {
        let (label, nt) = judge_fault(&w, Target::Advice(*r, *i), 0, c.wseed ^ n as u64)?;
        rejected += nt as usize;
        verdict = verdict.with(label);
    }
    verdict.nontrivial = rejected >= 3;
    Ok(verdict.with(format!("equalities:{}", match n_copies { 0..=2 => "0-2", 3..=5 => "3-5", _ => "6+" })).with(if n_rev > 0 { "reversed-redundant-equality" } else { "no-reversed-equality" }))
}

fn main() {
    vpcore::main("C02", "fault_enumeration", (1800, 10800), |p| {
        p.assume("single-cell faults (one advice assignment or one instance cell differs from the honest assignment); blinding rows cannot be assigned through the public API and are not faulted");
        p.assume("harness evaluation Plan::violated decides which faults must be rejected; challenge equations are judged symbolically");
        let nfaults = p.tier.pick(6, 24);
        p.sub_cfg(
            "e1.faults",
            "E1 specs x honest plan x faults (advice assignment or instance cell; +1 / zero / neighbour's value / random): real verdict == MockProver verdict; violating faults rejected; benign faults (unused cells, absorbed) accepted; non-trivial = at least one fault of the case violates a constraint; classes = violated constraint classes per fault",
            p.tier.pick(400, 8000),
            16,
            48,
            || strategy(p.tier.pick(10, 16), nfaults),
            run,
        );
        p.sub_cfg(
            "e1.copy-classes",
            "E1 specs rewired so that most operations copy the output of one or two earlier operations (large copy classes), with redundant equalities declared between members either way round; every member of every class is faulted (+1) in turn: real verdict == MockProver verdict == harness evaluation (each such fault breaks a copy constraint and must be rejected); non-trivial = at least three members",
            p.tier.pick(160, 3000),
            16,
            24,
            cycle_strategy,
            run_cycles,
        );
    });
}
