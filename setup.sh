#!/bin/bash
# Offline build of the harness binaries of every check registered in MANIFEST.json.
# (Each ./check invocation rebuilds incrementally from /repo's working tree anyway;
# this only warms the build cache.)
cd "$(dirname "$0")"
export CARGO_NET_OFFLINE=true
ids=$(python3 -c "import json;print(' '.join(c['property_id'] for c in json.load(open('MANIFEST.json'))['checks']))")
rc=0
for id in $ids; do
  bin=$(echo "$id" | tr 'A-Z' 'a-z')
  src=$(ls harness/*/src/bin/$bin.rs 2>/dev/null | head -1)
  [ -z "$src" ] && { echo "setup: no source for $id" >&2; rc=1; continue; }
  crate=$(echo "$src" | cut -d/ -f2)
  echo "setup: building $id ($crate/$bin)"
  ( cd harness && cargo build --release --offline -p "$crate" --bin "$bin" ) >/dev/null 2>&1 || { echo "setup: build of $id failed" >&2; rc=1; }
done
exit $rc
