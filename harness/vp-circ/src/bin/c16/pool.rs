//! Parent side of the crash isolation: a pool of worker processes.

use std::io::{BufRead, BufReader, Write};
use std::os::unix::process::ExitStatusExt;
use std::process::{Child, ChildStdin, ChildStdout, Command, Stdio};
use std::sync::atomic::{AtomicU64, Ordering};
use std::sync::Mutex;

use vpcore::{CaseResult, Failure, Verdict};

use crate::types::{hex_prefix, Bundle, Case, Outcome};

struct Worker {
    child: Child,
    stdin: ChildStdin,
    stdout: BufReader<ChildStdout>,
}

pub struct Pool {
    idle: Mutex<Vec<Worker>>,
    dir: String,
    next_id: AtomicU64,
    pub spawned: AtomicU64,
    pub deaths: AtomicU64,
    pub timeouts: Mutex<Vec<String>>,
}

enum Res {
    Done(Outcome, Option<(String, u64)>),
    Died { at: String, alloc: Option<u64>, signal: Option<i32>, code: Option<i32> },
}

impl Pool {
    pub fn new(dir: &str) -> Pool {
        Pool { idle: Mutex::new(vec![]), dir: dir.into(), next_id: AtomicU64::new(1), spawned: AtomicU64::new(0), deaths: AtomicU64::new(0), timeouts: Mutex::new(vec![]) }
    }

    fn spawn(&self) -> Worker {
        let exe = std::env::current_exe().expect("current_exe");
        let mut child = Command::new(exe)
            .arg("--worker")
            .arg(&self.dir)
            .stdin(Stdio::piped())
            .stdout(Stdio::piped())
            .stderr(if std::env::var("VP_C16_DEBUG").is_ok() { Stdio::inherit() } else { Stdio::null() })
            .spawn()
            .expect("cannot spawn worker");
        self.spawned.fetch_add(1, Ordering::Relaxed);
        let stdin = child.stdin.take().unwrap();
        let stdout = BufReader::new(child.stdout.take().unwrap());
        Worker { child, stdin, stdout }
    }

    fn exchange(&self, case: &Case) -> Res {
        let mut w = self.idle.lock().unwrap().pop().unwrap_or_else(|| self.spawn());
        let id = self.next_id.fetch_add(1, Ordering::Relaxed);
        let line = serde_json::to_string(&(id, case)).unwrap();
        let mut at = String::from("<before first entry point>");
        let mut alloc: Option<(String, u64)> = None;
        let sent = writeln!(w.stdin, "{line}").and_then(|_| w.stdin.flush());
        if sent.is_ok() {
            let mut buf = String::new();
            loop {
                buf.clear();
                match w.stdout.read_line(&mut buf) {
                    Ok(0) | Err(_) => break,
                    Ok(_) => {}
                }
                let l = buf.trim_end();
                if let Some(e) = l.strip_prefix("AT ") {
                    at = e.to_string();
                } else if let Some(n) = l.strip_prefix("ALLOC ") {
                    if alloc.is_none() {
                        alloc = Some((at.clone(), n.parse().unwrap_or(0)));
                    }
                } else if let Some(rest) = l.strip_prefix("END ") {
                    if let Some((rid, js)) = rest.split_once(' ') {
                        if rid.parse::<u64>().ok() == Some(id) {
                            if let Ok(o) = serde_json::from_str::<Outcome>(js) {
                                self.idle.lock().unwrap().push(w);
                                return Res::Done(o, alloc);
                            }
                        }
                    }
                }
            }
        }
        // the worker died (or its pipe broke): reap it
        self.deaths.fetch_add(1, Ordering::Relaxed);
        let _ = w.child.kill();
        let st = w.child.wait().ok();
        Res::Died { at, alloc: alloc.map(|a| a.1), signal: st.and_then(|s| s.signal()), code: st.and_then(|s| s.code()) }
    }

    /// Runs a case in a worker and turns the answer into a `CaseResult`.
    pub fn run(&self, b: &Bundle, case: &Case) -> CaseResult {
        let report_only = case.obj.report_only();
        let tag = format!("{}:{}", case.obj.tag(), case.m.tag());
        match self.exchange(case) {
            Res::Done(o, alloc) => {
                if let Some((at, bytes)) = alloc {
                    if at.starts_with("ir-compile:") {
                        // compiling an IR program that loaded is outside the judged scope: keep the verdict, count the event
                        if let Some((sig, detail)) = o.fail {
                            return Err(Failure::new(sig, detail));
                        }
                        let mut v = Verdict::of(o.nontrivial, o.classes.first().cloned().unwrap_or(tag));
                        for c in o.classes.iter().skip(1) {
                            v = v.with(c.clone());
                        }
                        return Ok(v.with(format!("report-only:{at}:alloc")));
                    }
                    if report_only {
                        return Ok(Verdict::of(false, format!("report-only:{}:alloc:{at}", case.obj.tag())));
                    }
                    let (input, _) = b.input(case);
                    let path = save_input(&input);
                    return Err(Failure::new(format!("alloc:{at}"), format!("single allocation request of {bytes} bytes (limit 64 MiB + 64*len = {}) for an input of {} bytes; the request was refused and the caller survived; input saved to {path}: {}", (64u64 << 20) + 64 * input.len() as u64, input.len(), hex_prefix(&input, 300))));
                }
                match o.fail {
                    Some((sig, detail)) => Err(Failure::new(sig, detail)),
                    None => {
                        let mut v = Verdict::of(o.nontrivial, o.classes.first().cloned().unwrap_or(tag));
                        for c in o.classes.iter().skip(1) {
                            v = v.with(c.clone());
                        }
                        Ok(v)
                    }
                }
            }
            Res::Died { at, alloc, signal, code } => {
                if at.starts_with("ir-compile:") {
                    // the judged part (loader, used_chips) of this case had already passed when the worker died
                    let what = if alloc.is_some() { "alloc" } else if signal == Some(14) { "timeout" } else { "abort" };
                    return Ok(Verdict::of(true, tag).with("loaded").with(format!("report-only:{at}:{what}")));
                }
                if report_only {
                    let what = if alloc.is_some() { "alloc" } else if signal == Some(14) { "timeout" } else { "abort" };
                    return Ok(Verdict::of(false, format!("report-only:{}:{what}:{at}", case.obj.tag())));
                }
                let (input, _) = b.input(case);
                if signal == Some(14) {
                    // a time budget hit is never a violation
                    self.timeouts.lock().unwrap().push(format!("{tag} at {at}: no answer within {} s, input {}", crate::worker::CASE_TIMEOUT_S, hex_prefix(&input, 200)));
                    return Ok(Verdict::of(false, format!("timeout:{at}")));
                }
                let path = save_input(&input);
                match alloc {
                    Some(bytes) => Err(Failure::new(format!("alloc:{at}"), format!("single allocation request of {bytes} bytes (limit 64 MiB + 64*len = {}) for an input of {} bytes; refused, the process then aborted (signal {signal:?}); input saved to {path}: {}", (64u64 << 20) + 64 * input.len() as u64, input.len(), hex_prefix(&input, 300)))),
                    None => Err(Failure::new(format!("abort:{at}"), format!("worker process died (signal {signal:?}, exit code {code:?}) inside {at}; input ({} bytes) saved to {path}: {}", input.len(), hex_prefix(&input, 300)))),
                }
            }
        }
    }

    pub fn shutdown(&self) {
        for mut w in self.idle.lock().unwrap().drain(..) {
            drop(w.stdin);
            let _ = w.child.wait();
        }
    }
}

fn save_input(input: &[u8]) -> String {
    let dir = format!("{}/replays", vpcore::VERIF_DIR);
    let _ = std::fs::create_dir_all(&dir);
    let path = format!("{dir}/C16-input-{:016x}.bin", vpcore::digest(&input));
    let _ = std::fs::write(&path, input);
    path
}
