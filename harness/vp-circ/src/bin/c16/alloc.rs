//! Counting global allocator + raw (allocation-free) output for the C16 worker.
//!
//! While a decode guard is active (`LIMIT != 0`) any single allocation request
//! larger than the limit is logged with `write(2)` on fd 1 (`ALLOC <bytes>`)
//! and refused (null), which makes "allocation proportional to an unchecked
//! length field" an observable, machine-independent event instead of an OOM.

use std::alloc::{GlobalAlloc, Layout, System};
use std::sync::atomic::{AtomicUsize, Ordering};

pub struct CountingAlloc;

/// 0 = no guard active.
pub static LIMIT: AtomicUsize = AtomicUsize::new(0);

extern "C" {
    fn write(fd: i32, buf: *const u8, n: usize) -> isize;
    pub fn alarm(seconds: u32) -> u32;
}

/// Unbuffered, allocation-free write of a whole buffer to stdout.
pub fn raw_out(mut s: &[u8]) {
    while !s.is_empty() {
        let n = unsafe { write(1, s.as_ptr(), s.len()) };
        if n <= 0 {
            return;
        }
        s = &s[n as usize..];
    }
}

#[inline]
fn over(size: usize) -> bool {
    let lim = LIMIT.load(Ordering::Relaxed);
    if lim != 0 && size > lim {
        // "ALLOC <decimal>\n" without allocating
        let mut buf = [0u8; 40];
        let head = b"ALLOC ";
        buf[..head.len()].copy_from_slice(head);
        let mut digits = [0u8; 24];
        let mut n = size;
        let mut i = 0;
        loop {
            digits[i] = b'0' + (n % 10) as u8;
            n /= 10;
            i += 1;
            if n == 0 {
                break;
            }
        }
        let mut p = head.len();
        while i > 0 {
            i -= 1;
            buf[p] = digits[i];
            p += 1;
        }
        buf[p] = b'\n';
        raw_out(&buf[..p + 1]);
        true
    } else {
        false
    }
}

unsafe impl GlobalAlloc for CountingAlloc {
    unsafe fn alloc(&self, l: Layout) -> *mut u8 {
        if over(l.size()) {
            return std::ptr::null_mut();
        }
        System.alloc(l)
    }
    unsafe fn alloc_zeroed(&self, l: Layout) -> *mut u8 {
        if over(l.size()) {
            return std::ptr::null_mut();
        }
        System.alloc_zeroed(l)
    }
    unsafe fn realloc(&self, p: *mut u8, l: Layout, new_size: usize) -> *mut u8 {
        if over(new_size) {
            return std::ptr::null_mut();
        }
        System.realloc(p, l, new_size)
    }
    unsafe fn dealloc(&self, p: *mut u8, l: Layout) {
        System.dealloc(p, l)
    }
}

/// Runs `f` under the allocation guard and `vpcore::catch`; announces the entry
/// point first (`AT <entry>`), so that a death of the process is attributed.
pub fn guarded<T>(entry: &str, input_len: usize, f: impl FnOnce() -> T) -> Result<T, String> {
    let mut line = Vec::with_capacity(entry.len() + 4);
    line.extend_from_slice(b"AT ");
    line.extend_from_slice(entry.as_bytes());
    line.push(b'\n');
    raw_out(&line);
    LIMIT.store((64usize << 20) + 64 * input_len, Ordering::SeqCst);
    let r = vpcore::catch(f);
    LIMIT.store(0, Ordering::SeqCst);
    r
}
