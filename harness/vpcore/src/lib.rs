//! Core of the property-based verification harness: seeds, proptest runner,
//! enumeration runner, evidence, known findings, replay, panic capture.
//!
//! A property binary does:
//!
//! ```ignore
//! fn main() { vpcore::main("C10", "exploration", |p| { p.sub(...); p.enumerate(...); }) }
//! ```
//!
//! and is invoked as `<bin> quick|thorough` or `<bin> --replay <file>`.

use std::{
    cell::RefCell,
    collections::{hash_map::DefaultHasher, BTreeMap, HashSet},
    fmt::Debug,
    hash::{Hash, Hasher},
    panic::{self, AssertUnwindSafe},
    path::PathBuf,
    sync::{
        atomic::{AtomicBool, AtomicU64, Ordering},
        Mutex,
    },
    time::Instant,
};

use proptest::{
    strategy::BoxedStrategy,
    test_runner::{Config, RngAlgorithm, RngSeed, TestCaseError, TestError, TestRng, TestRunner},
};
use serde::{de::DeserializeOwned, Deserialize, Serialize};
use serde_json::{json, Value as Json};

pub use proptest;
pub use serde;
pub use serde_json;

pub const VERIF_DIR: &str = "/verif";

/// Base directory for known_findings.json, evidence/ and replays/. Always
/// /verif for registered checks; scratch evaluations of seeded changes set
/// VP_VERIF_DIR so that they do not overwrite the evidence of real runs.
pub fn verif_dir() -> String {
    std::env::var("VP_VERIF_DIR").unwrap_or_else(|_| VERIF_DIR.to_string())
}

#[derive(Clone, Copy, Debug, PartialEq, Eq)]
pub enum Tier {
    Quick,
    Thorough,
}

impl Tier {
    pub fn name(&self) -> &'static str {
        match self {
            Tier::Quick => "quick",
            Tier::Thorough => "thorough",
        }
    }
    /// Picks a size by tier.
    pub fn pick<T>(&self, quick: T, thorough: T) -> T {
        match self {
            Tier::Quick => quick,
            Tier::Thorough => thorough,
        }
    }
}

/// A failed case: `signature` is the stable identity of *what* failed (used to
/// match known findings); `detail` is free text.
#[derive(Clone, Debug, Serialize, Deserialize)]
pub struct Failure {
    pub signature: String,
    pub detail: String,
}

impl Failure {
    pub fn new(signature: impl Into<String>, detail: impl Into<String>) -> Self {
        Failure {
            signature: signature.into(),
            detail: detail.into(),
        }
    }
}

/// Result of a passing case.
#[derive(Clone, Debug)]
pub struct Verdict {
    /// Non-trivial by the sub-check's stated rule.
    pub nontrivial: bool,
    /// Class label(s) for the generator-health histogram.
    pub classes: Vec<String>,
}

impl Verdict {
    pub fn trivial(class: impl Into<String>) -> Self {
        Verdict {
            nontrivial: false,
            classes: vec![class.into()],
        }
    }
    pub fn nontrivial(class: impl Into<String>) -> Self {
        Verdict {
            nontrivial: true,
            classes: vec![class.into()],
        }
    }
    pub fn of(nontrivial: bool, class: impl Into<String>) -> Self {
        Verdict {
            nontrivial,
            classes: vec![class.into()],
        }
    }
    pub fn with(mut self, class: impl Into<String>) -> Self {
        self.classes.push(class.into());
        self
    }
}

pub type CaseResult = Result<Verdict, Failure>;

#[macro_export]
macro_rules! fail {
    ($sig:expr, $($arg:tt)*) => {
        return Err($crate::Failure::new($sig, format!($($arg)*)))
    };
}

#[macro_export]
macro_rules! ensure {
    ($cond:expr, $sig:expr, $($arg:tt)*) => {
        if !($cond) {
            return Err($crate::Failure::new($sig, format!($($arg)*)));
        }
    };
}

// ---------------------------------------------------------------------------
// Known findings

#[derive(Clone, Debug, Deserialize)]
pub struct Finding {
    pub status: String, // "known" | "fixed"
    pub property: String,
    pub id: String,
    /// Signature pattern: exact, or a glob with `*` wildcards.
    #[serde(default)]
    pub signature: String,
    pub what: String,
    #[serde(default)]
    pub commit: Option<String>,
}

#[derive(Clone, Debug, Deserialize, Default)]
pub struct Findings {
    pub findings: Vec<Finding>,
}

impl Findings {
    pub fn load() -> Self {
        let path = format!("{}/known_findings.json", verif_dir());
        match std::fs::read_to_string(&path) {
            Ok(s) => serde_json::from_str(&s).unwrap_or_else(|e| {
                eprintln!("cannot parse {path}: {e}");
                std::process::exit(2)
            }),
            Err(_) => Findings::default(),
        }
    }
    pub fn matching(&self, property: &str, signature: &str) -> Option<&Finding> {
        self.findings.iter().find(|f| {
            f.status == "known"
                && f.property == property
                && !f.signature.is_empty()
                && glob_match(&f.signature, signature)
        })
    }
}

/// Glob matching with `*` (any, possibly empty, substring). A pattern without
/// `*` must match exactly.
pub fn glob_match(pattern: &str, text: &str) -> bool {
    let parts: Vec<&str> = pattern.split('*').collect();
    if parts.len() == 1 {
        return pattern == text;
    }
    let mut rest = text;
    for (i, part) in parts.iter().enumerate() {
        if i == 0 {
            if !rest.starts_with(part) {
                return false;
            }
            rest = &rest[part.len()..];
        } else if i == parts.len() - 1 {
            return rest.ends_with(part);
        } else {
            match rest.find(part) {
                Some(pos) => rest = &rest[pos + part.len()..],
                None => return false,
            }
        }
    }
    true
}

// ---------------------------------------------------------------------------
// Panic capture

thread_local! {
    static LAST_PANIC: RefCell<Option<String>> = const { RefCell::new(None) };
    static QUIET: RefCell<bool> = const { RefCell::new(false) };
}

pub fn install_panic_hook() {
    let default = panic::take_hook();
    panic::set_hook(Box::new(move |info| {
        let loc = info
            .location()
            .map(|l| format!("{}:{}", l.file(), l.line()))
            .unwrap_or_else(|| "?".into());
        let msg = if let Some(s) = info.payload().downcast_ref::<&str>() {
            s.to_string()
        } else if let Some(s) = info.payload().downcast_ref::<String>() {
            s.clone()
        } else {
            "<non-string panic>".into()
        };
        LAST_PANIC.with(|p| *p.borrow_mut() = Some(format!("{loc}: {msg}")));
        if !QUIET.with(|q| *q.borrow()) {
            default(info);
        }
    }));
}

/// Strips the location of the repository from a panic location and keeps a
/// short message prefix: a stable identity of a panic site.
pub fn panic_signature(p: &str) -> String {
    let s = p.replace("/repo/", "");
    let mut out: String = s.chars().take(120).collect();
    // numbers inside messages vary from case to case: mask digits after the
    // location part
    if let Some(pos) = out.find(": ") {
        let (loc, msg) = out.split_at(pos);
        let masked: String = msg
            .chars()
            .map(|c| if c.is_ascii_digit() { '#' } else { c })
            .collect();
        out = format!("{loc}{masked}");
    }
    out
}

/// Runs `f`, converting a panic into `Err(location: message)`. Panic output
/// is suppressed while `f` runs.
pub fn catch<T>(f: impl FnOnce() -> T) -> Result<T, String> {
    let prev = QUIET.with(|q| q.replace(true));
    LAST_PANIC.with(|p| *p.borrow_mut() = None);
    let r = panic::catch_unwind(AssertUnwindSafe(f));
    QUIET.with(|q| *q.borrow_mut() = prev);
    match r {
        Ok(v) => Ok(v),
        Err(_) => Err(LAST_PANIC
            .with(|p| p.borrow_mut().take())
            .unwrap_or_else(|| "?: <panic on another thread>".into())),
    }
}

// ---------------------------------------------------------------------------
// Hashing / seeds

pub fn digest<T: Hash>(t: &T) -> u64 {
    let mut h = DefaultHasher::new();
    t.hash(&mut h);
    h.finish()
}

pub fn derive_seed(parts: &[&str], n: u64) -> u64 {
    let mut h = DefaultHasher::new();
    for p in parts {
        p.hash(&mut h);
    }
    n.hash(&mut h);
    h.finish()
}

/// A small deterministic RNG for use *inside* a case (seeded from a
/// proptest-generated u64), SplitMix64.
#[derive(Clone, Debug)]
pub struct SplitMix(pub u64);

impl SplitMix {
    pub fn next_u64(&mut self) -> u64 {
        self.0 = self.0.wrapping_add(0x9E3779B97F4A7C15);
        let mut z = self.0;
        z = (z ^ (z >> 30)).wrapping_mul(0xBF58476D1CE4E5B9);
        z = (z ^ (z >> 27)).wrapping_mul(0x94D049BB133111EB);
        z ^ (z >> 31)
    }
    pub fn below(&mut self, n: u64) -> u64 {
        if n == 0 {
            0
        } else {
            self.next_u64() % n
        }
    }
    pub fn bytes(&mut self, n: usize) -> Vec<u8> {
        let mut v = Vec::with_capacity(n + 8);
        while v.len() < n {
            v.extend_from_slice(&self.next_u64().to_le_bytes());
        }
        v.truncate(n);
        v
    }
    pub fn seed32(&mut self) -> [u8; 32] {
        let mut s = [0u8; 32];
        s.copy_from_slice(&self.bytes(32));
        s
    }
}

/// Monotone index map (keeps shrinking effective): maps a u16 onto 0..len.
pub fn idx(i: u16, len: usize) -> usize {
    if len == 0 {
        0
    } else {
        ((i as usize) * len) >> 16
    }
}

// ---------------------------------------------------------------------------
// Property context

#[derive(Clone, Debug)]
enum Mode {
    Run,
    Replay { sub: String, case: Json },
}

struct SubStats {
    name: String,
    rule: String,
    evaluations: AtomicU64,
    nontrivial: Mutex<HashSet<u64>>,
    classes: Mutex<BTreeMap<String, u64>>,
    samples: Mutex<Vec<Json>>,
    sample_classes: Mutex<HashSet<String>>,
    known_hits: Mutex<BTreeMap<String, u64>>,
    exhaustive: AtomicBool,
    wall_s: Mutex<f64>,
}

impl SubStats {
    fn new(name: &str, rule: &str) -> Self {
        SubStats {
            name: name.into(),
            rule: rule.into(),
            evaluations: AtomicU64::new(0),
            nontrivial: Mutex::new(HashSet::new()),
            classes: Mutex::new(BTreeMap::new()),
            samples: Mutex::new(Vec::new()),
            sample_classes: Mutex::new(HashSet::new()),
            known_hits: Mutex::new(BTreeMap::new()),
            exhaustive: AtomicBool::new(false),
            wall_s: Mutex::new(0.0),
        }
    }

    fn record_pass(&self, case_json: &dyn Fn() -> Json, case_digest: u64, v: &Verdict) {
        self.evaluations.fetch_add(1, Ordering::Relaxed);
        if v.nontrivial {
            self.nontrivial.lock().unwrap().insert(case_digest);
        }
        let mut classes = self.classes.lock().unwrap();
        for c in &v.classes {
            *classes.entry(c.clone()).or_insert(0) += 1;
        }
        drop(classes);
        // keep the first case of each class (up to 6 classes) as samples
        let key = v.classes.first().cloned().unwrap_or_default();
        let mut sc = self.sample_classes.lock().unwrap();
        if sc.len() < 6 && !sc.contains(&key) {
            sc.insert(key.clone());
            let mut j = case_json();
            truncate_json(&mut j, 600);
            self.samples
                .lock()
                .unwrap()
                .push(json!({"class": key, "nontrivial": v.nontrivial, "case": j}));
        }
    }
}

fn truncate_json(j: &mut Json, max: usize) {
    let s = j.to_string();
    if s.len() > max {
        let cut: String = s.chars().take(max).collect();
        *j = Json::String(format!("{cut}… ({} chars)", s.len()));
    }
}

pub struct Prop {
    pub id: &'static str,
    pub level: &'static str,
    pub tier: Tier,
    pub seed: u64,
    mode: Mode,
    findings: Findings,
    subs: Mutex<Vec<std::sync::Arc<SubStats>>>,
    violations: Mutex<Vec<(String, String)>>, // (replay path, signature)
    known_printed: Mutex<HashSet<String>>,
    assumptions: Mutex<Vec<String>>,
    inconclusive: Mutex<Vec<String>>,
    start: Instant,
}

#[derive(Serialize, Deserialize)]
struct ReplayFile {
    property: String,
    sub: String,
    signature: String,
    detail: String,
    seed: u64,
    case: Json,
}

impl Prop {
    pub fn quick(&self) -> bool {
        self.tier == Tier::Quick
    }

    pub fn assume(&self, s: impl Into<String>) {
        self.assumptions.lock().unwrap().push(s.into());
    }

    /// Records that (part of) the run could not reach a verdict (exit 2 at the
    /// end unless a violation was found).
    pub fn inconclusive(&self, s: impl Into<String>) {
        let s = s.into();
        eprintln!("INCONCLUSIVE {}: {}", self.id, s);
        self.inconclusive.lock().unwrap().push(s);
    }

    pub fn is_replay(&self) -> bool {
        matches!(self.mode, Mode::Replay { .. })
    }

    fn new_sub(&self, name: &str, rule: &str) -> std::sync::Arc<SubStats> {
        let s = std::sync::Arc::new(SubStats::new(name, rule));
        self.subs.lock().unwrap().push(s.clone());
        s
    }

    /// Handles a failing case: known finding (returns true) or violation.
    fn known(&self, stats: &SubStats, f: &Failure) -> bool {
        if let Some(k) = self.findings.matching(self.id, &f.signature) {
            *stats
                .known_hits
                .lock()
                .unwrap()
                .entry(k.id.clone())
                .or_insert(0) += 1;
            let mut printed = self.known_printed.lock().unwrap();
            if printed.insert(k.id.clone()) {
                println!(
                    "KNOWN-FINDING: property={} {} [{}] {}",
                    self.id, k.id, f.signature, k.what
                );
            }
            true
        } else {
            false
        }
    }

    fn report_violation(&self, sub: &str, case: Json, f: &Failure) {
        let body = ReplayFile {
            property: self.id.into(),
            sub: sub.into(),
            signature: f.signature.clone(),
            detail: f.detail.clone(),
            seed: self.seed,
            case,
        };
        let text = serde_json::to_string_pretty(&body).unwrap();
        let h = digest(&text);
        let dir = format!("{}/replays", verif_dir());
        let _ = std::fs::create_dir_all(&dir);
        let path = format!("{dir}/{}-{}-{:016x}.json", self.id, sub, h);
        if !self.is_replay() {
            let _ = std::fs::write(&path, &text);
        }
        let path = if self.is_replay() {
            "<replayed>".to_string()
        } else {
            path
        };
        let mut v = self.violations.lock().unwrap();
        // one line per distinct signature per sub
        if !v.iter().any(|(_, s)| *s == format!("{sub}:{}", f.signature)) {
            println!("VIOLATION property={} replay={}", self.id, path);
            println!(
                "  sub={} signature={} detail={}",
                sub,
                f.signature,
                f.detail.chars().take(2000).collect::<String>()
            );
            v.push((path, format!("{sub}:{}", f.signature)));
        }
    }

    fn run_case<C: Serialize>(
        &self,
        stats: &SubStats,
        case: &C,
        run: &(impl Fn(&C) -> CaseResult + Sync),
    ) -> Result<(), Failure> {
        let r = match catch(|| run(case)) {
            Ok(r) => r,
            Err(p) => Err(Failure::new(
                format!("panic:{}", panic_signature(&p)),
                format!("unexpected panic: {p}"),
            )),
        };
        match r {
            Ok(v) => {
                let js = serde_json::to_string(case).unwrap_or_default();
                stats.record_pass(
                    &|| serde_json::from_str(&js).unwrap_or(Json::Null),
                    digest(&js),
                    &v,
                );
                Ok(())
            }
            Err(f) => {
                stats.evaluations.fetch_add(1, Ordering::Relaxed);
                if self.known(stats, &f) {
                    let mut classes = stats.classes.lock().unwrap();
                    *classes.entry("known-finding".into()).or_insert(0) += 1;
                    Ok(())
                } else {
                    Err(f)
                }
            }
        }
    }

    /// A generated sub-check: `cases` cases in total, split over `streams`
    /// independent proptest runners (each with its own fixed seed), run on
    /// `streams` threads. `rule` states the non-triviality rule.
    pub fn sub<C>(
        &self,
        name: &str,
        rule: &str,
        cases: u32,
        streams: usize,
        strategy: impl Fn() -> BoxedStrategy<C> + Sync,
        run: impl Fn(&C) -> CaseResult + Sync,
    ) where
        C: Debug + Clone + Serialize + DeserializeOwned,
    {
        self.sub_cfg(name, rule, cases, streams, 256, strategy, run)
    }

    #[allow(clippy::too_many_arguments)]
    pub fn sub_cfg<C>(
        &self,
        name: &str,
        rule: &str,
        cases: u32,
        streams: usize,
        max_shrink_iters: u32,
        strategy: impl Fn() -> BoxedStrategy<C> + Sync,
        run: impl Fn(&C) -> CaseResult + Sync,
    ) where
        C: Debug + Clone + Serialize + DeserializeOwned,
    {
        if let Mode::Replay { sub, case } = &self.mode {
            if sub == name {
                let stats = self.new_sub(name, rule);
                let c: C = match serde_json::from_value(case.clone()) {
                    Ok(c) => c,
                    Err(e) => {
                        eprintln!("cannot decode replay case: {e}");
                        std::process::exit(2)
                    }
                };
                if let Err(f) = self.run_case(&stats, &c, &run) {
                    self.report_violation(name, case.clone(), &f);
                }
            }
            return;
        }
        let t0 = Instant::now();
        let stats = self.new_sub(name, rule);
        let streams = streams.max(1);
        let per = cases.div_ceil(streams as u32).max(1);
        std::thread::scope(|sc| {
            for stream in 0..streams {
                let stats = &stats;
                let strategy = &strategy;
                let run = &run;
                sc.spawn(move || {
                    let seed = derive_seed(&[self.id, name], self.seed ^ ((stream as u64) << 40));
                    let mut seed_bytes = [0u8; 32];
                    for (i, b) in seed_bytes.iter_mut().enumerate() {
                        *b = (derive_seed(&["b"], seed.wrapping_add(i as u64)) & 0xff) as u8;
                    }
                    let config = Config {
                        cases: per,
                        failure_persistence: None,
                        max_shrink_iters,
                        max_global_rejects: 65536,
                        rng_seed: RngSeed::Fixed(seed),
                        ..Config::default()
                    };
                    let rng = TestRng::from_seed(RngAlgorithm::ChaCha, &seed_bytes);
                    let mut runner = TestRunner::new_with_rng(config, rng);
                    let last_failure: RefCell<Option<Failure>> = RefCell::new(None);
                    let res = runner.run(&strategy(), |c| match self.run_case(stats, &c, run) {
                        Ok(()) => Ok(()),
                        Err(f) => {
                            let msg = f.signature.clone();
                            *last_failure.borrow_mut() = Some(f);
                            Err(TestCaseError::fail(msg))
                        }
                    });
                    match res {
                        Ok(()) => {}
                        Err(TestError::Fail(_, c)) => {
                            // re-run the shrunk case to get its own failure
                            let f = match self.run_case(stats, &c, run) {
                                Err(f) => f,
                                Ok(()) => last_failure.borrow().clone().unwrap_or_else(|| {
                                    Failure::new("unstable", "shrunk case passed on re-run")
                                }),
                            };
                            let cj = serde_json::to_value(&c).unwrap_or(Json::Null);
                            self.report_violation(name, cj, &f);
                        }
                        Err(TestError::Abort(r)) => {
                            self.inconclusive(format!("{name}: proptest aborted: {r}"));
                        }
                    }
                });
            }
        });
        *stats.wall_s.lock().unwrap() = t0.elapsed().as_secs_f64();
    }

    /// An enumerated sub-check: every item is run (in parallel over `threads`
    /// threads). `exhaustive` states that the items are a complete finite
    /// space.
    pub fn enumerate<C>(
        &self,
        name: &str,
        rule: &str,
        items: Vec<C>,
        threads: usize,
        exhaustive: bool,
        run: impl Fn(&C) -> CaseResult + Sync,
    ) where
        C: Debug + Clone + Serialize + DeserializeOwned + Sync,
    {
        if let Mode::Replay { sub, case } = &self.mode {
            if sub == name {
                let stats = self.new_sub(name, rule);
                let c: C = match serde_json::from_value(case.clone()) {
                    Ok(c) => c,
                    Err(e) => {
                        eprintln!("cannot decode replay case: {e}");
                        std::process::exit(2)
                    }
                };
                if let Err(f) = self.run_case(&stats, &c, &run) {
                    self.report_violation(name, case.clone(), &f);
                }
            }
            return;
        }
        let t0 = Instant::now();
        let stats = self.new_sub(name, rule);
        stats.exhaustive.store(exhaustive, Ordering::Relaxed);
        let threads = threads.max(1);
        let next = AtomicU64::new(0);
        std::thread::scope(|sc| {
            for _ in 0..threads {
                let stats = &stats;
                let run = &run;
                let items = &items;
                let next = &next;
                sc.spawn(move || loop {
                    let i = next.fetch_add(1, Ordering::Relaxed) as usize;
                    if i >= items.len() {
                        break;
                    }
                    let c = &items[i];
                    if let Err(f) = self.run_case(stats, c, run) {
                        let cj = serde_json::to_value(c).unwrap_or(Json::Null);
                        self.report_violation(name, cj, &f);
                    }
                });
            }
        });
        *stats.wall_s.lock().unwrap() = t0.elapsed().as_secs_f64();
    }

    fn write_evidence(&self) {
        if self.is_replay() {
            return;
        }
        let subs = self.subs.lock().unwrap();
        let mut evaluations = 0u64;
        let mut distinct = 0u64;
        let mut samples = vec![];
        let mut rules = vec![];
        let mut per_sub = vec![];
        let mut all_exhaustive = !subs.is_empty();
        let mut known_total: BTreeMap<String, u64> = BTreeMap::new();
        for s in subs.iter() {
            let ev = s.evaluations.load(Ordering::Relaxed);
            let nt = s.nontrivial.lock().unwrap().len() as u64;
            evaluations += ev;
            distinct += nt;
            rules.push(format!("[{}] {}", s.name, s.rule));
            for x in s.samples.lock().unwrap().iter().take(3) {
                let mut x = x.clone();
                x["sub"] = json!(s.name);
                samples.push(x);
            }
            let ex = s.exhaustive.load(Ordering::Relaxed);
            all_exhaustive &= ex;
            for (k, v) in s.known_hits.lock().unwrap().iter() {
                *known_total.entry(k.clone()).or_insert(0) += v;
            }
            per_sub.push(json!({
                "sub": s.name,
                "evaluations": ev,
                "distinct_nontrivial": nt,
                "classes": *s.classes.lock().unwrap(),
                "known_finding_hits": *s.known_hits.lock().unwrap(),
                "exhaustive": ex,
                "wall_s": *s.wall_s.lock().unwrap(),
            }));
        }
        let violations = self.violations.lock().unwrap();
        let ev = json!({
            "property_id": self.id,
            "tier": self.tier.name(),
            "seed": self.seed,
            "level": self.level,
            "coverage": {
                "evaluations": evaluations,
                "distinct_nontrivial": distinct,
                "rule": rules.join(" | "),
                "samples": samples,
                "exhaustive": all_exhaustive,
                "sub_checks": per_sub,
                "excluded_known": known_total,
                "inconclusive": *self.inconclusive.lock().unwrap(),
                "violation_replays": violations.iter().map(|v| v.0.clone()).collect::<Vec<_>>(),
            },
            "assumptions": *self.assumptions.lock().unwrap(),
            "wall_s": self.start.elapsed().as_secs_f64(),
            "violations": violations.len(),
        });
        let dir = format!("{}/evidence", verif_dir());
        let _ = std::fs::create_dir_all(&dir);
        let path = PathBuf::from(format!("{dir}/{}.json", self.id));
        std::fs::write(&path, serde_json::to_string_pretty(&ev).unwrap() + "\n")
            .expect("cannot write evidence");
    }
}

/// Entry point of a property binary.
pub fn main(id: &'static str, level: &'static str, watchdog_s: (u64, u64), body: impl FnOnce(&Prop)) {
    let args: Vec<String> = std::env::args().collect();
    let seed = std::env::var("VERIF_SEED")
        .ok()
        .and_then(|s| s.trim().parse::<i64>().ok())
        .map(|v| v as u64)
        .unwrap_or(1);
    let (tier, mode) = match args.get(1).map(|s| s.as_str()) {
        Some("--replay") => {
            let path = args.get(2).expect("--replay <file>");
            let text = std::fs::read_to_string(path).unwrap_or_else(|e| {
                eprintln!("cannot read {path}: {e}");
                std::process::exit(2)
            });
            let rf: ReplayFile = serde_json::from_str(&text).unwrap_or_else(|e| {
                eprintln!("cannot parse {path}: {e}");
                std::process::exit(2)
            });
            if rf.property != id {
                eprintln!("replay file is for {}", rf.property);
                std::process::exit(2);
            }
            (
                Tier::Quick,
                Mode::Replay {
                    sub: rf.sub,
                    case: rf.case,
                },
            )
        }
        Some("thorough") => (Tier::Thorough, Mode::Run),
        Some("quick") | None => (Tier::Quick, Mode::Run),
        Some(x) => {
            eprintln!("unknown argument {x}");
            std::process::exit(2)
        }
    };
    install_panic_hook();
    let limit = if tier == Tier::Quick {
        watchdog_s.0
    } else {
        watchdog_s.1
    };
    std::thread::spawn(move || {
        std::thread::sleep(std::time::Duration::from_secs(limit));
        eprintln!("WATCHDOG: {id} exceeded {limit}s — inconclusive");
        std::process::exit(2);
    });
    let prop = Prop {
        id,
        level,
        tier,
        seed,
        mode,
        findings: Findings::load(),
        subs: Mutex::new(vec![]),
        violations: Mutex::new(vec![]),
        known_printed: Mutex::new(HashSet::new()),
        assumptions: Mutex::new(vec![]),
        inconclusive: Mutex::new(vec![]),
        start: Instant::now(),
    };
    body(&prop);
    prop.write_evidence();
    let nviol = prop.violations.lock().unwrap().len();
    let ninc = prop.inconclusive.lock().unwrap().len();
    let subs = prop.subs.lock().unwrap();
    let evals: u64 = subs.iter().map(|s| s.evaluations.load(Ordering::Relaxed)).sum();
    let nt: usize = subs.iter().map(|s| s.nontrivial.lock().unwrap().len()).sum();
    println!(
        "{} {} seed={} evaluations={} distinct_nontrivial={} violations={} wall={:.1}s",
        id,
        tier.name(),
        seed,
        evals,
        nt,
        nviol,
        prop.start.elapsed().as_secs_f64()
    );
    if nviol > 0 {
        std::process::exit(1);
    }
    if ninc > 0 {
        std::process::exit(2);
    }
    std::process::exit(0);
}
