//! C15 — batching and accumulation accept exactly the all-valid batches.
//!
//! Pools of valid proofs over three standard-library fixture relations
//! (different architectures and k, one shared SRS secret) plus invalid variants
//! (corrupted proof, wrong public input, wrong verifying key). Oracles:
//! * `batch_verify(..) is Ok  <=>  every member verifies on its own` (same API,
//!   same verifier parameters), for batches of size 0..6, any order, repeated
//!   members, mixed relations;
//! * empty / length-mismatched batches return a `Result`, never unwind;
//! * `Guard::batch_verify` over the members' guards agrees with the
//!   conjunction and does not unwind on unequal lengths;
//! * accumulators: `from_dual_msm` of each member's guard, `accumulate`,
//!   `collapse`: `check` of the accumulation <=> conjunction of the members'
//!   `check`; `collapse` never changes `check`.

use std::collections::{BTreeMap, HashMap};
use std::sync::{Arc, Mutex, OnceLock};

use midnight_circuits::verifier::{fixed_bases, Accumulator, BlstrsEmulation};
use midnight_curves::{Bls12, G1Projective};
use midnight_proofs::{
    plonk::prepare,
    poly::{
        commitment::Guard,
        kzg::{msm::DualMSM, KZGCommitmentScheme},
    },
    transcript::{CircuitTranscript, Transcript},
};
use group::Group;
use proptest::prelude::*;
use serde::{Deserialize, Serialize};
use vp_circ::e6::{self, Blake, Fix, Poseidon, ALL_FIX, F};
use vpcore::{ensure, CaseResult, Failure, Verdict};

const POOL: u64 = 3;

#[derive(Clone, Copy, Debug, Serialize, Deserialize, PartialEq, Eq, Hash)]
enum Bad {
    None,
    ProofBit(u16, u8),
    WrongPi,
    WrongVk,
    /// the final opening witness (last G1 element of the proof) shifted by s * G: invalid alone,
    /// but the errors of a +s and a -s twin cancel under equal batching coefficients
    Twin(i8),
}

#[derive(Clone, Debug, Serialize, Deserialize)]
struct Member {
    fix: Fix,
    which: u64,
    bad: Bad,
}

#[derive(Clone, Debug, Serialize, Deserialize)]
struct Case {
    members: Vec<Member>,
    poseidon: bool,
}

fn member() -> impl Strategy<Value = Member> {
    (
        0usize..3,
        0..POOL,
        prop_oneof![
            10 => Just(Bad::None),
            1 => (any::<u16>(), 0u8..8).prop_map(|(p, b)| Bad::ProofBit(p, b)),
            1 => Just(Bad::WrongPi),
            1 => Just(Bad::WrongVk),
        ],
    )
        .prop_map(|(f, which, bad)| Member { fix: ALL_FIX[f], which, bad })
}

fn strategy() -> BoxedStrategy<Case> {
    (proptest::collection::vec(member(), 0..=6), proptest::bool::weighted(0.25))
        .prop_map(|(members, poseidon)| Case { members, poseidon })
        .boxed()
}

/// Honest (instance, proof) of the pool, generated once per process.
fn pooled(fix: Fix, which: u64, poseidon: bool) -> Arc<(Vec<F>, Vec<u8>)> {
    static CACHE: OnceLock<Mutex<HashMap<(Fix, u64, bool), Arc<(Vec<F>, Vec<u8>)>>>> = OnceLock::new();
    let m = CACHE.get_or_init(|| Mutex::new(HashMap::new()));
    if let Some(v) = m.lock().unwrap().get(&(fix, which, poseidon)) {
        return v.clone();
    }
    let keys = e6::keys(fix);
    let (inst, wit) = fix.sample(which + 1000 * (fix as u64));
    let proof = e6::prove(&keys, &inst, wit, poseidon, which ^ 0x5eed).expect("honest proving of a fixture");
    e6::verify(&keys, &inst, &proof, poseidon).expect("honest fixture proof must verify");
    let v = Arc::new((inst, proof));
    m.lock().unwrap().entry((fix, which, poseidon)).or_insert(v).clone()
}

struct Built {
    vk_fix: Fix,
    pi: Vec<F>,
    proof: Vec<u8>,
}

fn build(m: &Member, poseidon: bool) -> Built {
    let p = pooled(m.fix, m.which, poseidon);
    let (mut pi, mut proof) = (p.0.clone(), p.1.clone());
    let mut vk_fix = m.fix;
    match m.bad {
        Bad::None => {}
        Bad::ProofBit(pos, bit) => {
            let i = vpcore::idx(pos, proof.len());
            proof[i] ^= 1 << bit;
        }
        Bad::WrongPi => pi[0] += F::from(1),
        Bad::WrongVk => vk_fix = ALL_FIX[(ALL_FIX.iter().position(|f| *f == m.fix).unwrap() + 1) % ALL_FIX.len()],
        Bad::Twin(s) => {
            use group::{Curve, Group, GroupEncoding};
            use midnight_curves::{G1Affine, G1Projective};
            let at = proof.len() - 48;
            let mut repr = <G1Affine as GroupEncoding>::Repr::default();
            repr.as_mut().copy_from_slice(&proof[at..]);
            let pi: G1Affine = Option::from(G1Affine::from_bytes(&repr)).expect("the proof ends with a compressed G1 point");
            let shift = G1Projective::generator() * F::from(s.unsigned_abs() as u64);
            let shifted = if s >= 0 { G1Projective::from(pi) + shift } else { G1Projective::from(pi) - shift };
            proof[at..].copy_from_slice(shifted.to_affine().to_bytes().as_ref());
        }
    }
    Built { vk_fix, pi, proof }
}

fn single_ok(b: &Built, poseidon: bool) -> bool {
    e6::verify(&e6::keys(b.vk_fix), &b.pi, &b.proof, poseidon).is_ok()
}

fn batch(c: &Case) -> CaseResult {
    let built: Vec<Built> = c.members.iter().map(|m| build(m, c.poseidon)).collect();
    let vp = e6::keys(Fix::Affine3).params.verifier_params();
    let vks: Vec<_> = built.iter().map(|b| e6::keys(b.vk_fix).vk.clone()).collect();
    let pis: Vec<Vec<F>> = built.iter().map(|b| b.pi.clone()).collect();
    let proofs: Vec<Vec<u8>> = built.iter().map(|b| b.proof.clone()).collect();
    let singles: Vec<bool> = built.iter().map(|b| single_ok(b, c.poseidon)).collect();
    let expect = singles.iter().all(|x| *x);
    let got = vpcore::catch(|| {
        if c.poseidon {
            midnight_zk_stdlib::batch_verify::<Poseidon>(&vp, &vks, &pis, &proofs)
        } else {
            midnight_zk_stdlib::batch_verify::<Blake>(&vp, &vks, &pis, &proofs)
        }
    })
    .map_err(|p| Failure::new(format!("batch_verify:panic:n={}", if c.members.is_empty() { "0" } else { ">0" }), format!("batch_verify panicked on a batch of {}: {p}", c.members.len())))?;
    // honest members must verify on their own (pool sanity) and invalid ones must not
    for (m, ok) in c.members.iter().zip(&singles) {
        ensure!(*ok == (m.bad == Bad::None), "single-verdict-unexpected", "member {m:?} verifies on its own: {ok}");
    }
    ensure!(
        got.is_ok() == expect,
        format!("batch_verify:{}", if expect { "rejects-all-valid-batch" } else { "accepts-batch-with-invalid-member" }),
        "batch {:?}: batch_verify = {:?}, individual verdicts {:?}",
        c.members,
        got,
        singles
    );
    // length mismatches: must be a Result
    if !c.members.is_empty() {
        for (a, b, d) in [(1usize, 0usize, 0usize), (0, 1, 0), (0, 0, 1)] {
            let r = vpcore::catch(|| midnight_zk_stdlib::batch_verify::<Blake>(&vp, &vks[a..], &pis[b..], &proofs[d..]));
            match r {
                Err(p) => return Err(Failure::new("batch_verify:panic:length-mismatch", format!("{p}"))),
                Ok(Ok(())) if c.members.len() > 1 || true => {
                    // a mismatched batch may only be accepted if it is empty on all sides
                    ensure!(vks[a..].len() == pis[b..].len() && pis[b..].len() == proofs[d..].len(), "batch_verify:accepts-length-mismatch", "lens {} {} {}", vks[a..].len(), pis[b..].len(), proofs[d..].len());
                }
                _ => {}
            }
        }
    }
    let n_bad = singles.iter().filter(|x| !**x).count();
    let distinct_vks = {
        let mut v: Vec<_> = built.iter().map(|b| b.vk_fix as u8).collect();
        v.sort();
        v.dedup();
        v.len()
    };
    let nt = (c.members.len() >= 2 && n_bad == 1) || distinct_vks >= 2;
    Ok(Verdict::of(nt, format!("size{}-bad{}", c.members.len(), n_bad.min(2))).with(if c.poseidon { "poseidon" } else { "blake2b" }).with(format!("vks{distinct_vks}")))
}

type PlonkVk = midnight_proofs::plonk::VerifyingKey<F, KZGCommitmentScheme<Bls12>>;

fn guard_of(b: &Built, poseidon: bool) -> Option<DualMSM<Bls12>> {
    let keys = e6::keys(b.vk_fix);
    let vk: &PlonkVk = keys.vk.vk();
    let com = [G1Projective::identity()];
    let r = vpcore::catch(|| {
        if poseidon {
            let mut t = CircuitTranscript::<Poseidon>::init_from_bytes(&b.proof);
            let g = prepare::<F, KZGCommitmentScheme<Bls12>, _>(vk, &[&com], &[&[&b.pi[..]]], &mut t).ok()?;
            t.assert_empty().ok()?;
            Some(g)
        } else {
            let mut t = CircuitTranscript::<Blake>::init_from_bytes(&b.proof);
            let g = prepare::<F, KZGCommitmentScheme<Bls12>, _>(vk, &[&com], &[&[&b.pi[..]]], &mut t).ok()?;
            t.assert_empty().ok()?;
            Some(g)
        }
    });
    r.ok().flatten()
}

fn guards(c: &Case) -> CaseResult {
    let built: Vec<Built> = c.members.iter().map(|m| build(m, c.poseidon)).collect();
    let vp = e6::keys(Fix::Affine3).params.verifier_params();
    let gs: Vec<Option<DualMSM<Bls12>>> = built.iter().map(|b| guard_of(b, c.poseidon)).collect();
    // members whose `prepare` fails have no guard: the remaining ones are batched
    let have: Vec<(usize, DualMSM<Bls12>)> = gs.iter().enumerate().filter_map(|(i, g)| g.clone().map(|g| (i, g))).collect();
    let each: Vec<bool> = have.iter().map(|(_, g)| g.clone().verify(&vp).is_ok()).collect();
    for ((i, _), ok) in have.iter().zip(&each) {
        let single = single_ok(&built[*i], c.poseidon);
        ensure!(*ok == single, "guard-verdict-differs-from-verify", "member {:?}: guard.verify {ok}, verify {single}", c.members[*i]);
    }
    let expect = each.iter().all(|x| *x);
    let n = have.len();
    let params: Vec<_> = (0..n).map(|_| vp.clone()).collect();
    let r = vpcore::catch(|| <DualMSM<Bls12> as Guard<F, KZGCommitmentScheme<Bls12>>>::batch_verify(have.iter().map(|(_, g)| g.clone()), params.iter()))
        .map_err(|p| Failure::new("Guard::batch_verify:panic", p))?;
    ensure!(r.is_ok() == expect, format!("Guard::batch_verify:{}", if expect { "rejects-all-valid" } else { "accepts-invalid" }), "members {:?}: {:?} vs {:?}", c.members, r, each);
    // guards combined by hand through the public scale / add_msm interface, in the orders callers use:
    // powers first (g0 + r g1 + r^2 g2 ...), Horner ((g0 r + g1) r + g2 ...), every member scaled
    if n >= 1 {
        use ff::Field;
        let r = {
            let mut rng = vpcore::SplitMix(vpcore::digest(&format!("{:?}", c.members)));
            F::from(rng.next_u64()) * F::from(rng.next_u64()) + F::from(rng.next_u64() | 1)
        };
        let combos: [(&str, Box<dyn Fn() -> DualMSM<Bls12>>); 3] = [
            (
                "powers-first",
                Box::new(|| {
                    let mut acc = have[0].1.clone();
                    let mut ri = r;
                    for (_, g) in &have[1..] {
                        let mut g = g.clone();
                        g.scale(ri);
                        acc.add_msm(g);
                        ri *= r;
                    }
                    acc
                }),
            ),
            (
                "horner",
                Box::new(|| {
                    let mut acc = have[0].1.clone();
                    for (_, g) in &have[1..] {
                        acc.scale(r);
                        acc.add_msm(g.clone());
                    }
                    acc
                }),
            ),
            (
                "all-scaled",
                Box::new(|| {
                    let mut acc = DualMSM::<Bls12>::init();
                    let mut ri = r;
                    for (_, g) in &have {
                        let mut g = g.clone();
                        g.scale(ri);
                        acc.add_msm(g);
                        ri *= r.square() + F::ONE;
                    }
                    acc
                }),
            ),
        ];
        for (name, build) in combos.iter() {
            let got = vpcore::catch(|| build().check(&vp)).map_err(|p| Failure::new(format!("DualMSM:combined:{name}:panic"), p))?;
            ensure!(got == expect, format!("DualMSM:combined:{name}:{}", if expect { "rejects-all-valid" } else { "accepts-invalid" }), "members {:?}: guards combined {name} with a random challenge check = {got}, individually {:?}", c.members, each);
        }
    }
    // unequal lengths: a Result, not a crash
    // guards and parameter sets that do not match up (fewer or more parameter sets than guards, down
    // to none): a Result, never a crash, and never an acceptance — an unmatched guard is unverified
    if n >= 1 {
        let extra: Vec<_> = (0..n + 1).map(|_| vp.clone()).collect();
        for (what, ps) in [("one-fewer", &params[1..]), ("none", &params[..0]), ("half", &params[..n / 2]), ("one-more", &extra[..])] {
            if ps.len() == n {
                continue;
            }
            let r = vpcore::catch(|| <DualMSM<Bls12> as Guard<F, KZGCommitmentScheme<Bls12>>>::batch_verify(have.iter().map(|(_, g)| g.clone()), ps.iter()));
            match r {
                Err(p) => return Err(Failure::new("Guard::batch_verify:panic:length-mismatch", p)),
                Ok(Ok(())) => {
                    return Err(Failure::new(
                        format!("Guard::batch_verify:accepts-length-mismatch:{}", if expect { "all-valid" } else { "with-invalid-member" }),
                        format!("{n} guards (individually {each:?}) with {} parameter sets ({what}) are accepted", ps.len()),
                    ))
                }
                Ok(Err(_)) => {}
            }
        }
    }
    // accumulators
    let mut accs = vec![];
    let mut all_bases: BTreeMap<String, G1Projective> = BTreeMap::new();
    let mut acc_ok = vec![];
    let tau = e6::keys(Fix::Affine3).params.s_g2().into();
    for (j, (i, g)) in have.iter().enumerate() {
        let keys = e6::keys(built[*i].vk_fix);
        let prefix = format!("vk{}", built[*i].vk_fix as u8);
        let fb = fixed_bases::<BlstrsEmulation>(&prefix, keys.vk.vk());
        let acc = vpcore::catch(|| Accumulator::<BlstrsEmulation>::from_dual_msm(g.clone(), &prefix, &fb)).map_err(|p| Failure::new("Accumulator::from_dual_msm:panic", p))?;
        let ok = acc.check(&tau, &fb);
        // the documented contract allows the map of fixed bases to be a superset (e.g. the bases of
        // several verifying keys): the verdict must not depend on the unused entries
        {
            let mut sup: BTreeMap<String, G1Projective> = BTreeMap::new();
            for (n, f) in ALL_FIX.iter().enumerate() {
                sup.extend(fixed_bases::<BlstrsEmulation>(&format!("vk{n}"), e6::keys(*f).vk.vk()));
                sup.extend(fixed_bases::<BlstrsEmulation>(&format!("aaa{n}"), e6::keys(*f).vk.vk()));
            }
            sup.extend(fb.clone());
            let ok_sup = vpcore::catch(|| acc.check(&tau, &sup)).map_err(|p| Failure::new("Accumulator::check:superset-of-fixed-bases:panic", p))?;
            ensure!(ok_sup == ok, "accumulator-check-depends-on-unused-fixed-bases", "member {:?}: check with its own fixed bases = {ok}, with a superset (bases of all fixture keys, some names sorting before its own) = {ok_sup}", c.members[*i]);
        }
        ensure!(ok == each[j], "accumulator-check-differs-from-guard", "member {:?}: acc.check {ok}, guard {}", c.members[*i], each[j]);
        let mut collapsed = acc.clone();
        collapsed.collapse();
        ensure!(collapsed.check(&tau, &fb) == ok, "collapse-changes-check", "member {:?}", c.members[*i]);
        all_bases.extend(fb);
        acc_ok.push(ok);
        accs.push(if j % 2 == 0 { acc } else { collapsed });
    }
    if !accs.is_empty() {
        let total = vpcore::catch(|| Accumulator::<BlstrsEmulation>::accumulate(&accs)).map_err(|p| Failure::new("Accumulator::accumulate:panic", p))?;
        let ok = total.check(&tau, &all_bases);
        let expect = acc_ok.iter().all(|x| *x);
        ensure!(ok == expect, format!("accumulate:{}", if expect { "rejects-all-valid" } else { "accepts-invalid" }), "members {:?}: accumulated check {ok}, members {:?}", c.members, acc_ok);
        let mut t2 = total.clone();
        t2.collapse();
        ensure!(t2.check(&tau, &all_bases) == ok, "collapse-changes-check:accumulated", "members {:?}", c.members);
        // order independence of the verdict
        let mut rev = accs.clone();
        rev.reverse();
        let total_rev = Accumulator::<BlstrsEmulation>::accumulate(&rev);
        ensure!(total_rev.check(&tau, &all_bases) == ok, "accumulate:order-changes-verdict", "members {:?}", c.members);
    }
    let n_bad = each.iter().filter(|x| !**x).count();
    Ok(Verdict::of(n >= 2 && n_bad == 1 || n >= 3, format!("guards{}-bad{}", n, n_bad.min(2))))
}

/// Batches whose invalid members have errors that sum to zero: two or three "twins" of honest
/// proofs of one relation placed in every pair / triple of slots among valid members.
fn cancelling_strategy() -> BoxedStrategy<Case> {
    (2usize..=6, any::<u64>(), 0usize..3, 0..POOL, prop_oneof![3 => Just(vec![1i8, -1]), 1 => Just(vec![2i8, -2]), 1 => Just(vec![1i8, 1, -2]), 1 => Just(vec![-3i8, 1, 2])], any::<bool>(), proptest::bool::weighted(0.2))
        .prop_map(|(n, place, f, which, shifts, same_proof, poseidon)| {
            let n = n.max(shifts.len());
            // slots of the twins: a pseudo-random subset of the n slots, in pseudo-random order
            let mut slots: Vec<usize> = (0..n).collect();
            let mut st = place | 1;
            for i in (1..n).rev() {
                st = st.wrapping_mul(6364136223846793005).wrapping_add(1442695040888963407);
                slots.swap(i, (st >> 33) as usize % (i + 1));
            }
            let mut members: Vec<Member> = (0..n).map(|i| Member { fix: ALL_FIX[(f + i) % 3], which: (which + i as u64) % POOL, bad: Bad::None }).collect();
            for (j, s) in shifts.iter().enumerate() {
                // twins of the same honest proof, or of different proofs of the same relation
                members[slots[j]] = Member { fix: ALL_FIX[f], which: if same_proof { which } else { (which + j as u64) % POOL }, bad: Bad::Twin(*s) };
            }
            Case { members, poseidon }
        })
        .boxed()
}

fn main() {
    vpcore::main("C15", "exploration", (1800, 10800), |p| {
        p.assume("all fixture keys use one SRS secret (batches share verifier parameters); invalid members are single corruptions of honest proofs/inputs/keys");
        p.sub_cfg(
            "batch_verify",
            "batches of 0..6 members drawn from pools of honest proofs over 3 relations (different k/architectures), each member valid or invalid (one flipped proof bit, public input +1, other relation's vk), any order and multiplicity; batch_verify Ok <=> all members verify individually; empty and length-mismatched batches must return a Result; non-trivial = size>=2 with exactly one invalid member, or >=2 distinct vks",
            p.tier.pick(1600, 24000),
            8,
            64,
            strategy,
            batch,
        );
        p.sub_cfg(
            "guards+accumulators",
            "same batches: Guard::batch_verify of the members' guards vs conjunction (and unequal lengths), Accumulator::from_dual_msm / collapse / accumulate / check vs the members' guard verdicts, order independence; non-trivial = >=2 guards with exactly one invalid, or >=3 guards",
            p.tier.pick(500, 8000),
            8,
            64,
            strategy,
            guards,
        );
        let rule = "batches of 2..6 members in which two or three members are twins of honest proofs whose final opening witness is shifted by s*G with the shifts summing to zero (+1,-1 / +2,-2 / +1,+1,-2 / -3,+1,+2), in every choice of slots, the other members valid: each twin is refused on its own and the batch must be refused; every case non-trivial";
        p.sub_cfg("batch_verify.cancelling", rule, p.tier.pick(300, 5000), 8, 32, cancelling_strategy, |c| batch(c).map(|mut v| { v.nontrivial = true; v.with("twins") }));
        p.sub_cfg("guards.cancelling", rule, p.tier.pick(200, 3000), 8, 32, cancelling_strategy, |c| guards(c).map(|mut v| { v.nontrivial = true; v.with("twins") }));
    });
}
