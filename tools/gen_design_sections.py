#!/usr/bin/env python3
"""Regenerates the generated parts of DESIGN.md: section 5 (findings, from
known_findings.json) and section 12 (seeded changes, from seeded/*/meta.json and
seeded/results.json)."""
import json, os, re, glob
V='/verif'
d=json.load(open(f'{V}/known_findings.json'))['findings']
def esc(t): return t.replace('|','\\|').replace('\n',' ')
rows=[]
for f in d:
    st = f['status']
    disp = f"**fixed** in `{f.get('commit','')}`" if st=='fixed' else f"**known finding** (signature `{esc(f.get('signature',''))}`)"
    rows.append(f"| {f['id']} | {f['property']} | {esc(f['what'])} | {disp} |")
fixed=sum(1 for f in d if f['status']=='fixed'); known=sum(1 for f in d if f['status']=='known')
sec5=f"""## 5. Defects found on the pinned tree and their disposition

Every entry below was produced by a check of this framework failing on the
unchanged tree (or, for the entries that the design phase had predicted, by
the check rediscovering it), was triaged as *code wrong* by re-deriving domain
and oracle from the property text, the doc comments and the callers, and was
then either repaired in `/repo` with a minimal unguarded `fix:` commit (the
pinned suite passes with every one of them) or recorded as a known finding in
`/verif/known_findings.json` with the signature of the failing input class.
{fixed} defects were repaired, {known} are recorded as known findings. The rule
for not repairing: the repair changes the shape (rows, columns, lookups) of a
circuit that has a golden cost-model entry which a pinned test compares
against, or changes a public API / performance contract.

| id | property | what fails | disposition |
|----|----------|------------|-------------|
""" + "\n".join(rows) + """

Behaviours that were examined and are **not** defects (the checks were
corrected, nothing is suppressed): G1 uncompressed / raw decoders do not check
subgroup membership (the property set promises it for compressed points only);
the prover is not a deterministic function of its `rng` argument (C17 judges
interchangeability of keys by verification, not by proof bytes);
`Regex` marking above a complement (documented as unsupported); dead states
in compiled automata (structure, not language); `hash(&[])` of Poseidon
returning 0 without permuting; partial-round S-box on the last register
(documented); `prepare`/`LightAggregator::verify` leaving the trailing-bytes
check to the caller (`assert_empty`), which the harness performs as
`midnight_zk_stdlib::verify` does; post-decode compilation of IR programs
(cost model panics / stack use proportional to *declared* sizes) — outside
C16's decoding scope, counted report-only; `F26` (empty multi-Miller loop)
refuted.
"""
# seeded
res={}
try: res=json.load(open(f'{V}/seeded/results.json'))
except Exception: pass
srows=[]
for m in sorted(glob.glob(f'{V}/seeded/*/meta.json')):
    sid=os.path.basename(os.path.dirname(m)); meta=json.load(open(m))
    r=res.get(sid,{})
    srows.append(f"| {sid} | {meta.get('property','')} | {esc(meta.get('summary',''))[:420]} | {esc(meta.get('needs',''))[:300]} | {esc(r.get('caught_by','(not evaluated yet)'))} |")
sec12="""## 12. Seeded changes and which checks catch them

Each change was written by a fresh sub-agent that was given only the text of
one property and a scratch worktree (nothing from `/verif`), with the brief to
break the property while compiling and passing the existing tests, in a way
that needs something specific to manifest. Each was confirmed by the
coordinator in a scratch worktree of `/repo` at HEAD
(`tools/confirm_seed.sh`: demonstration passes on the original code, fails
with the change, the named existing tests pass with the change; logs in
`seeded/<id>/confirmed.log`) and then run against the registered check
(`tools/seeded_eval.sh`: scratch worktree + scratch copy of the harness, so
that `/repo` itself — from which other builders were compiling — was never
modified). Where a check missed a change it was strengthened and the change
re-run; the last column says which sub-check reports it now and what had to
be added.

Rounds: `<ID>-1` is the first change written for a property; for `<ID>-2`,
`<ID>-3` the sub-agent was additionally told, in one sentence each, which areas
earlier changes had already used (`tools/seed_avoid.json`), so that it would
pick another mechanism. Summary (computed from `seeded/results.json`):
@SUMMARY@

What the misses had in common, and what was generalised from them rather than
patched per case: (a) *operand provenance* — single operations were only run
on freshly assigned witnesses, never on cells carrying state from an earlier
operation (cached bounds, constant cells, un-normalised emulated elements,
computed values exposed as public inputs): C04-1, C04-2, C08-1; (b) *one
position of a repeated structure* — sampled faults do not reach a given cell
of a region shape that is laid out thousands of times: engine S4, C07-2;
(c) *cancelling errors* — batches only ever contained independently corrupted
members: C15-2, C20-1; (d) *orders that usually coincide* — allocation order
of columns by phase, numeric versus lexicographic order of names, order of
instance queries: C01-1, C01-2, C20-2; (e) *sizes at the edge of what is
admissible* — full instance columns, the tightest domain, buffers filled
exactly, proofs ending in zero bytes, non-byte-aligned widths: C03-1, C03-2,
C17-2, C18-1; (f) *redundant or aliased inputs* — equalities declared twice,
equal commitments behind distinct references, byte arrays congruent modulo the
field: C02-2, C14-2, C18-2; (g) *fixture-specific shapes* — decoded keys and
the in-circuit verifier were only ever used with the three fixture relations:
C16-1, C20-3; (h) *API surface below the façade* — entry points that the
standard library never calls in a particular way (the decomposition chip with
partial limbs, msm terms sharing a base, guards combined by hand, witnessed
accumulators and their committed-scalar encoding, proving keys without copy
constraints, `filecoin_srs`): C04-3, C06-3, C06-4, C08-3, C15-3, C17-3, C17-5,
C20-2, C20-5; (i) *oracles weaker than the property* — round trips compared
byte for byte where the property speaks of behaviour, mismatched batches only
required not to crash: C17-4, C15-5; (j) *defects that need several cells
changed together* — a dropped constraint that every single fault still trips
over (the lookup or the recomposition gate rejects it) and that a search from
the output cannot reach: engine S5, C07-6; (k) *checks that read more than
they should* — an accumulator check that consults map entries it has no use
for, a fixed column queried at a rotation: C15-6, C20-6.

| id | property | change | needs | caught by |
|----|----------|--------|-------|-----------|
""" + "\n".join(srows) + "\n"
def _summary():
    rounds={}
    for sid,r in res.items():
        rd=sid.split('-')[1]
        cb=r.get('caught_by','')
        k='pending' if cb.startswith('pending') or not cb else 'missed, not yet covered (open)' if cb.startswith('MISSED') else ('missed at first, caught after strengthening' if 'Missed at first' in cb else 'caught as built')
        rounds.setdefault(rd,{}).setdefault(k,[]).append(sid.split('-')[0])
    out=[]
    for rd in sorted(rounds):
        parts=[f"{k}: {len(v)} ({', '.join(sorted(v))})" for k,v in sorted(rounds[rd].items())]
        out.append(f"round {rd} — "+'; '.join(parts)+'.')
    return '\n'.join(out)
sec12=sec12.replace('@SUMMARY@',_summary())
s=open(f'{V}/DESIGN.md').read()
def put(s, begin, end_marker_regex, new):
    i=s.index(begin)
    m=re.search(end_marker_regex, s[i+10:])
    j=i+10+m.start()
    return s[:i]+new+"\n\n"+s[j:]
s=put(s,"## 5. Defe", r"\n## 6\. ", sec5)
if "## 12. Seeded" in s:
    s=put(s,"## 12. Seeded", r"\n## Appendix A", sec12)
else:
    i=s.index("## Appendix A")
    s=s[:i]+sec12+"\n\n"+s[i:]
open(f'{V}/DESIGN.md','w').write(s)
print("sections regenerated:",len(rows),"findings,",len(srows),"seeded")
