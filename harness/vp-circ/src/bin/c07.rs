//! C07 — hash gadgets equal their reference functions on every message.
//!
//! Sub-checks (engine: `vp_circ::e2` ops for the standard-library hashes,
//! `vp_circ::ops_hash` targets for the FromScratch chips; every verdict is a
//! `MockProver::verify()` verdict on the real library circuit):
//!
//! * `bytehash` — SHA-256, SHA-512, SHA3-256, Keccak-256, BLAKE2b-256/512
//!   (through `ZkStdLib`) and RIPEMD-160 (`RipeMD160Chip` from scratch, the
//!   standard library does not expose it): message bytes and digest bytes are
//!   exposed with `constrain_as_public_input`; reference `sha2`, `sha3`,
//!   `blake2b_simd`, `ripemd`; completeness + S1 (wrong digest byte / wrong
//!   input byte rejected). `bytehash.s2`: sampled assignment-time faults.
//! * `varlen.sha256[.s2]`, `varlen.poseidon[.s2]` — `VarLenSha256Gadget`,
//!   `VarLenPoseidonGadget` on `AssignedVector`s with adversarial filler
//!   (public API `assign_with_filler(.., Some(v))`, and per-cell values set
//!   through the H1 hook on the unconstrained buffer cells): digest equals the
//!   reference on the logical content for two different fillers.
//!   `varlen.poseidon.trailing_filler` isolates defect D1 below.
//! * `poseidon.fixed[.s2]` (`ZkStdLib::poseidon`, 0..12 inputs),
//!   `poseidon.sponge[.s2]` (`PoseidonChip as SpongeInstructions`, random
//!   absorb/squeeze sequences) against the textbook implementation of
//!   `ops_hash` (num-bigint; unshifted rounds ARK → x^5 → M·state, 4+60+4
//!   rounds, constants from `PoseidonField`).
//! * `poseidon.cpu.permutation` (`permutation_cpu` vs textbook),
//!   `poseidon.cpu.hash` (`HashCPU` / `SpongeCPU`), `poseidon.cpu.transcript`
//!   (`PoseidonState as TranscriptHash` absorb/squeeze sequences),
//!   `poseidon.constants.grain` (round constants and MDS regenerated with the
//!   Grain LFSR of the script named in `constants/blstrs.rs`).
//!
//! Observations (documented behaviour, not judged):
//! * `hash(&[])` performs no permutation and returns 0, in and off circuit.
//! * the partial-round S-box acts on the LAST register (documented in
//!   `hash/poseidon/mod.rs`); the reference scripts of the Poseidon paper
//!   (`poseidonperm_*.sage`) apply it to the first one, so digests are not
//!   interoperable with implementations following those scripts even with the
//!   same constants (class label `sbox-first-differs`).
//!
//! Defect on the unchanged tree:
//! * D1 `varlen_poseidon:odd-len:trailing-filler-absorbed` —
//!   circuits/src/hash/poseidon/poseidon_varlen.rs:168 tests
//!   `i == MAX_LEN / RATE`, which no chunk index reaches (`i` ranges over
//!   `0..MAX_LEN/RATE`), so `constrain_last_chunk` is dead code: for an odd
//!   length the unconstrained filler cell behind the data is absorbed and the
//!   digest is that of `data ‖ filler` (capacity `len`) instead of `data`.
//!
//! MUTANTS (scratch worktree /tmp/wt-c07 + harness copy, GUIDE procedure; all
//! caught by the quick tier, seed 1):
//! * M1 SHA-256 message schedule: third rotation (>>> 18) of σ₀ dropped in the
//!   gate (sha256_chip.rs "σ₀(W)") and in the witness helper
//!   (utils.rs `spreaded_sigma_0`) — `bytehash` reports
//!   `sha2_256(len=*):incomplete:reject` for every length, `varlen.sha256`
//!   `varlen_sha256(..):incomplete:reject`, the S2 subs `readback-mismatch`.
//! * M2 var-len SHA-256 final block: `len_lim = 56` → `57`
//!   (sha256_varlen.rs) — `varlen.sha256` reports
//!   `varlen_sha256(M=64|128,..):incomplete:reject` (len = 56 only).
//! * M3 off-circuit permutation skips the first batch of partial rounds
//!   (poseidon_cpu.rs `(0..nb_main_partial_rounds)` → `(1..)`) —
//!   `permutation_cpu:differs-from-textbook`,
//!   `PoseidonChip:HashCPU:differs-from-textbook`,
//!   `PoseidonState:transcript-squeeze-differs-from-textbook`,
//!   `PoseidonChip:SpongeCPU:differs-from-textbook`,
//!   `VarLenPoseidonGadget:HashCPU:differs-from-textbook`.
//! * M4 Poseidon chip: last identity of the partial-round gate
//!   (`output_pow_constraint`, additive selector) dropped — only visible to
//!   faults: `poseidon.fixed.s2` reports `poseidon(n=*):unsound:S2:*` for all
//!   seven input lengths, `poseidon.sponge.s2` and `varlen.poseidon.s2`
//!   likewise.
//! * M5 (candidate repair of D1, `i == MAX_LEN / RATE - 1`):
//!   `varlen.poseidon.trailing_filler` passes (24/24 accepted).

use midnight_circuits::{
    hash::poseidon::{permutation_cpu, round_skips::PreComputedRoundCPU, PoseidonChip, PoseidonState},
    instructions::{hash::HashCPU, SpongeCPU},
};
use midnight_proofs::transcript::TranscriptHash;
use num_bigint::BigUint;
use num_traits::{One, Zero};
use serde::{Deserialize, Serialize};
use vp_circ::{e2::*, ops_hash::*};
use vpcore::{ensure, fail, CaseResult, SplitMix, Verdict};

// ---------------------------------------------------------------------------
// cases

#[derive(Clone, Debug, Serialize, Deserialize)]
struct MsgCase {
    kind: HashKind,
    len: usize,
    /// 0: all 0x00, 1: all 0xFF, 2: 0x80 then zeros, 3: random
    class: u8,
    seed: u64,
}

impl MsgCase {
    fn message(&self) -> Vec<u8> {
        match self.class {
            0 => vec![0u8; self.len],
            1 => vec![0xff; self.len],
            2 => (0..self.len).map(|i| if i == 0 { 0x80 } else { 0 }).collect(),
            _ => SplitMix(self.seed).bytes(self.len),
        }
    }
    fn x(&self) -> Vec<BigUint> {
        self.message().iter().map(|b| BigUint::from(*b)).collect()
    }
    fn class_name(&self) -> &'static str {
        ["all-00", "all-ff", "0x80-prefixed", "random"][self.class.min(3) as usize]
    }
    fn nontrivial(&self) -> bool {
        self.kind.is_padding_boundary(self.len) || self.len >= 2 * self.kind.block()
    }
}

fn msg_cases(kind: HashKind, quick: bool, seed: u64) -> Vec<MsgCase> {
    let mut rng = SplitMix(vpcore::derive_seed(&["C07", "msg", kind.name()], seed));
    let mut v = vec![];
    if quick {
        let mut lens = kind.boundaries(2);
        for _ in 0..2 {
            lens.push(rng.below(2 * kind.block() as u64 + 8) as usize);
        }
        // BLAKE2b-256/512 and SHA3-256/Keccak-256 are two front-ends of one chip
        // each (k = 17 and 14, the most expensive ones): the second front-end
        // gets one content class per length instead of two
        let single = matches!(kind, HashKind::Blake2b256 | HashKind::Keccak256);
        for (i, len) in lens.into_iter().enumerate() {
            if single {
                v.push(MsgCase { kind, len, class: (i % 4) as u8, seed: rng.next_u64() });
            } else {
                v.push(MsgCase { kind, len, class: (i % 3) as u8, seed: rng.next_u64() });
                v.push(MsgCase { kind, len, class: 3, seed: rng.next_u64() });
            }
        }
    } else {
        let max = if kind.block() == 136 { 280 } else { 260 };
        for len in 0..=max {
            for class in 0..4u8 {
                v.push(MsgCase { kind, len, class, seed: rng.next_u64() });
            }
        }
    }
    v
}

fn s2_msg_cases(kind: HashKind, quick: bool, seed: u64) -> Vec<MsgCase> {
    let mut rng = SplitMix(vpcore::derive_seed(&["C07", "s2", kind.name()], seed));
    let b = kind.block();
    // one length whose padding spills into an extra block, one two-block message
    let lens = [b - 1, b + b / 2];
    // faults are counted per chip: the two BLAKE2b and the two Keccak front-ends
    // share one chip each (quick: 2 lengths x 4 cases x 5 faults = 40 per chip)
    let shared = matches!(kind, HashKind::Blake2b256 | HashKind::Blake2b512 | HashKind::Keccak256 | HashKind::Sha3_256);
    let per_len = if quick { if shared { 2 } else { 4 } } else if shared { 20 } else { 40 };
    let mut v = vec![];
    for len in lens {
        for _ in 0..per_len {
            v.push(MsgCase { kind, len, class: 3, seed: rng.next_u64() });
        }
    }
    v
}

#[derive(Clone, Debug, Serialize, Deserialize)]
struct VarCase {
    m: usize,
    len: usize,
    /// 0: api constant filler, 1: hook random, 2: hook copy of a valid padding /
    /// of the data, 3: hook all 0x80
    filler: u8,
    seed: u64,
}

fn filler_name(f: u8) -> &'static str {
    ["api-constant", "hook-random", "hook-padding-copy", "hook-all-0x80"][f.min(3) as usize]
}

/// `[len] ‖ buffer` for a byte vector (alignment 64) with the given filler
/// kind; returns also the filler mode to use.
fn var_bytes_x<const M: usize>(c: &VarCase, variant: u64) -> (Vec<BigUint>, FillerMode) {
    let mut rng = SplitMix(c.seed);
    let data = rng.bytes(c.len);
    let mut frng = SplitMix(c.seed ^ 0x5151_0000 ^ variant.wrapping_mul(0x9E37));
    let lims = midnight_circuits::vec::get_lims::<M, 64>(c.len);
    let mut buf = vec![0u8; M];
    let api_v = [0x80u8, 0xff, 0x01, 0x7f][(frng.below(4)) as usize];
    // the valid SHA-256 padding of the data, used as filler right behind it
    let mut pad = vec![0x80u8];
    while (c.len + pad.len()) % 64 != 56 {
        pad.push(0);
    }
    pad.extend_from_slice(&((c.len as u64) * 8).to_be_bytes());
    for (i, b) in buf.iter_mut().enumerate() {
        *b = if lims.contains(&i) {
            data[i - lims.start]
        } else {
            match c.filler {
                0 => api_v,
                1 => frng.below(256) as u8,
                2 => {
                    if i >= lims.end {
                        pad.get(i - lims.end).copied().unwrap_or(0)
                    } else {
                        // in front of the data: a padded copy of the data itself
                        let j = i % 64;
                        if j < data.len() { data[j] } else { pad.get(j - data.len()).copied().unwrap_or(0) }
                    }
                }
                _ => 0x80,
            }
        };
    }
    let mut x = vec![BigUint::from(c.len)];
    x.extend(buf.iter().map(|b| BigUint::from(*b)));
    (x, if c.filler == 0 { FillerMode::Api(api_v as u64) } else { FillerMode::Hook })
}

/// `[len] ‖ buffer` for a native vector (alignment 2). `zero_trailing`: force
/// the filler cell behind an odd-length payload to 0 (see D1).
fn var_native_x<const M: usize>(c: &VarCase, variant: u64, zero_trailing: bool) -> (Vec<BigUint>, FillerMode) {
    let p = modulus();
    let mut rng = SplitMix(c.seed);
    let big = |r: &mut SplitMix| (BigUint::from(r.next_u64()) << 192 | BigUint::from(r.next_u64()) << 128 | BigUint::from(r.next_u64()) << 64 | BigUint::from(r.next_u64())) % &p;
    let data: Vec<BigUint> = (0..c.len).map(|_| big(&mut rng)).collect();
    let mut frng = SplitMix(c.seed ^ 0x7171_0000 ^ variant.wrapping_mul(0x9E37));
    let lims = midnight_circuits::vec::get_lims::<M, 2>(c.len);
    let api_v = 1 + frng.below(1 << 20);
    let mut x = vec![BigUint::from(c.len)];
    for i in 0..M {
        x.push(if lims.contains(&i) {
            data[i - lims.start].clone()
        } else if zero_trailing && i >= lims.end {
            BigUint::zero()
        } else {
            match c.filler {
                0 => BigUint::from(api_v),
                1 => big(&mut frng),
                // "a copy of a valid padding": the length (the capacity value) / the data again
                2 => if i >= lims.end { BigUint::from(c.len) } else { data.get(i % c.len.max(1)).cloned().unwrap_or_else(|| BigUint::from(c.len)) },
                _ => BigUint::from(0x80u32),
            }
        });
    }
    let mode = if c.filler == 0 && !(zero_trailing && c.len % 2 == 1) { FillerMode::Api(api_v) } else { FillerMode::Hook };
    (x, mode)
}

fn filler_nonzero<const A: usize>(x: &[BigUint], m: usize, len: usize) -> bool {
    let final_pad = (A - (len % A)) % A;
    let lims = m - len - final_pad..m - final_pad;
    (0..m).any(|i| !lims.contains(&i) && !x[1 + i].is_zero())
}

#[derive(Clone, Debug, Serialize, Deserialize)]
struct PosCase {
    n: usize,
    /// 0: random, 1: all zero, 2: all p-1, 3: small
    class: u8,
    seed: u64,
}

fn field_elems(n: usize, class: u8, seed: u64) -> Vec<BigUint> {
    let p = modulus();
    let mut r = SplitMix(seed);
    (0..n)
        .map(|_| match class {
            1 => BigUint::zero(),
            2 => &p - BigUint::one(),
            3 => BigUint::from(r.below(4)),
            _ => (BigUint::from(r.next_u64()) << 192 | BigUint::from(r.next_u64()) << 128 | BigUint::from(r.next_u64()) << 64 | BigUint::from(r.next_u64())) % &p,
        })
        .collect()
}

#[derive(Clone, Debug, Serialize, Deserialize)]
struct SeqCase {
    fixed: bool,
    steps: Vec<Step>,
    seed: u64,
}

fn seq_case(rng: &mut SplitMix, max_steps: u64, max_absorb: u64) -> SeqCase {
    let fixed = rng.below(4) == 0;
    let mut steps = vec![];
    if fixed {
        // fixed-length mode: absorbs (possibly split) then exactly one squeeze
        for _ in 0..rng.below(4) {
            steps.push(Step::Absorb(rng.below(max_absorb + 1) as usize));
        }
        steps.push(Step::Squeeze);
    } else {
        for _ in 0..1 + rng.below(max_steps) {
            steps.push(if rng.below(5) < 2 { Step::Absorb(rng.below(max_absorb + 1) as usize) } else { Step::Squeeze });
        }
        if !steps.contains(&Step::Squeeze) {
            steps.push(Step::Squeeze);
        }
    }
    SeqCase { fixed, steps, seed: rng.next_u64() }
}

impl SeqCase {
    fn op(&self) -> SpongeOp {
        let n: usize = self.steps.iter().map(|s| if let Step::Absorb(k) = s { *k } else { 0 }).sum();
        SpongeOp { fixed_len: if self.fixed { Some(n) } else { None }, steps: self.steps.clone() }
    }
    fn nontrivial(&self) -> bool {
        // at least one permutation with absorbed data, and (variable mode) a
        // squeeze that does not permute or a re-absorption after a squeeze
        let op = self.op();
        op.n_inputs() > 0 && (self.fixed || self.steps.windows(2).any(|w| w[0] == Step::Squeeze))
    }
}

// ---------------------------------------------------------------------------

fn run_varlen_sha<const M: usize>(c: &VarCase) -> CaseResult {
    let (xa, ma) = var_bytes_x::<M>(c, 0);
    // second filler for the same logical content
    let other = VarCase { filler: if c.filler == 1 { 3 } else { 1 }, ..c.clone() };
    let (xb, mb) = var_bytes_x::<M>(&other, 1);
    let ra = VarSha256::<M> { filler: ma }.reference(&xa);
    let rb = VarSha256::<M> { filler: mb }.reference(&xb);
    ensure!(ra.is_some() && ra == rb, "harness:varlen_sha256:references-differ", "{ra:?} {rb:?}");
    let v = complete_and_s1(&ScrT(VarSha256::<M> { filler: ma }), &xa, c.seed, S1Mode::Sample(4))?;
    complete_and_s1(&ScrT(VarSha256::<M> { filler: mb }), &xb, c.seed ^ 1, S1Mode::Sample(2))?;
    let nt = c.len < M && filler_nonzero::<64>(&xa, M, c.len) && filler_nonzero::<64>(&xb, M, c.len) && xa != xb;
    Ok(Verdict::of(nt && v.nontrivial, filler_name(c.filler)).with(format!("M={M}")).with(if [55, 56, 63, 64, 119, 120, 127, 128].contains(&c.len) { "padding-boundary" } else { "other-len" }))
}

fn run_varlen_poseidon<const M: usize>(c: &VarCase) -> CaseResult {
    let (xa, ma) = var_native_x::<M>(c, 0, true);
    let other = VarCase { filler: if c.filler == 1 { 3 } else { 1 }, ..c.clone() };
    let (xb, mb) = var_native_x::<M>(&other, 1, true);
    let ra = VarPoseidon::<M> { filler: ma }.reference(&xa);
    let rb = VarPoseidon::<M> { filler: mb }.reference(&xb);
    ensure!(ra.is_some() && ra == rb, "harness:varlen_poseidon:references-differ", "{ra:?} {rb:?}");
    // off-circuit HashCPU of the gadget on the logical content (3-way)
    let (_, lims) = varlen_split::<M, 2>(&xa).unwrap();
    let data: Vec<F> = xa[1..][lims].iter().map(big_to_f).collect();
    let cpu = <midnight_circuits::hash::poseidon::VarLenPoseidonGadget<F> as HashCPU<F, F>>::hash(&data);
    ensure!(Some(vec![cpu]) == ra, "VarLenPoseidonGadget:HashCPU:differs-from-textbook", "len={} cpu={cpu:?} textbook={ra:?}", c.len);
    let v = complete_and_s1(&ScrT(VarPoseidon::<M> { filler: ma }), &xa, c.seed, S1Mode::All)?;
    complete_and_s1(&ScrT(VarPoseidon::<M> { filler: mb }), &xb, c.seed ^ 1, S1Mode::All)?;
    let nt = c.len < M && filler_nonzero::<2>(&xa, M, c.len) && filler_nonzero::<2>(&xb, M, c.len) && xa != xb;
    Ok(Verdict::of(nt && v.nontrivial, filler_name(c.filler)).with(format!("M={M}")).with(if c.len % 2 == 1 { "odd-len(trailing filler forced to 0)" } else { "even-len" }))
}

/// D1: odd length, non-zero filler behind the data.
fn run_varlen_poseidon_trailing<const M: usize>(c: &VarCase) -> CaseResult {
    let (x, mode) = var_native_x::<M>(c, 0, false);
    let op = VarPoseidon::<M> { filler: mode };
    let inst = op.reference(&x).unwrap();
    let run = run_target(&ScrT(op.clone()), &x, Inst::Given(inst.clone()), &Default::default())?;
    if run.outcome.accepted() {
        return Ok(Verdict::nontrivial(filler_name(c.filler)).with(format!("M={M}")));
    }
    // diagnose: what digest does the circuit bind?
    let rb = run_target(&ScrT(op.clone()), &x, Inst::ReadBack(1), &Default::default())?;
    let (_, lims) = varlen_split::<M, 2>(&x).unwrap();
    let mut with_filler: Vec<BigUint> = x[1..][lims.clone()].to_vec();
    with_filler.push(x[1 + lims.end].clone());
    // sponge over data ‖ trailing filler with capacity = len
    let mut reg = vec![BigUint::zero(), BigUint::zero(), BigUint::from(c.len)];
    for ch in with_filler.chunks(2) {
        for (i, v) in ch.iter().enumerate() {
            reg[i] = (&reg[i] + v) % modulus();
        }
        tb_permutation(&mut reg);
    }
    if rb.outcome.accepted() && rb.public.len() == 1 && f_to_big(&rb.public[0]) == reg[0] {
        fail!(
            "varlen_poseidon:odd-len:trailing-filler-absorbed",
            "VarLenPoseidonGadget<M={M}> with len={} and filler {:x} behind the data ({}): the circuit rejects the digest of the logical content {:x} and accepts {:x} = sponge(data ‖ filler, capacity=len); x={:?}",
            c.len,
            x[1 + lims.end],
            filler_name(c.filler),
            f_to_big(&inst[0]),
            reg[0],
            x.iter().map(|v| format!("{v:x}")).collect::<Vec<_>>()
        );
    }
    fail!(format!("{}:incomplete:{}", op.name(), run.outcome.label()), "len={} outcome={:?} read-back={:?}", c.len, run.outcome, rb.public);
}

macro_rules! by_m {
    ($f:ident, $c:expr, [$($m:literal),*]) => {
        match $c.m { $($m => $f::<$m>($c),)* m => Err(vpcore::Failure::new("harness:unsupported-M", format!("{m}"))) }
    };
}

/// Diagnostic: `C07_ONLY=prefix[,prefix..]` runs only the sub-checks whose name
/// starts with one of the prefixes (development / mutant runs; the registered
/// entry point never sets it).
fn on(name: &str) -> bool {
    match std::env::var("C07_ONLY") {
        Ok(f) if !f.is_empty() => f.split(',').any(|p| name.starts_with(p)),
        _ => true,
    }
}

/// Diagnostic (`C07_VISIT=1 c07 quick`): walks the catalogue exported for
/// C08/C09 (`visit_ops`, `visit_scratch_ops`) and checks that every input is in
/// the domain, synthesises, and gives the same structure fingerprint.
fn visit_selfcheck(seed: u64) {
    struct V(usize, usize);
    impl OpVisitor for V {
        fn visit<O: Op>(&mut self, op: &O, inputs: &[Vec<BigUint>]) {
            let s: Vec<_> = inputs.iter().map(|x| structure_of(op, x)).collect();
            self.0 += 1;
            if s.iter().any(|r| r.is_err()) || s.windows(2).any(|w| w[0] != w[1]) {
                self.1 += 1;
                println!("visit {}: {:?}", op.name(), s);
            }
        }
    }
    impl ScratchVisitor for V {
        fn visit<O: ScratchOp>(&mut self, op: &O, inputs: &[Vec<BigUint>]) {
            let s: Vec<_> = inputs.iter().map(|x| scratch_structure_of(op, x)).collect();
            self.0 += 1;
            let vk0 = scratch_op_k(op, &inputs[0]).and_then(|k| scratch_vk_bytes(op, None, k).map(|b| (k, b)));
            let vk1 = vk0.clone().and_then(|(k, _)| scratch_vk_bytes(op, Some(&inputs[inputs.len() - 1]), k));
            if s.iter().any(|r| r.is_err()) || s.windows(2).any(|w| w[0] != w[1]) || vk0.clone().map(|v| v.1).ok() != vk1.clone().ok() || vk0.is_err() {
                self.1 += 1;
                println!("visit {}: {:?} vk {:?} {:?}", op.name(), s, vk0.map(|v| v.1.len()), vk1.map(|v| v.len()));
            }
        }
    }
    let mut v = V(0, 0);
    visit_ops(&mut v, true, seed);
    visit_scratch_ops(&mut v, true, seed);
    println!("catalogue: {} ops visited, {} with differing/failed structure", v.0, v.1);
}

fn main() {
    if std::env::var("C07_VISIT").is_ok() {
        vpcore::install_panic_hook();
        visit_selfcheck(1);
        return;
    }
    vpcore::main("C07", "fault_enumeration", (1500, 14400), |p| {
        p.assume("reference digests: crates sha2, sha3, ripemd, blake2b_simd");
        p.assume("Poseidon reference: harness textbook permutation over num-bigint (ARK → x^5 → M·state, 4 full + 60 partial (S-box on the last register, as documented in hash/poseidon/mod.rs) + 4 full rounds, width 3, rate 2) with the constants published in PoseidonField::{MDS, ROUND_CONSTANTS}; sponge framing re-derived from poseidon_cpu.rs (capacity = input length, or 2^64 with the queue length appended at each permuting squeeze)");
        p.assume("constants: Grain LFSR and Cauchy matrix construction of generate_parameters_grain.sage (1 0 255 3 8 60 p) re-implemented in the harness; the script's three subspace-trail filters on the matrix are NOT re-implemented (the repository matrix must be the first candidate the generator produces)");
        p.assume("variable-length gadgets: the logical input of the opaque AssignedVector is taken from InnerValue::value() at synthesis time; filler cells are set through assign_with_filler or through hook H1 on the buffer assignments (documented as unconstrained)");
        p.assume("verdicts are MockProver::verify() verdicts (it evaluates additive-selector constraints on this tree); wrong-claim runs reuse one synthesised prover and overwrite the instance cells");
        let quick = p.quick();
        let seed = p.seed;

        // ---------------- off-circuit Poseidon
        let perm_strat = || {
            use vpcore::proptest::prelude::*;
            (0u8..6, any::<u64>()).prop_map(|(class, seed)| PosCase { n: 3, class, seed }).boxed()
        };
        if on("poseidon.cpu.permutation") {
        p.sub("poseidon.cpu.permutation", "every state is a full 68-round evaluation; boundary classes labelled", p.tier.pick(600, 40_000), 16, perm_strat, |c| {
            let st: Vec<BigUint> = match c.class {
                4 => {
                    // one non-zero register
                    let mut v = vec![BigUint::zero(); 3];
                    v[(c.seed % 3) as usize] = field_elems(1, 0, c.seed).pop().unwrap();
                    v
                }
                5 => field_elems(3, 0, c.seed),
                cl => field_elems(3, cl, c.seed),
            };
            let mut tb = st.clone();
            tb_permutation(&mut tb);
            let mut cpu: Vec<F> = st.iter().map(big_to_f).collect();
            permutation_cpu(&PreComputedRoundCPU::<F>::init(), &mut cpu);
            let cpu_b: Vec<BigUint> = cpu.iter().map(f_to_big).collect();
            ensure!(tb == cpu_b, "permutation_cpu:differs-from-textbook", "state {:?}: textbook {:?}, permutation_cpu {:?}", st, tb, cpu_b);
            let mut first = st.clone();
            tb_permutation_with(tb_params(), &mut first, 0);
            Ok(Verdict::nontrivial(["random", "zero", "p-1", "small", "one-register", "random"][c.class.min(5) as usize]).with(if first != tb { "sbox-first-differs" } else { "sbox-first-equal" }))
        });
        }

        let mut items = vec![];
        let mut rng = SplitMix(vpcore::derive_seed(&["C07", "cpu.hash"], seed));
        for n in 0..=p.tier.pick(16usize, 70) {
            for class in 0..4u8 {
                items.push(PosCase { n, class, seed: rng.next_u64() });
            }
        }
        if on("poseidon.cpu.hash") {
        p.enumerate("poseidon.cpu.hash", "n >= 1 (n = 0 is the documented degenerate case: no permutation, digest 0)", items, 16, false, |c| {
            let xs = field_elems(c.n, c.class, c.seed);
            let xf: Vec<F> = xs.iter().map(big_to_f).collect();
            let tb = tb_hash_fixed(&xs);
            let cpu = <PoseidonChip<F> as HashCPU<F, F>>::hash(&xf);
            ensure!(f_to_big(&cpu) == tb, "PoseidonChip:HashCPU:differs-from-textbook", "n={} inputs {:?}: HashCPU {:?}, textbook {:x}", c.n, xs, cpu, tb);
            // the same through the SpongeCPU interface, absorbed in two pieces
            let mut st = <PoseidonChip<F> as SpongeCPU<F, F>>::init(Some(c.n));
            let cut = c.n / 2;
            <PoseidonChip<F> as SpongeCPU<F, F>>::absorb(&mut st, &xf[..cut]);
            <PoseidonChip<F> as SpongeCPU<F, F>>::absorb(&mut st, &xf[cut..]);
            let sp = <PoseidonChip<F> as SpongeCPU<F, F>>::squeeze(&mut st);
            ensure!(sp == cpu, "PoseidonChip:SpongeCPU:fixed-length-differs-from-HashCPU", "n={}", c.n);
            if c.n == 0 {
                ensure!(tb.is_zero(), "harness:textbook-empty-hash", "{tb:x}");
            }
            Ok(Verdict::of(c.n >= 1, format!("n={}", if c.n <= 12 { c.n.to_string() } else { ">12".into() })).with(if c.n % 2 == 1 { "odd (half-filled last chunk)" } else { "even" }))
        });
        }

        let seq_strat = || {
            use vpcore::proptest::prelude::*;
            any::<u64>().prop_map(|s| { let mut r = SplitMix(s); let mut c = seq_case(&mut r, 14, 5); c.fixed = false; if !c.steps.contains(&Step::Squeeze) || c.steps.len() < 2 { c = SeqCase { fixed: false, steps: vec![Step::Absorb(3), Step::Squeeze, Step::Squeeze, Step::Squeeze, Step::Absorb(1), Step::Squeeze], seed: s }; } c }).boxed()
        };
        if on("poseidon.cpu.transcript") {
        p.sub("poseidon.cpu.transcript", "absorbs data and contains a squeeze directly after a squeeze or a re-absorption after a squeeze", p.tier.pick(400, 20_000), 16, seq_strat, |c| {
            // variable-length mode only (TranscriptHash::init() = init(None))
            let steps: Vec<Step> = c.steps.clone();
            let n: usize = steps.iter().map(|s| if let Step::Absorb(k) = s { *k } else { 0 }).sum();
            let xs = field_elems(n, (c.seed % 4) as u8, c.seed);
            let mut st = <PoseidonState<F> as TranscriptHash>::init();
            let mut tb = TbSponge::new(None);
            let mut pos = 0;
            for (i, s) in steps.iter().enumerate() {
                match s {
                    Step::Absorb(k) => {
                        let chunk: Vec<F> = xs[pos..pos + k].iter().map(big_to_f).collect();
                        TranscriptHash::absorb(&mut st, &chunk);
                        tb.absorb(&xs[pos..pos + k]);
                        pos += k;
                    }
                    Step::Squeeze => {
                        let a = TranscriptHash::squeeze(&mut st);
                        let b = tb.squeeze().unwrap();
                        ensure!(f_to_big(&a) == b, "PoseidonState:transcript-squeeze-differs-from-textbook", "step {i} of {:?} on inputs {:?}: PoseidonState {:?}, textbook {:x}", steps, xs, a, b);
                    }
                }
            }
            let nt = n > 0 && steps.windows(2).any(|w| w[0] == Step::Squeeze);
            Ok(Verdict::of(nt, if steps.windows(2).any(|w| w == [Step::Squeeze, Step::Squeeze]) { "double-squeeze" } else { "single-squeezes" }).with(if steps.contains(&Step::Absorb(0)) { "empty-absorb" } else { "no-empty-absorb" }))
        });
        }

        if on("poseidon.constants.grain") {
        p.enumerate("poseidon.constants.grain", "the generator reproduces all 204 round constants (a wrong LFSR cannot)", vec![0u8], 1, true, |_| {
            let par = tb_params();
            ensure!(PoseidonChip::<F>::nb_full_rounds() == TB_RF && PoseidonChip::<F>::nb_partial_rounds() == TB_RP && PoseidonChip::<F>::register_size() == TB_WIDTH && PoseidonChip::<F>::rate() == TB_RATE, "poseidon:round-numbers", "configured {}+{} rounds, width {}, rate {}", PoseidonChip::<F>::nb_full_rounds(), PoseidonChip::<F>::nb_partial_rounds(), PoseidonChip::<F>::register_size(), PoseidonChip::<F>::rate());
            let g = grain_parameters(&par.p, 255, TB_WIDTH, TB_RF, TB_RP, 4);
            let flat: Vec<BigUint> = par.rc.iter().flatten().cloned().collect();
            let bad: Vec<usize> = (0..flat.len()).filter(|i| flat[*i] != g.round_constants[*i]).collect();
            ensure!(bad.is_empty(), "poseidon:constants:round-constants-differ-from-grain", "{} of {} round constants differ, first at flat index {} (round {}, register {}): repository {:x}, generator {:x}", bad.len(), flat.len(), bad[0], bad[0] / 3, bad[0] % 3, flat[bad[0]], g.round_constants[bad[0]]);
            let which = g.mds_candidates.iter().position(|m| *m == par.mds);
            ensure!(which == Some(0), "poseidon:constants:mds-differs-from-grain", "repository MDS {:?} is candidate {:?} of the generator (first candidate {:?})", par.mds, which, g.mds_candidates[0]);
            // Cauchy structure sanity: all entries invertible and distinct
            Ok(Verdict::nontrivial("204 round constants + MDS = first Cauchy candidate"))
        });
        }

        // ---------------- in-circuit Poseidon
        let mut items = vec![];
        let mut rng = SplitMix(vpcore::derive_seed(&["C07", "poseidon.fixed"], seed));
        for n in 0..=12usize {
            for class in 0..p.tier.pick(3u8, 4) {
                for _ in 0..p.tier.pick(1, 6) {
                    items.push(PosCase { n, class: (class + 3) % 4, seed: rng.next_u64() });
                }
            }
        }
        if on("poseidon.fixed") {
        p.enumerate("poseidon.fixed", "n >= 1 (at least one in-circuit permutation)", items, 16, false, |c| {
            let xs = field_elems(c.n, c.class, c.seed);
            let v = complete_and_s1(&StdT(PoseidonFixed { n: c.n }), &xs, c.seed, S1Mode::All)?;
            Ok(Verdict::of(c.n >= 1 && v.nontrivial, format!("n={}", c.n)))
        });
        }
        let mut items = vec![];
        for n in [1usize, 2, 3, 4, 5, 8, 12] {
            for _ in 0..p.tier.pick(4, 12) {
                items.push(PosCase { n, class: 0, seed: rng.next_u64() });
            }
        }
        if on("poseidon.fixed.s2") {
        p.enumerate("poseidon.fixed.s2", "a fault was rejected or accepted with correct public values", items, 16, false, |c| {
            let xs = field_elems(c.n, c.class, c.seed);
            let (st, v) = check_s2(&PoseidonFixed { n: c.n }, &xs, c.seed, if quick { 60 } else { 170 }, false, !quick)?;
            Ok(v.with(s2_label(&st)))
        });
        }

        let mut items = vec![];
        let mut rng = SplitMix(vpcore::derive_seed(&["C07", "poseidon.sponge"], seed));
        items.push(SeqCase { fixed: false, steps: vec![Step::Absorb(3), Step::Squeeze, Step::Squeeze, Step::Squeeze, Step::Absorb(0), Step::Squeeze, Step::Absorb(2), Step::Absorb(1), Step::Squeeze], seed: rng.next_u64() });
        items.push(SeqCase { fixed: false, steps: vec![Step::Squeeze], seed: rng.next_u64() });
        items.push(SeqCase { fixed: true, steps: vec![Step::Squeeze], seed: rng.next_u64() });
        for _ in 0..p.tier.pick(40, 1500) {
            items.push(seq_case(&mut rng, 8, 4));
        }
        if on("poseidon.sponge") {
        p.enumerate("poseidon.sponge", "absorbs data and (variable mode) squeezes twice in a row or re-absorbs after a squeeze", items.clone(), 16, false, |c| {
            let op = c.op();
            let xs = field_elems(op.n_inputs(), (c.seed % 4) as u8, c.seed);
            // off-circuit SpongeCPU agrees with the reference as well
            let inst = op.reference(&xs).unwrap();
            let mut st = <PoseidonChip<F> as SpongeCPU<F, F>>::init(op.fixed_len);
            let (mut pos, mut k) = (0, op.n_inputs());
            for s in &op.steps {
                match s {
                    Step::Absorb(a) => {
                        let chunk: Vec<F> = xs[pos..pos + a].iter().map(big_to_f).collect();
                        <PoseidonChip<F> as SpongeCPU<F, F>>::absorb(&mut st, &chunk);
                        pos += a;
                    }
                    Step::Squeeze => {
                        let o = <PoseidonChip<F> as SpongeCPU<F, F>>::squeeze(&mut st);
                        ensure!(o == inst[k], "PoseidonChip:SpongeCPU:differs-from-textbook", "{} inputs {:?}: output #{} is {:?}, textbook {:?}", op.name(), xs, k - op.n_inputs(), o, inst[k]);
                        k += 1;
                    }
                }
            }
            let v = complete_and_s1(&ScrT(op), &xs, c.seed, S1Mode::All)?;
            Ok(Verdict::of(c.nontrivial() && v.nontrivial, if c.fixed { "fixed-length" } else { "variable-length" }).with(if c.steps.windows(2).any(|w| w == [Step::Squeeze, Step::Squeeze]) { "double-squeeze" } else { "no-double-squeeze" }))
        });
        }
        let s2_items: Vec<SeqCase> = items.into_iter().filter(|c| c.op().n_inputs() > 0).take(p.tier.pick(6, 60)).collect();
        if on("poseidon.sponge.s2") {
        p.enumerate("poseidon.sponge.s2", "a fault was rejected or accepted with correct public values", s2_items, 16, false, |c| {
            let op = c.op();
            let xs = field_elems(op.n_inputs(), 0, c.seed);
            let (st, v) = s2_target(&ScrT(op), &xs, c.seed, if quick { 20 } else { 100 }, &[])?;
            Ok(v.with(s2_label(&st)))
        });
        }

        // ---------------- variable-length Poseidon
        let mut items = vec![];
        let mut trailing = vec![];
        let mut rng = SplitMix(vpcore::derive_seed(&["C07", "varlen.poseidon"], seed));
        for m in if quick { vec![4usize, 8] } else { vec![4, 8, 16] } {
            for len in 0..=m {
                for filler in 0..4u8 {
                    for _ in 0..p.tier.pick(1, 6) {
                        items.push(VarCase { m, len, filler, seed: rng.next_u64() });
                        if len % 2 == 1 {
                            trailing.push(VarCase { m, len, filler, seed: rng.next_u64() });
                        }
                    }
                }
            }
        }
        if on("varlen.poseidon") {
        p.enumerate("varlen.poseidon", "both fillers non-zero and different, len < MAX", items.clone(), 16, false, |c| by_m!(run_varlen_poseidon, c, [4, 8, 16]));
        p.enumerate("varlen.poseidon.trailing_filler", "odd length with a non-zero filler cell behind the data (the only position where a filler shares a chunk with data)", trailing, 16, false, |c| by_m!(run_varlen_poseidon_trailing, c, [4, 8, 16]));
        let s2_items: Vec<VarCase> = items.iter().filter(|c| c.filler == 1 && c.len > 0 && c.len < c.m).step_by(p.tier.pick(2, 1)).cloned().collect();
        p.enumerate("varlen.poseidon.s2", "a fault was rejected or accepted with correct public values", s2_items, 16, false, |c| {
            fn go<const M: usize>(c: &VarCase) -> CaseResult {
                let (x, mode) = var_native_x::<M>(c, 0, true);
                // D1: the filler cell behind an odd-length payload (assignment M-1)
                // is covered by `varlen.poseidon.trailing_filler`
                let exclude: Vec<usize> = if c.len % 2 == 1 { vec![M - 1] } else { vec![] };
                let (st, v) = s2_target(&ScrT(VarPoseidon::<M> { filler: mode }), &x, c.seed, 25, &exclude).map_err(|mut f| {
                    // a fault on the length cell can turn an even-length vector into an
                    // odd-length one whose last chunk holds a former data cell: D1 again
                    if f.signature.ends_with(":unsound:S2:odd-len:trailing-filler-absorbed") {
                        f.signature = "varlen_poseidon:odd-len:trailing-filler-absorbed:via-S2".into();
                    }
                    f
                })?;
                Ok(v.with(s2_label(&st)).with(format!("M={M}")))
            }
            by_m!(go, c, [4, 8, 16])
        });
        }

        // ---------------- variable-length SHA-256
        let mut items = vec![];
        let mut rng = SplitMix(vpcore::derive_seed(&["C07", "varlen.sha256"], seed));
        for len in 0..=64usize {
            for filler in if quick { vec![(len % 4) as u8] } else { vec![0u8, 1, 2, 3] } {
                items.push(VarCase { m: 64, len, filler, seed: rng.next_u64() });
            }
        }
        let lens128: Vec<usize> = if quick { vec![0, 1, 55, 56, 63, 64, 65, 100, 119, 120, 127, 128] } else { (0..=128).collect() };
        for (i, len) in lens128.into_iter().enumerate() {
            for filler in if quick { vec![((i + 1) % 4) as u8] } else { vec![0u8, 1, 2, 3] } {
                items.push(VarCase { m: 128, len, filler, seed: rng.next_u64() });
            }
        }
        if !quick {
            for len in [0usize, 1, 55, 56, 64, 119, 120, 128, 183, 184, 191, 192] {
                items.push(VarCase { m: 192, len, filler: (len % 4) as u8, seed: rng.next_u64() });
            }
        }
        if on("varlen.sha256") {
        p.enumerate("varlen.sha256", "both fillers non-zero and different, len < MAX", items.clone(), 16, false, |c| by_m!(run_varlen_sha, c, [64, 128, 192]));
        let s2_items: Vec<VarCase> = items.iter().filter(|c| [10usize, 55, 56, 70].contains(&c.len) && c.m <= 128).cloned().collect();
        let s2_items: Vec<VarCase> = if quick { s2_items } else { s2_items.iter().cycle().take(100).enumerate().map(|(i, c)| VarCase { seed: c.seed ^ i as u64, ..c.clone() }).collect() };
        p.enumerate("varlen.sha256.s2", "a fault was rejected or accepted with correct public values", s2_items, 16, false, |c| {
            fn go<const M: usize>(c: &VarCase) -> CaseResult {
                let c = VarCase { filler: 1, ..c.clone() };
                let (x, mode) = var_bytes_x::<M>(&c, 0);
                let (st, v) = s2_target(&ScrT(VarSha256::<M> { filler: mode }), &x, c.seed, 8, &[])?;
                Ok(v.with(s2_label(&st)).with(format!("M={M}")))
            }
            by_m!(go, c, [64, 128])
        });
        }

        // ---------------- byte hashes (one sub-check for all seven functions so
        // that the 16 worker threads stay busy; the per-function histogram is in
        // the class labels, the function and length are in every signature)
        let kinds: Vec<HashKind> = [HashKind::Blake2b512, HashKind::Blake2b256, HashKind::Keccak256, HashKind::Sha3_256, HashKind::Sha512, HashKind::Ripemd160, HashKind::Sha256].to_vec();
        let s1 = if quick { S1Mode::Sample(6) } else { S1Mode::Sample(12) };
        let items: Vec<MsgCase> = kinds.iter().flat_map(|k| msg_cases(*k, quick, seed)).collect();
        if on("bytehash") {
        p.enumerate("bytehash", "length is a padding boundary or >= 2 blocks", items, 16, false, |c| {
            let x = c.x();
            let v = if c.kind == HashKind::Ripemd160 { complete_and_s1(&ScrT(Ripemd160Op { len: c.len }), &x, c.seed, s1)? } else { complete_and_s1(&StdT(ByteHash { kind: c.kind, len: c.len }), &x, c.seed, s1)? };
            Ok(Verdict::of(c.nontrivial() && v.nontrivial, c.kind.name())
                .with(c.class_name())
                .with(if c.kind.is_padding_boundary(c.len) { "padding-boundary" } else if c.len >= 2 * c.kind.block() { ">=2-blocks" } else { "other-len" }))
        });
        }
        if on("bytehash.lookup-tuples") {
            // the spread-table chips (SHA-256, SHA-512, RIPEMD-160): cells tied by a lookup are
            // replaced together by another row of the table, the remaining gates repaired
            let mut rng = SplitMix(vpcore::derive_seed(&["C07", "s5"], seed));
            let items: Vec<MsgCase> = (if quick { vec![HashKind::Ripemd160, HashKind::Sha256] } else { vec![HashKind::Ripemd160, HashKind::Sha256, HashKind::Sha512] }).iter().map(|k| MsgCase { kind: *k, len: 3, class: 3, seed: rng.next_u64() }).collect();
            p.enumerate(
                "bytehash.lookup-tuples",
                "coherent lookup-tuple substitution (S5): on one honest run, the advice cells that one lookup row ties together (a limb and its spread form, ...) are replaced together by another row of the table with the same non-advice slots, one row per structural class; gate constraints violated by that are repaired by solving for a nearby assignment in which the residual is affine (depth 2); any accepted replay must expose the reference digest; non-trivial = at least one tuple substituted",
                items,
                3,
                false,
                |c| {
                    let x = c.x();
                    let (max_classes, budget) = if !quick { (100_000, 60) } else if c.kind == HashKind::Ripemd160 { (64, 20) } else { (32, 16) };
                    let (st, v) = if c.kind == HashKind::Ripemd160 { vp_circ::ops_hash::s5_target(&ScrT(Ripemd160Op { len: c.len }), &x, c.seed, max_classes, budget)? } else { vp_circ::ops_hash::s5_target(&StdT(ByteHash { kind: c.kind, len: c.len }), &x, c.seed, max_classes, budget)? };
                    Ok(v.with(format!("{}: lookups={} classes={} tuples={} replays={} repairs={} accepted-correct={} accepted-same={}", c.kind.name(), st.lookups, st.classes, st.tuples_tried, st.replays, st.repairs_found, st.accepted_correct, st.accepted_same)))
                },
            );
        }
        if on("bytehash.sweep") {
            // one chip each: SHA-256, SHA-512, BLAKE2b, Keccak-f
            let mut rng = SplitMix(vpcore::derive_seed(&["C07", "sweep"], seed));
            let items: Vec<MsgCase> = [HashKind::Sha256, HashKind::Sha512, HashKind::Blake2b512, HashKind::Keccak256, HashKind::Sha3_256, HashKind::Blake2b256]
                .iter()
                .take(p.tier.pick(4, 6))
                .map(|k| MsgCase { kind: *k, len: k.block() - 1, class: 3, seed: rng.next_u64() })
                .collect();
            p.enumerate(
                "bytehash.sweep",
                "class-representative fault sweep: the assignments of one honest run are grouped by (region shape, column, offset in the region); one occurrence per class is changed by +1 (many classes per synthesis, far apart) and must be detected by a gate / lookup within 12 rows or a copy failure at the cell; undetected ones are confirmed singly with full verification and must not expose a wrong digest; non-trivial = at least one fault detected",
                items,
                6,
                false,
                |c| {
                    let x = c.x();
                    let (st, v) = vp_circ::e2::check_class_sweep(&ByteHash { kind: c.kind, len: c.len }, &x, c.seed, if quick { 600 } else { 100_000 }, 24)?;
                    Ok(v.with(format!("{}: classes={} swept={} runs={} local={} confirmed={} (rejected {}, harmless {})", c.kind.name(), st.classes, st.swept, st.runs, st.detected_locally, st.confirmed, st.confirmed_rejected, st.confirmed_harmless)))
                },
            );
        }
        let items: Vec<MsgCase> = kinds.iter().flat_map(|k| s2_msg_cases(*k, quick, seed)).collect();
        if on("bytehash.s2") {
        p.enumerate("bytehash.s2", "a fault was rejected or accepted with correct public values", items, 16, false, |c| {
            let x = c.x();
            let n = if quick { 5 } else { 25 };
            let (st, v) = if c.kind == HashKind::Ripemd160 { s2_target(&ScrT(Ripemd160Op { len: c.len }), &x, c.seed, n, &[])? } else { check_s2(&ByteHash { kind: c.kind, len: c.len }, &x, c.seed, n, false, false)? };
            Ok(Verdict::of(v.nontrivial, c.kind.name()).with(s2_label(&st)).with(format!("{}(len={})", c.kind.name(), c.len)))
        });
        }
    });
}
