//! E2/E3 — gadget operations as harness relations, with completeness runs,
//! wrong-claim runs (S1) and assignment-time fault runs (S2, hook H1) judged
//! against a reference model.
//!
//! An [`Op`] builds a small circuit over `ZkStdLib`: it assigns its inputs as
//! witnesses, exposes inputs and outputs as public inputs
//! (`constrain_as_public_input`, whose checks are in-circuit), and provides
//! the reference: the honest instance vector for given inputs, and a judge
//! that decides whether an arbitrary exposed vector is a correct
//! (input, output) pair.
//!
//! Oracle common to all adversarial modes: let `pub` be the values exposed in
//! the instance column of a run that `MockProver::verify` accepts; violation
//! iff `!op.judge(pub)`. Accepting assignments whose public values are correct
//! are never violations.

use std::{
    collections::HashMap,
    sync::{Mutex, OnceLock},
};

use ff::PrimeField;
use midnight_proofs::{
    circuit::{verif_hooks, Layouter, Value},
    dev::{CellValue, InstanceValue, MockProver},
    plonk::{Any, Error},
};
use midnight_zk_stdlib::{MidnightCircuit, Relation, ZkStdLib, ZkStdLibArch};
use num_bigint::BigUint;
use rayon::iter::ParallelIterator;

pub use midnight_proofs::circuit::verif_hooks::{AssignRecord, Fault};

pub type F = midnight_curves::Fq;

pub fn f_to_big(x: &F) -> BigUint {
    BigUint::from_bytes_le(x.to_repr().as_ref())
}

pub fn big_to_f(x: &BigUint) -> F {
    let p = modulus();
    let mut b = (x % &p).to_bytes_le();
    b.resize(32, 0);
    let mut r = <F as PrimeField>::Repr::default();
    r.as_mut().copy_from_slice(&b);
    F::from_repr(r).unwrap()
}

pub fn modulus() -> BigUint {
    BigUint::parse_bytes(F::MODULUS.trim_start_matches("0x").as_bytes(), 16).unwrap()
}

pub trait Op: Clone + Send + Sync + 'static {
    /// Stable name (includes parameters), used in signatures and caches.
    fn name(&self) -> String;
    fn arch(&self) -> ZkStdLibArch {
        ZkStdLibArch::default()
    }
    fn max_bit_len(&self) -> u8 {
        8
    }
    /// Assigns the inputs `x`, exposes them, applies the operation, exposes the
    /// outputs.
    fn circuit<L: Layouter<F>>(&self, std: &ZkStdLib, l: &mut L, x: Value<Vec<BigUint>>) -> Result<(), Error>;
    /// The honest instance vector (encoding of inputs followed by encoding of
    /// outputs) for in-domain inputs; `None` when `x` is outside the documented
    /// domain (then no instance may be accepted with these inputs).
    fn reference(&self, x: &[BigUint]) -> Option<Vec<F>>;
    /// Number of leading scalars of the instance vector that encode the inputs.
    fn n_input_scalars(&self) -> usize;
    /// Decodes the input part of an exposed vector back into inputs (`None`:
    /// not a well-formed encoding, i.e. outside the domain).
    fn decode_inputs(&self, public: &[F]) -> Option<Vec<BigUint>> {
        Some(public[..self.n_input_scalars().min(public.len())].iter().map(f_to_big).collect())
    }
    /// Is `public` a correct (inputs, outputs) pair? Default: the outputs are a
    /// function of the inputs.
    fn judge(&self, public: &[F]) -> bool {
        match self.decode_inputs(public) {
            None => false,
            Some(x) => self.reference(&x).as_deref() == Some(public),
        }
    }
    /// Refines the signature of a soundness violation (for known findings).
    fn classify(&self, _public: &[F]) -> Option<String> {
        None
    }
}

#[derive(Clone)]
pub struct OpRel<O: Op> {
    pub op: O,
}

impl<O: Op> Relation for OpRel<O> {
    type Instance = Vec<F>;
    type Witness = Vec<BigUint>;

    fn format_instance(instance: &Self::Instance) -> Result<Vec<F>, Error> {
        Ok(instance.clone())
    }

    fn circuit(&self, std_lib: &ZkStdLib, layouter: &mut impl Layouter<F>, _instance: Value<Vec<F>>, witness: Value<Vec<BigUint>>) -> Result<(), Error> {
        self.op.circuit(std_lib, layouter, witness)
    }

    fn used_chips(&self) -> ZkStdLibArch {
        self.op.arch()
    }

    fn write_relation<W: std::io::Write>(&self, _w: &mut W) -> std::io::Result<()> {
        Ok(())
    }

    fn read_relation<R: std::io::Read>(_r: &mut R) -> std::io::Result<Self> {
        Err(std::io::Error::other("harness relations are not serialisable"))
    }
}

#[derive(Clone, Debug, PartialEq, Eq)]
pub enum Outcome {
    Accept,
    Reject(String),
    SynthErr(String),
    Panic(String),
}

impl Outcome {
    pub fn accepted(&self) -> bool {
        *self == Outcome::Accept
    }
    pub fn label(&self) -> &'static str {
        match self {
            Outcome::Accept => "accept",
            Outcome::Reject(_) => "reject",
            Outcome::SynthErr(_) => "synth-err",
            Outcome::Panic(_) => "panic",
        }
    }
}

pub struct Run {
    pub outcome: Outcome,
    pub log: Vec<AssignRecord>,
    /// the instance vector the verdict refers to
    pub public: Vec<F>,
}

/// k for an op (cost-model based `min_k`), cached by op name. A panic / error
/// here means the op cannot even be synthesised honestly.
pub fn op_k<O: Op>(op: &O, x: &[BigUint]) -> Result<u32, String> {
    static CACHE: OnceLock<Mutex<HashMap<String, u32>>> = OnceLock::new();
    let m = CACHE.get_or_init(|| Mutex::new(HashMap::new()));
    if let Some(k) = m.lock().unwrap().get(&op.name()) {
        return Ok(*k);
    }
    let rel = OpRel { op: op.clone() };
    let k = vpcore::catch(|| {
        let c = MidnightCircuit::new(&rel, Value::known(vec![]), Value::known(x.to_vec()), Some(op.max_bit_len()));
        c.min_k()
    })?;
    m.lock().unwrap().insert(op.name(), k);
    Ok(k)
}

enum Inst {
    Given(Vec<F>),
    /// read the public values back from the advice cells linked to the instance
    ReadBack(usize),
}

fn run_inner<O: Op>(op: &O, x: &[BigUint], inst: Inst, plan: HashMap<usize, Fault<F>>) -> Run {
    run_inner_p(op, x, inst, plan).0
}

/// Faulted run that also hands back the mock prover (tables after the run).
pub fn run_faulted_with_prover<O: Op>(op: &O, x: &[BigUint], n_public: usize, plan: HashMap<usize, Fault<F>>) -> (Run, Option<MockProver<F>>) {
    run_inner_p(op, x, Inst::ReadBack(n_public), plan)
}

fn run_inner_p<O: Op>(op: &O, x: &[BigUint], inst: Inst, plan: HashMap<usize, Fault<F>>) -> (Run, Option<MockProver<F>>) {
    run_inner_pv(op, x, inst, plan, true)
}

/// Faulted run without the final full `verify()` (the caller inspects the prover itself);
/// the outcome is `Accept` as a placeholder when synthesis succeeds.
pub fn run_faulted_unverified<O: Op>(op: &O, x: &[BigUint], n_public: usize, plan: HashMap<usize, Fault<F>>) -> (Run, Option<MockProver<F>>) {
    run_inner_pv(op, x, Inst::ReadBack(n_public), plan, false)
}

fn run_inner_pv<O: Op>(op: &O, x: &[BigUint], inst: Inst, plan: HashMap<usize, Fault<F>>, verify: bool) -> (Run, Option<MockProver<F>>) {
    let k = match op_k(op, x) {
        Ok(k) => k,
        Err(e) => return (Run { outcome: Outcome::Panic(format!("min_k: {e}")), log: vec![], public: vec![] }, None),
    };
    let rel = OpRel { op: op.clone() };
    let (given, n_pi) = match &inst {
        Inst::Given(v) => (v.clone(), v.len()),
        Inst::ReadBack(n) => (vec![F::from(0); *n], *n),
    };
    verif_hooks::begin::<F>(plan);
    let res = vpcore::catch(|| {
        let c = MidnightCircuit::new(&rel, Value::known(given.clone()), Value::known(x.to_vec()), Some(op.max_bit_len()));
        MockProver::run(k, &c, vec![vec![], given.clone()])
    });
    let report = verif_hooks::end();
    let mut prover = match res {
        Err(p) => return (Run { outcome: Outcome::Panic(p), log: report.log, public: given }, None),
        Ok(Err(e)) => return (Run { outcome: Outcome::SynthErr(format!("{e:?}")), log: report.log, public: given }, None),
        Ok(Ok(p)) => p,
    };
    let mut public = given;
    if let Inst::ReadBack(_) = inst {
        let perm = prover.permutation();
        let cols = perm.columns().to_vec();
        let mapping: Vec<Vec<(usize, usize)>> = perm.mapping().map(|c| c.collect::<Vec<_>>()).collect();
        // the plain instance column is instance column 1 of the standard library
        let ci = cols.iter().position(|c| *c.column_type() == Any::Instance && c.index() == 1);
        if let Some(ci) = ci {
            for (r, slot) in public.iter_mut().enumerate().take(n_pi) {
                let start = (ci, r);
                let mut cur = mapping[start.0][start.1];
                let mut steps = 0;
                while cur != start && steps < 1 << 20 {
                    let col = cols[cur.0];
                    let v = match col.column_type() {
                        Any::Advice(_) => Some(prover.advice()[col.index()][cur.1]),
                        Any::Fixed => Some(prover.fixed()[col.index()][cur.1]),
                        Any::Instance => None,
                    };
                    if let Some(CellValue::Assigned(v)) = v {
                        *slot = v;
                        break;
                    }
                    cur = mapping[cur.0][cur.1];
                    steps += 1;
                }
            }
        }
        let inst_col = &mut prover.instance_mut()[1];
        for (r, v) in public.iter().enumerate() {
            if r < inst_col.len() {
                inst_col[r] = InstanceValue::Assigned(*v);
            }
        }
    }
    if !verify {
        return (Run { outcome: Outcome::Accept, log: report.log, public }, Some(prover));
    }
    let verdict = vpcore::catch(|| prover.verify());
    let outcome = match verdict {
        Err(p) => Outcome::Panic(format!("verify: {p}")),
        Ok(Ok(())) => Outcome::Accept,
        Ok(Err(e)) => Outcome::Reject(format!("{} failures; first: {}", e.len(), e.first().map(|f| format!("{f:?}").chars().take(300).collect::<String>()).unwrap_or_default())),
    };
    (Run { outcome, log: report.log, public }, Some(prover))
}

/// Honest run against a given instance vector.
pub fn run_given<O: Op>(op: &O, x: &[BigUint], instance: &[F]) -> Run {
    run_inner(op, x, Inst::Given(instance.to_vec()), HashMap::new())
}

/// Faulted run: the instance is set to what the (faulted) witness exposes.
pub fn run_faulted<O: Op>(op: &O, x: &[BigUint], n_public: usize, plan: HashMap<usize, Fault<F>>) -> Run {
    run_inner(op, x, Inst::ReadBack(n_public), plan)
}

// ---------------------------------------------------------------------------
// Generic checks over an op

use vpcore::{CaseResult, Failure, SplitMix, Verdict};

/// Completeness + S1 (wrong claim) for one input tuple.
pub fn check_complete_and_s1<O: Op>(op: &O, x: &[BigUint], seed: u64) -> CaseResult {
    let name = op.name();
    let Some(inst) = op.reference(x) else {
        return Ok(Verdict::trivial("out-of-domain-input-skipped"));
    };
    let run = run_given(op, x, &inst);
    if !run.outcome.accepted() {
        return Err(Failure::new(
            format!("{name}:incomplete:{}", run.outcome.label()),
            format!("honest witness for x={x:?} with the reference instance {inst:?} is not accepted: {:?}", run.outcome),
        ));
    }
    // the reference must judge itself correct (harness self-check)
    if !op.judge(&inst) {
        return Err(Failure::new(format!("harness:{name}:judge-rejects-reference"), format!("x={x:?} inst={inst:?}")));
    }
    // S1: every position changed once
    let mut rng = SplitMix(seed);
    let n_in = op.n_input_scalars();
    for pos in 0..inst.len() {
        let variants: Vec<F> = vec![inst[pos] + F::from(1), inst[pos] - F::from(1), F::from(0), F::from(1) - inst[pos], F::from(rng.next_u64())];
        let v = variants[rng.below(variants.len() as u64) as usize];
        if v == inst[pos] {
            continue;
        }
        let mut wrong = inst.clone();
        wrong[pos] = v;
        if op.judge(&wrong) {
            continue; // another correct pair (only possible if inputs changed consistently)
        }
        let r = run_given(op, x, &wrong);
        if r.outcome.accepted() {
            return Err(Failure::new(
                format!("{name}:unsound:S1:{}", if pos < n_in { "input-position" } else { "output-position" }),
                format!("honest witness for x={x:?} accepted with wrong instance (position {pos}: {:?} instead of {:?})", wrong[pos], inst[pos]),
            ));
        }
    }
    Ok(Verdict::nontrivial("complete+S1").with(name))
}

/// Value classes for assignment-time faults.
pub fn fault_values(rng: &mut SplitMix) -> Fault<F> {
    match rng.below(10) {
        0 => Fault::Add(F::from(1)),
        1 => Fault::Add(-F::from(1)),
        2 => Fault::Set(F::from(0)),
        3 => Fault::OneMinus,
        4 => Fault::Add(F::from(2)),
        5 => Fault::Add(F::from(1u64 << 8)),
        6 => Fault::Add(F::from(1u64 << 16)),
        7 => Fault::Add(F::from(1u64 << 32) * F::from(1u64 << 32)),
        8 => Fault::Set(F::from(1)),
        _ => Fault::Set(F::from(rng.next_u64()) * F::from(rng.next_u64())),
    }
}

#[derive(Clone, Debug, Default)]
pub struct S2Stats {
    pub runs: usize,
    pub accepted_correct: usize,
    pub rejected: usize,
    pub aborted: usize,
    pub no_effect: usize,
}

/// S2: `n_faults` single-assignment faults (sampled, or every index when
/// `exhaustive`) on the honest run for `x`.
pub fn check_s2<O: Op>(op: &O, x: &[BigUint], seed: u64, n_faults: usize, exhaustive: bool, pairs: bool) -> Result<(S2Stats, Verdict), Failure> {
    let name = op.name();
    let mut stats = S2Stats::default();
    let Some(inst) = op.reference(x) else {
        return Ok((stats, Verdict::trivial("out-of-domain-input-skipped")));
    };
    // honest run with the hook on: learn the number of native assignments
    let honest = run_faulted(op, x, inst.len(), HashMap::new());
    if !honest.outcome.accepted() || honest.public != inst {
        return Err(Failure::new(
            format!("{name}:readback-mismatch"),
            format!("honest run with read-back: outcome {:?}, public {:?} vs reference {:?}", honest.outcome, honest.public, inst),
        ));
    }
    let n = honest.log.len();
    if n == 0 {
        return Ok((stats, Verdict::trivial("no-native-assignments")));
    }
    let mut rng = SplitMix(seed);
    let mut plans: Vec<HashMap<usize, Fault<F>>> = vec![];
    if exhaustive {
        for i in 0..n {
            for _ in 0..n_faults.max(1) {
                plans.push(HashMap::from([(i, fault_values(&mut rng))]));
            }
        }
    } else {
        for _ in 0..n_faults {
            let i = rng.below(n as u64) as usize;
            let mut pl = HashMap::from([(i, fault_values(&mut rng))]);
            if pairs && rng.below(4) == 0 {
                pl.insert(rng.below(n as u64) as usize, fault_values(&mut rng));
            }
            plans.push(pl);
        }
    }
    for plan in plans {
        let r = run_faulted(op, x, inst.len(), plan.clone());
        stats.runs += 1;
        match &r.outcome {
            Outcome::Accept => {
                if r.public == inst && !r.log.iter().any(|l| l.faulted) {
                    stats.no_effect += 1;
                } else if op.judge(&r.public) {
                    stats.accepted_correct += 1;
                } else {
                    let cls = op.classify(&r.public).unwrap_or_else(|| "unclassified".into());
                    let mut pl: Vec<_> = plan.iter().map(|(k, v)| format!("{k}:{v:?}")).collect();
                    pl.sort();
                    let sites: Vec<String> = r.log.iter().filter(|l| l.faulted).map(|l| format!("assign#{} col={} row={:?}", l.index, l.column, l.abs_row)).collect();
                    return Err(Failure::new(
                        format!("{name}:unsound:S2:{cls}"),
                        format!(
                            "MockProver accepts a faulted assignment whose public values contradict the reference: inputs x={x:?}; fault plan {pl:?} at {sites:?}; exposed {:?}; honest instance {inst:?}",
                            r.public
                        ),
                    ));
                }
            }
            Outcome::Reject(_) => stats.rejected += 1,
            Outcome::SynthErr(_) | Outcome::Panic(_) => stats.aborted += 1,
        }
    }
    let nt = stats.rejected + stats.accepted_correct > 0;
    Ok((stats.clone(), Verdict::of(nt, "S2").with(name)))
}

// ---------------------------------------------------------------------------
// Catalogue visiting (used by C08/C09 to reuse the op catalogues of C04–C07)

/// A visitor over a catalogue of ops. Each ops module exposes
/// `pub fn visit_ops<V: OpVisitor>(v: &mut V, quick: bool, seed: u64)` calling
/// `v.visit(&op, &inputs)` once per op with a few representative in-domain
/// input tuples chosen to steer data-dependent branches differently
/// (zero/non-zero, equal/unequal, carries, identity points, lengths).
pub trait OpVisitor {
    fn visit<O: Op>(&mut self, op: &O, inputs: &[Vec<BigUint>]);
}

/// Fingerprint of everything that must not depend on the witness: fixed
/// columns, selectors, copy constraints, number of instance rows, k.
#[derive(Clone, Debug, PartialEq, Eq)]
pub struct Structure {
    pub k: u32,
    pub fixed: u64,
    pub selectors: u64,
    pub permutation: u64,
    pub n_public: usize,
    pub regions: u64,
}

/// Synthesises the op honestly under MockProver and fingerprints its structure.
pub fn structure_of<O: Op>(op: &O, x: &[BigUint]) -> Result<Structure, String> {
    let inst = op.reference(x).ok_or_else(|| "input outside the domain".to_string())?;
    let rel = OpRel { op: op.clone() };
    structure_of_relation(&rel, inst.clone(), x.to_vec(), &inst, op.max_bit_len())
}

/// Fingerprint of the fixed part of a relation's circuit for one (instance, witness):
/// k from the cost model of THIS witness (row usage must not depend on it either), fixed
/// columns, selectors and copy constraints of the MockProver run.
pub fn structure_of_relation<R: Relation>(rel: &R, instance: R::Instance, witness: R::Witness, pi: &[F], max_bit_len: u8) -> Result<Structure, String>
where
    R::Instance: Clone,
    R::Witness: Clone,
{
    use std::hash::{Hash, Hasher};
    let k = vpcore::catch(|| MidnightCircuit::new(rel, Value::known(instance.clone()), Value::known(witness.clone()), Some(max_bit_len)).min_k())?;
    let prover = vpcore::catch(|| {
        let c = MidnightCircuit::new(rel, Value::known(instance.clone()), Value::known(witness.clone()), Some(max_bit_len));
        MockProver::run(k, &c, vec![vec![], pi.to_vec()])
    })?
    .map_err(|e| format!("{e:?}"))?;
    let h = |f: &dyn Fn(&mut std::collections::hash_map::DefaultHasher)| {
        let mut s = std::collections::hash_map::DefaultHasher::new();
        f(&mut s);
        s.finish()
    };
    let fixed = h(&|s| {
        for col in prover.fixed() {
            for c in col {
                match c {
                    CellValue::Assigned(v) => v.to_repr().as_ref().hash(s),
                    CellValue::Unassigned => 0u8.hash(s),
                    CellValue::Poison(_) => 1u8.hash(s),
                }
            }
        }
    });
    let selectors = h(&|s| prover.selectors().hash(s));
    let mapping: Vec<Vec<(usize, usize)>> = prover.permutation().mapping().map(|c| c.collect::<Vec<_>>()).collect();
    let permutation = h(&|s| mapping.hash(s));
    Ok(Structure { k, fixed, selectors, permutation, n_public: pi.len(), regions: 0 })
}

/// Verifying-key bytes of the op's circuit generated without a witness
/// (`None`) or with one: the two must coincide.
pub fn vk_bytes<O: Op>(op: &O, x: Option<&[BigUint]>, k: u32) -> Result<Vec<u8>, String> {
    use midnight_proofs::{plonk::keygen_vk_with_k, poly::kzg::KZGCommitmentScheme, utils::SerdeFormat};
    let rel = OpRel { op: op.clone() };
    let params = vp_plonk::pv::params(k);
    vpcore::catch(|| {
        let (i, w) = match x {
            Some(x) => (Value::known(vec![]), Value::known(x.to_vec())),
            None => (Value::unknown(), Value::unknown()),
        };
        let c = MidnightCircuit::new(&rel, i, w, Some(op.max_bit_len()));
        keygen_vk_with_k::<F, KZGCommitmentScheme<midnight_curves::Bls12>, _>(&params, &c, k).map(|vk| vk.to_bytes(SerdeFormat::RawBytes))
    })?
    .map_err(|e| format!("{e:?}"))
}


// ---------------------------------------------------------------------------
// S4: class-representative fault sweep with local detection
//
// Wide circuits (hash compression functions, scalar multiplications) repeat a few region
// shapes hundreds of times; sampled single faults almost never hit a given position of a
// given shape. Here the assignments of the honest run are grouped into structural classes
// (region shape, column, offset in the region); one representative per class is faulted,
// many classes per synthesis, far enough apart not to share a gate. After the run each fault
// must be detected *locally*: a gate or lookup violated within `WINDOW` rows of the cell, or
// a copy-constraint failure at the cell. Faults without a local detection are confirmed one
// by one with the ordinary S2 criterion (full verification, read-back, `Op::judge`).

#[derive(Clone, Debug, Default)]
pub struct SweepStats {
    pub classes: usize,
    pub swept: usize,
    pub runs: usize,
    pub detected_locally: usize,
    pub confirmed: usize,
    pub confirmed_rejected: usize,
    pub confirmed_harmless: usize,
}

const WINDOW: usize = 12;

pub fn check_class_sweep<O: Op>(op: &O, x: &[BigUint], seed: u64, max_classes: usize, per_run: usize) -> Result<(SweepStats, Verdict), Failure> {
    use midnight_proofs::dev::{FailureLocation, VerifyFailure};
    use std::collections::{BTreeMap, HashSet};
    let name = op.name();
    let mut st = SweepStats::default();
    let Some(inst) = op.reference(x) else {
        return Ok((st, Verdict::trivial("out-of-domain-input-skipped")));
    };
    let honest = run_faulted(op, x, inst.len(), HashMap::new());
    if !honest.outcome.accepted() || honest.public != inst {
        return Err(Failure::new(format!("{name}:readback-mismatch"), format!("honest run with read-back: outcome {:?}, public {:?} vs reference {:?}", honest.outcome, honest.public, inst)));
    }
    // regions: records sharing (abs_row - offset); consecutive in the log
    let mut regions: BTreeMap<usize, Vec<&AssignRecord>> = BTreeMap::new();
    for r in &honest.log {
        if let Some(a) = r.abs_row {
            if a >= r.offset {
                regions.entry(a - r.offset).or_default().push(r);
            }
        }
    }
    // classes: (shape of the region, column, offset) -> occurrences
    let mut classes: BTreeMap<(u64, usize, usize), Vec<&AssignRecord>> = BTreeMap::new();
    for recs in regions.values() {
        let mut shape: Vec<(usize, usize)> = recs.iter().map(|r| (r.column, r.offset)).collect();
        shape.sort();
        shape.dedup();
        let h = vpcore::digest(&format!("{shape:?}"));
        for r in recs {
            classes.entry((h, r.column, r.offset)).or_default().push(r);
        }
    }
    st.classes = classes.len();
    let mut rng = SplitMix(seed);
    // one representative per class (a pseudo-random occurrence), a rotating subset of the classes
    let mut reps: Vec<&AssignRecord> = classes.values().map(|occ| occ[rng.below(occ.len() as u64) as usize]).collect();
    for i in (1..reps.len()).rev() {
        reps.swap(i, rng.below(i as u64 + 1) as usize);
    }
    reps.truncate(max_classes);
    st.swept = reps.len();
    // pack into runs: rows far apart, distinct (column, offset) within a run
    let mut runs: Vec<Vec<&AssignRecord>> = vec![];
    for r in reps {
        let row = r.abs_row.unwrap();
        let slot = runs.iter_mut().find(|run| run.len() < per_run && run.iter().all(|o| o.abs_row.unwrap().abs_diff(row) > 2 * WINDOW && (o.column, o.offset) != (r.column, r.offset)));
        match slot {
            Some(run) => run.push(r),
            None => runs.push(vec![r]),
        }
    }
    let mut suspicious: Vec<&AssignRecord> = vec![];
    for run in &runs {
        let plan: HashMap<usize, Fault<F>> = run.iter().map(|r| (r.index, Fault::Add(F::from(1)))).collect();
        let (res, prover) = run_faulted_unverified(op, x, inst.len(), plan);
        st.runs += 1;
        let Some(prover) = prover else {
            // synthesis aborted under these faults (witness helpers may refuse inconsistent
            // values): fall back to one-by-one confirmation
            suspicious.extend(run.iter().copied());
            continue;
        };
        let applied: HashSet<usize> = res.log.iter().filter(|l| l.faulted).map(|l| l.index).collect();
        let usable = prover.usable_rows().clone();
        for r in run {
            if !applied.contains(&r.index) {
                continue;
            }
            let row = r.abs_row.unwrap();
            let lo = row.saturating_sub(WINDOW).max(usable.start);
            let hi = (row + WINDOW + 1).min(usable.end);
            let errs = match vpcore::catch(|| prover.verify_at_rows(lo..hi, lo..hi)) {
                Ok(Ok(())) => vec![],
                Ok(Err(e)) => e,
                // MockProver panics while formatting some violated gates: that is a detection
                Err(_) => {
                    st.detected_locally += 1;
                    continue;
                }
            };
            let local = errs.iter().any(|e| match e {
                VerifyFailure::ConstraintNotSatisfied { .. } | VerifyFailure::Lookup { .. } | VerifyFailure::ConstraintPoisoned { .. } => true,
                VerifyFailure::Permutation { column, location } => {
                    column.index() == r.column
                        && match location {
                            FailureLocation::InRegion { offset, .. } => *offset == r.offset,
                            FailureLocation::OutsideRegion { row: rr } => *rr == row,
                        }
                }
                _ => false,
            });
            if local {
                st.detected_locally += 1;
            } else {
                suspicious.push(r);
            }
        }
    }
    // confirmation: the ordinary single-fault criterion
    for r in suspicious {
        st.confirmed += 1;
        let plan = HashMap::from([(r.index, Fault::Add(F::from(1)))]);
        let res = run_faulted(op, x, inst.len(), plan);
        match &res.outcome {
            Outcome::Accept => {
                if (res.public == inst && !res.log.iter().any(|l| l.faulted)) || op.judge(&res.public) {
                    st.confirmed_harmless += 1;
                } else {
                    let cls = op.classify(&res.public).unwrap_or_else(|| "unclassified".into());
                    return Err(Failure::new(
                        format!("{name}:unsound:S2:{cls}"),
                        format!(
                            "class sweep: MockProver accepts assignment #{} (column {}, region offset {}, row {:?}) changed by +1, exposing public values that contradict the reference: inputs x={x:?}; exposed {:?}; honest instance {inst:?}",
                            r.index, r.column, r.offset, r.abs_row, res.public
                        ),
                    ));
                }
            }
            _ => st.confirmed_rejected += 1,
        }
    }
    let v = Verdict::of(st.detected_locally + st.confirmed_rejected > 0, "class-sweep")
        .with(format!("classes:{}", match st.classes { 0..=99 => "<100", 100..=999 => "100+", _ => "1000+" }))
        .with(format!("coverage:{}%", if st.classes == 0 { 100 } else { 100 * st.swept / st.classes / 10 * 10 }));
    Ok((st, v))
}

// ---------------------------------------------------------------------------
// Running a generic function on one named op of a catalogue

/// A function generic in the op type (closures cannot be).
pub trait OpFn {
    fn call<O: Op>(&mut self, op: &O, inputs: &[Vec<BigUint>]) -> CaseResult;
}

/// Collects (name, representative inputs) of every op a catalogue visits.
#[derive(Default)]
pub struct NameCollector(pub Vec<(String, Vec<Vec<BigUint>>)>);

impl OpVisitor for NameCollector {
    fn visit<O: Op>(&mut self, op: &O, inputs: &[Vec<BigUint>]) {
        self.0.push((op.name(), inputs.to_vec()));
    }
}

/// Applies `f` to the op called `name` when the catalogue visits it.
pub struct ByName<'a, G: OpFn> {
    pub name: &'a str,
    pub f: G,
    pub result: Option<CaseResult>,
}

impl<G: OpFn> OpVisitor for ByName<'_, G> {
    fn visit<O: Op>(&mut self, op: &O, inputs: &[Vec<BigUint>]) {
        if self.result.is_none() && op.name() == self.name {
            self.result = Some(self.f.call(op, inputs));
        }
    }
}

/// The class sweep on the first representative input of an op.
pub struct SweepFn {
    pub seed: u64,
    pub max_classes: usize,
    pub per_run: usize,
}

impl OpFn for SweepFn {
    fn call<O: Op>(&mut self, op: &O, inputs: &[Vec<BigUint>]) -> CaseResult {
        let Some(x) = inputs.iter().find(|x| op.reference(x).is_some()) else {
            return Ok(Verdict::trivial("no-in-domain-input"));
        };
        let (st, v) = check_class_sweep(op, x, self.seed, self.max_classes, self.per_run)?;
        Ok(v.with(format!("swept-classes:{}", match st.swept { 0 => "0", 1..=9 => "1-9", 10..=99 => "10-99", _ => "100+" }))
            .with(format!("confirmed-singly:{}", match st.confirmed { 0 => "0", 1..=9 => "1-9", _ => "10+" })))
    }
}

/// Sub-check shared by the catalogue checks: the class sweep over (a rotating part of) the
/// ops of a catalogue. `$visit` is the catalogue's generic `visit_ops`.
#[macro_export]
macro_rules! catalogue_sweep {
    ($p:expr, $sub:expr, $visit:path, $every:expr, $max_classes:expr, $threads:expr) => {{
        let p = $p;
        let (quick, seed) = (p.quick(), p.seed);
        let mut c = $crate::e2::NameCollector::default();
        $visit(&mut c, quick, seed);
        let every: u64 = $every;
        let names: Vec<String> = c.0.into_iter().map(|(n, _)| n).filter(|n| every <= 1 || (vpcore::digest(n) ^ seed) % every == 0).collect();
        p.enumerate(
            $sub,
            "class-representative fault sweep of catalogue operations: the assignments of one honest run are grouped by (region shape, column, offset in the region); one occurrence per class is changed by +1 (many classes per synthesis, far apart) and must be detected by a gate / lookup within 12 rows or by a copy failure at the cell; undetected ones are confirmed singly with full verification and must not expose public values that contradict the reference; non-trivial = at least one fault detected",
            names,
            $threads,
            false,
            move |name: &String| -> vpcore::CaseResult {
                let mut r = $crate::e2::ByName { name, f: $crate::e2::SweepFn { seed: vpcore::digest(name) ^ seed, max_classes: $max_classes, per_run: 24 }, result: None };
                $visit(&mut r, quick, seed);
                r.result.unwrap_or_else(|| Err(vpcore::Failure::new("harness:op-not-found-in-catalogue", name.clone())))
            },
        );
    }};
}
