#!/bin/bash
# Confirms a seeded change in a scratch worktree of /repo at HEAD:
#   demo passes without the patch, fails with it; the named existing tests pass with it.
# usage: confirm_seed.sh <seed-dir> <demo-file> <dest-dir-in-repo> "<demo cargo test args>" "<existing tests cargo args>" ...
set -u
SEED="$(readlink -f "$1")"; DEMO="$2"; DEST="$3"; DEMOCMD="$4"; shift 4
WT=/tmp/confirm-wt-$$
export CARGO_TARGET_DIR=/tmp/seed-confirm-target CARGO_NET_OFFLINE=true
git -C /repo worktree add -q "$WT" HEAD || exit 2
trap 'git -C /repo worktree remove --force "$WT" 2>/dev/null; rm -rf "$WT"' EXIT
mkdir -p "$WT/$DEST"; cp "$SEED/demo/$DEMO" "$WT/$DEST/"
cd "$WT"
run() { ( cargo test --offline $1 2>&1 | grep -E "^test result|error(\[|:)|FAILED|panicked" | head -8 ); }
echo "== demo on original code (expect pass): cargo test --offline $DEMOCMD"; run "$DEMOCMD"
git apply "$SEED/patch.diff" || { echo "PATCH DOES NOT APPLY"; exit 2; }
echo "== demo with the change (expect failure)"; run "$DEMOCMD"
for t in "$@"; do echo "== existing tests with the change (expect pass): cargo test --offline $t"; run "$t"; done
