//! C01 — honest proofs verify for every circuit shape and proving configuration.
//!
//! Generator: E1 knobs -> Spec (random gates of degree <= 5 with rotations,
//! simple/complex/additive selectors and fixed-coefficient gates, table and
//! `lookup_any` lookups, copies between advice cells, to/from instance cells
//! and constants, 1..3 phases with challenges, blinded/unblinded columns)
//! x honest witnesses x num_proofs 1..4 x committed instance columns 0..2
//! x transcript hash {Blake2b, Poseidon} x k = min_k + 0..2.
//! Oracle: create_proof Ok; prepare + assert_empty + guard.verify Ok;
//! MockProver Ok on the same assignment.

use proptest::prelude::*;
use serde::{Deserialize, Serialize};
use vp_plonk::{
    e1::{build_plan, expand, knobs_strategy, Knobs},
    pv::{self, Blake, Poseidon},
};
use vpcore::{ensure, CaseResult, Failure, Verdict};
use midnight_proofs::transcript::{CircuitTranscript, Transcript};

#[derive(Clone, Debug, Serialize, Deserialize)]
struct Case {
    knobs: Knobs,
    num_proofs: usize,
    n_committed: usize,
    poseidon: bool,
    wseed: u64,
}

fn strategy(max_ops: usize) -> BoxedStrategy<Case> {
    (knobs_strategy(max_ops), 1usize..=4, 0usize..=2, any::<bool>(), any::<u64>())
        .prop_map(|(knobs, num_proofs, n_committed, poseidon, wseed)| Case { knobs, num_proofs, n_committed, poseidon, wseed })
        .boxed()
}

fn run(c: &Case) -> CaseResult {
    let spec = expand(&c.knobs);
    let n_committed = c.n_committed.min(spec.n_instance);
    let plans: Vec<_> = (0..c.num_proofs).map(|i| build_plan(&spec, c.wseed.wrapping_add(i as u64 * 7919))).collect();
    for pl in &plans {
        pv::mock(&spec, pl).map_err(|e| Failure::new("mock-rejects-honest-plan", format!("MockProver rejects the honest assignment: {e}; spec={spec:?}")))?;
    }
    let (pk, vk) = pv::keygen(&spec).map_err(|e| Failure::new("keygen-fails", format!("{e}; spec={spec:?}")))?;
    let instances: Vec<_> = plans.iter().map(|p| p.instances.clone()).collect();
    let st = pv::statement(&vk, &spec, &instances, n_committed);
    let config = format!(
        "np{}{}/c{}{}",
        c.num_proofs.min(2),
        if c.num_proofs >= 2 { "+" } else { "" },
        n_committed,
        if n_committed >= 1 && n_committed < spec.n_instance { "+plain" } else { "" }
    );
    let sig_cfg = if c.num_proofs >= 2 && n_committed >= 1 && n_committed < spec.n_instance {
        "multi-proof+committed+plain"
    } else {
        "other-config"
    };
    let res = if c.poseidon {
        let mut t = CircuitTranscript::<Poseidon>::init();
        pv::prove(&pk, &spec, &plans, n_committed, c.wseed ^ 0xabcd, &mut t).map_err(|e| Failure::new("create_proof-fails", format!("{e}; spec={spec:?}")))?;
        let proof = t.finalize();
        let mut t = CircuitTranscript::<Poseidon>::init_from_bytes(&proof);
        pv::verify(&vk, spec.k, &st, &mut t)
    } else {
        let mut t = CircuitTranscript::<Blake>::init();
        pv::prove(&pk, &spec, &plans, n_committed, c.wseed ^ 0xabcd, &mut t).map_err(|e| Failure::new("create_proof-fails", format!("{e}; spec={spec:?}")))?;
        let proof = t.finalize();
        let mut t = CircuitTranscript::<Blake>::init_from_bytes(&proof);
        pv::verify(&vk, spec.k, &st, &mut t)
    };
    ensure!(
        res.is_ok(),
        format!("honest-proof-rejected:{sig_cfg}"),
        "verifier refused an honest proof ({:?}); num_proofs={} committed={} n_instance={} poseidon={} spec={spec:?}",
        res,
        c.num_proofs,
        n_committed,
        spec.n_instance,
        c.poseidon
    );
    let feats = spec.features();
    // order in which instance columns are first queried by gates
    // sequence of committed instance columns in the order their queries are registered by the gates
    let mut seq: Vec<(usize, i32)> = vec![];
    for g in &spec.gates {
        for e in &g.eqs {
            if let vp_plonk::e1::Eqn::Inst { icol, irot, .. } = e {
                let q = (icol % spec.n_instance, *irot);
                if !seq.contains(&q) {
                    seq.push(q);
                }
            }
        }
    }
    let committed_queried: Vec<usize> = seq.iter().map(|q| q.0).filter(|c| *c < n_committed).collect();
    let out_of_order = committed_queried.windows(2).any(|w| w[0] > w[1]);
    let nt = !feats.is_empty() || c.num_proofs >= 2 || n_committed >= 1;
    let mut v = Verdict::of(nt, config);
    for f in feats {
        v = v.with(f);
    }
    if committed_queried.iter().collect::<std::collections::HashSet<_>>().len() >= 2 {
        v = v.with(if out_of_order { "committed-columns-queried-out-of-order" } else { "committed-columns-queried-in-order" });
    }
    v = v.with(format!("k={}", spec.k)).with(if c.poseidon { "poseidon" } else { "blake2b" });
    Ok(v)
}

// ---------------------------------------------------------------------------
// Standard-library relations: the fixtures of E6 and sampled operations of the
// gadget catalogues, really proven and verified (not only mock-checked).

mod stdlib_rel {
    use num_bigint::BigUint;
    use rand_chacha::ChaCha20Rng;
    use rand_core::SeedableRng;
    use serde::{Deserialize, Serialize};
    use vp_circ::{
        e2::{Op, OpRel, OpVisitor},
        e6::{self, Fix, ALL_FIX},
        ops_ecc, ops_foreign, ops_hash, ops_native,
    };
    use vpcore::{CaseResult, Failure, Prop, SplitMix, Verdict};

    #[derive(Clone, Debug, Serialize, Deserialize)]
    pub struct Item {
        catalogue: String,
        op: String,
        input: Vec<vp_alg::Int>,
        poseidon: bool,
    }

    struct Collect {
        catalogue: &'static str,
        items: Vec<Item>,
    }
    impl OpVisitor for Collect {
        fn visit<O: Op>(&mut self, op: &O, inputs: &[Vec<BigUint>]) {
            if let Some(x) = inputs.first() {
                let name = op.name();
                self.items.push(Item {
                    catalogue: self.catalogue.into(),
                    poseidon: vpcore::digest(&name) % 2 == 0,
                    op: name,
                    input: x.iter().map(|v| vp_alg::Int::of("", v)).collect(),
                });
            }
        }
    }

    struct Runner<'a> {
        item: &'a Item,
        result: Option<CaseResult>,
    }
    impl OpVisitor for Runner<'_> {
        fn visit<O: Op>(&mut self, op: &O, _inputs: &[Vec<BigUint>]) {
            if self.result.is_some() || op.name() != self.item.op {
                return;
            }
            let x: Vec<BigUint> = self.item.input.iter().map(|v| v.big()).collect();
            self.result = Some(prove_verify(op, &x, self.item.poseidon));
        }
    }

    fn prove_verify<O: Op>(op: &O, x: &[BigUint], poseidon: bool) -> CaseResult {
        let name = op.name();
        let inst = op.reference(x).ok_or_else(|| Failure::new("harness:visited-input-out-of-domain", name.clone()))?;
        let rel = OpRel { op: op.clone() };
        // setup_vk wants parameters of exactly the k of the relation's optimal circuit
        let k = vpcore::catch(|| midnight_zk_stdlib::MidnightCircuit::from_relation(&rel).min_k())
            .map_err(|e| Failure::new(format!("{name}:min_k-fails"), e))?;
        let params = vp_plonk::pv::params(k);
        let r = vpcore::catch(|| {
            let vk = midnight_zk_stdlib::setup_vk(&params, &rel);
            let pk = midnight_zk_stdlib::setup_pk(&rel, &vk);
            let rng = ChaCha20Rng::seed_from_u64(vpcore::digest(&name));
            let vp = params.verifier_params();
            if poseidon {
                type H = vp_circ::e6::Poseidon;
                let proof = midnight_zk_stdlib::prove::<OpRel<O>, H>(&params, &pk, &rel, &inst, x.to_vec(), rng).map_err(|e| format!("prove: {e:?}"))?;
                midnight_zk_stdlib::verify::<OpRel<O>, H>(&vp, &vk, &inst, None, &proof).map_err(|e| format!("verify: {e:?}"))?;
                let mut wrong = inst.clone();
                if let Some(l) = wrong.last_mut() {
                    *l += vp_circ::e2::F::from(1);
                    if midnight_zk_stdlib::verify::<OpRel<O>, H>(&vp, &vk, &wrong, None, &proof).is_ok() {
                        return Err("verify accepts an edited instance".to_string());
                    }
                }
            } else {
                type H = vp_circ::e6::Blake;
                let proof = midnight_zk_stdlib::prove::<OpRel<O>, H>(&params, &pk, &rel, &inst, x.to_vec(), rng).map_err(|e| format!("prove: {e:?}"))?;
                midnight_zk_stdlib::verify::<OpRel<O>, H>(&vp, &vk, &inst, None, &proof).map_err(|e| format!("verify: {e:?}"))?;
            }
            Ok::<(), String>(())
        });
        match r {
            Ok(Ok(())) => Ok(Verdict::nontrivial(format!("k={k}")).with(if poseidon { "poseidon" } else { "blake2b" })),
            Ok(Err(e)) => Err(Failure::new(format!("{name}:honest-proof-rejected"), format!("x={x:?}: {e}"))),
            Err(p) => Err(Failure::new(format!("{name}:panic"), p)),
        }
    }

    pub fn run(p: &Prop) {
        let quick = p.quick();
        let seed = p.seed;
        // fixtures: every relation x both hashes x a few witnesses
        #[derive(Clone, Debug, Serialize, Deserialize)]
        struct FixItem {
            fix: Fix,
            poseidon: bool,
            seed: u64,
        }
        let mut rng = SplitMix(seed ^ 0xf1c);
        let mut fix_items = vec![];
        for fix in ALL_FIX {
            for poseidon in [false, true] {
                for _ in 0..p.tier.pick(2, 12) {
                    fix_items.push(FixItem { fix, poseidon, seed: rng.next_u64() });
                }
            }
        }
        p.enumerate(
            "stdlib.fixtures",
            "every fixture relation (Poseidon pre-image, range-checked product, affine) x both transcript hashes x honest (instance, witness): prove + verify through midnight_zk_stdlib; every case non-trivial",
            fix_items,
            6,
            false,
            |c: &FixItem| -> CaseResult {
                let keys = e6::keys(c.fix);
                let (inst, wit) = c.fix.sample(c.seed);
                let proof = e6::prove(&keys, &inst, wit, c.poseidon, c.seed).map_err(|e| Failure::new(format!("{:?}:prove-fails", c.fix), e))?;
                e6::verify(&keys, &inst, &proof, c.poseidon).map_err(|e| Failure::new(format!("{:?}:honest-proof-rejected", c.fix), e))?;
                Ok(Verdict::nontrivial(format!("{:?}/{}", c.fix, if c.poseidon { "poseidon" } else { "blake2b" })))
            },
        );
        // catalogue operations as relations: key generation without witness, real proof, verification
        let mut items = vec![];
        for (cat, which) in [("native", 0), ("ecc", 1), ("hash", 2), ("foreign", 3)] {
            let mut c = Collect { catalogue: cat, items: vec![] };
            match which {
                0 => ops_native::visit_ops(&mut c, quick, seed),
                1 => ops_ecc::visit_ops(&mut c, quick, seed),
                2 => ops_hash::visit_ops(&mut c, quick, seed),
                _ => ops_foreign::visit_ops(&mut c, quick, seed),
            }
            items.extend(c.items);
        }
        let want = p.tier.pick(40, 400);
        let mut rng = SplitMix(seed ^ 0xca7);
        while items.len() > want {
            let i = (rng.next_u64() % items.len() as u64) as usize;
            items.swap_remove(i);
        }
        p.enumerate(
            "stdlib.catalogue-ops",
            "sampled operations of the native / foreign-field / ECC / hash catalogues as standard-library relations: setup_vk (no witness), setup_pk, prove, verify with the reference instance; for Poseidon-transcript cases an edited instance must be refused; every case non-trivial",
            items,
            8,
            false,
            move |item: &Item| -> CaseResult {
                let mut r = Runner { item, result: None };
                match item.catalogue.as_str() {
                    "native" => ops_native::visit_ops(&mut r, quick, seed),
                    "ecc" => ops_ecc::visit_ops(&mut r, quick, seed),
                    "foreign" => ops_foreign::visit_ops(&mut r, quick, seed),
                    _ => ops_hash::visit_ops(&mut r, quick, seed),
                }
                r.result.unwrap_or_else(|| Err(Failure::new("harness:op-not-found-in-catalogue", item.op.clone())))
            },
        );
    }
}

fn main() {
    vpcore::main("C01", "exploration", (1800, 10800), |p| {
        stdlib_rel::run(p);
        p.assume("SRS from ParamsKZG::unsafe_setup with a fixed seed; prover randomness from ChaCha20 seeded by the case");
        p.assume("the generated honest assignment satisfies the generated constraint system (guarded: MockProver must accept it, otherwise the case is reported)");
        p.sub_cfg(
            "e1.honest",
            "E1 generated constraint systems x honest witness x num_proofs 1..4 x committed columns 0..2 x {Blake2b,Poseidon} x k=min..min+2; non-trivial = spec uses at least one of {lookup, copy, additive selector, fixed-coefficient gate, challenge phase, unblinded column, instance gate, rotations} or num_proofs>=2 or committed>=1; distinct by case digest",
            p.tier.pick(2400, 60_000),
            16,
            48,
            || strategy(p.tier.pick(12, 24)),
            run,
        );
    });
}
