//! C05 — foreign-field and big-integer gadgets are complete and sound.
//!
//! Engine: vp_circ::e2 (completeness + S1 + S2 on the real library circuit,
//! judged by MockProver) with the op catalogue, decoders and structured fault
//! plans of vp_circ::ops_foreign.
//!
//! Fields: secp256k1 base / scalar and BLS12-381 base through `ZkStdLib`
//! (`secp256k1_curve().base_field_chip()`, `secp256k1_scalar()`,
//! `bls12_381_curve().base_field_chip()`); Curve25519 base / scalar through a
//! from-scratch circuit (`FieldChip::configure` + from-scratch NativeGadget).
//!
//! Oracle: exposed limb vectors are decoded with the harness decoder (every
//! well-formed representation accepted, limbs of v-1) and compared as residues
//! with num-bigint arithmetic; BigUint results are decoded from base-2^96
//! limbs and compared with num-bigint.
//!
//! Sub-checks: ff.ops.{complete,s2} (catalogue of single operations over 5
//! fields), ff.chains.{complete,s2} (2-6 lazy operations, identity chains),
//! ff.unsat (violating inputs must not be accepted), ff.repr (second
//! representation z+m of a normalisation output, obtained by a consistent
//! fault plan, must give the same residue-level answers), ff.decomp.regress
//! (regressions: to_le_bytes(None) / to_le_bits beyond NUM_BITS, to_le_chunks
//! with nb_chunks and a non-dividing chunk size), ff.decomp.known (known
//! finding, own sub-check: the enforce_canonical = false path; signatures
//! `field_chip.enforce_canonical=false:incomplete:{to_le_bits:limb0-carry,
//! to_le_bits:unnormalised-input, to_le_bits:zero-with-bit-bound,
//! to_le_chunks:limb0-carry, to_le_chunks:zero-with-bit-bound}`),
//! big.ops.{complete,s2}, big.unsat, big.mod_exp.f20 and big.assign.f21
//! (regressions of F20 / F21).
//!
//! Development aids (no effect unless set): C05_ONLY=<sub,sub>, C05_SCALE=<%>,
//! C05_VISIT=1 (self-test of ops_foreign::visit_ops).
//!
//! MUTANTS (scratch worktree /tmp/wt-c05 + harness copy, GUIDE procedure; seed 1)
//!  M1  gates/mul.rs: range check of the quotient `u` of assert_mul dropped
//!      -> NOT caught by S2 (u +-1, +2^k alone violate the native identity; a
//!      witness exploiting a free `u` needs a lattice search over (dz, dv) and
//!      consistent re-decomposition of range-checked product limbs: S3 material)
//!  M1b field_chip.rs assign_mul: product limbs assigned without range check
//!      -> caught, ff.ops.s2 / ff.chains.s2 `unsound:S2:result:carry-shift`
//!  M2  params.rs: second auxiliary modulus of secp256k1 scalar dropped
//!      -> caught trivially: the chip's own parameter check panics at configure
//!      ("lcm-threshold not reached"), every secp256k1 case `incomplete:panic`
//!  M3  field_chip.rs assigned_to_le_bits: make_canonical skipped
//!      -> caught, ff.ops.complete / ff.chains.complete `...ToBits...:incomplete:reject`
//!  M4  biguint_gadget.rs sub: `assert_equal(x, res + y)` dropped
//!      -> caught, big.unsat `biguint:Sub(..):accepts-out-of-domain` (and big.ops.s2)
//!  M5  gates/norm.rs: range checks of the normalised limbs dropped
//!      -> caught, ff.repr / ff.chains.s2 `unsound:S2:norm:z-carry-shift`,
//!      `unsound:S2:norm#k:z+1m-consistent` (z+m >= 2^bits accepted)
//!  M6  field_chip.rs assigned_to_le_bits: final `is_canonical` assertion dropped
//!      -> caught, ff.repr `...ToBits(1,None,true):unsound:S2:norm#1:z+1m-consistent`

use num_bigint::BigUint;
use num_traits::{One, Zero};
use proptest::prelude::*;
use serde::{Deserialize, Serialize};
use vp_circ::{e2::*, ops_foreign::*};
use vpcore::{CaseResult, Failure, Prop, SplitMix, Verdict};

#[derive(Clone, Debug, Serialize, Deserialize)]
struct FCase {
    field: u8,
    op: u16,
    cls: [u8; 3],
    seed: u64,
}

fn fcase_strategy(n_fields: u8) -> BoxedStrategy<FCase> {
    (0..n_fields, any::<u16>(), any::<[u8; 3]>(), any::<u64>()).prop_map(|(field, op, cls, seed)| FCase { field, op, cls, seed }).boxed()
}

// ---------------------------------------------------------------------------
// Generic drivers

macro_rules! with_field {
    ($idx:expr, $f:ident ( $($arg:expr),* )) => {
        match $idx % 5 {
            0 => $f::<SecpBase>($($arg),*),
            1 => $f::<SecpScalar>($($arg),*),
            2 => $f::<BlsBase>($($arg),*),
            3 => $f::<C25519Base>($($arg),*),
            _ => $f::<C25519Scalar>($($arg),*),
        }
    };
}

/// Non-canonical decompositions (honest output not unique)?
fn noncanonical(prog: &Prog) -> bool {
    matches!(prog.term, Term::ToBits(_, _, false) | Term::ToChunks(..))
}

fn complete<Fd: EmField>(prog: &Prog, x: &[BigUint], seed: u64) -> CaseResult {
    let op = FOp::<Fd>::new(prog.clone());
    if noncanonical(prog) {
        // the library's own output (read back) must be accepted and judged correct
        return xcheck_complete_readback(&op, x);
    }
    if Fd::VIA_STD {
        check_complete_and_s1(&op, x, seed)
    } else {
        xcheck_complete_and_s1(&op, x, seed)
    }
}

/// S2: single faults (engine) + the structured plans.
fn s2<Fd: EmField>(prog: &Prog, x: &[BigUint], seed: u64, n_faults: usize, exhaustive: bool, n_struct: usize) -> Result<(XStats, Vec<String>), Failure> {
    let op = FOp::<Fd>::new(prog.clone());
    let md = model::<Fd>();
    let mut st = XStats::default();
    if noncanonical(prog) {
        let (s, _) = xcheck_s2_readback(&op, x, seed, n_faults + n_faults / 2, md.lb, &md.m)?;
        return Ok((s, vec![]));
    }
    if Fd::VIA_STD {
        let (s, _) = check_s2(&op, x, seed, n_faults, exhaustive, true)?;
        st.add(&XStats { runs: s.runs, accepted_correct: s.accepted_correct, rejected: s.rejected, aborted: s.aborted, no_effect: s.no_effect });
        // a few of the property's extra fault values on random indices
        let (s, _) = xcheck_s2(&op, x, seed ^ 0x5eed, n_faults / 2, false, md.lb, &md.m)?;
        st.add(&s);
    } else {
        let (s, _) = xcheck_s2(&op, x, seed, n_faults + n_faults / 2, exhaustive, md.lb, &md.m)?;
        st.add(&s);
    }
    let (s, labels, _) = fcheck_s2_structured(&op, x, seed ^ 0xabcd, n_struct)?;
    st.add(&s);
    Ok((st, labels))
}

fn must_reject<Fd: EmField>(prog: &Prog, x: &[BigUint], seed: u64, n_faults: usize) -> CaseResult {
    let op = FOp::<Fd>::new(prog.clone());
    let md = model::<Fd>();
    xcheck_must_reject(&op, x, seed, n_faults, md.lb, &md.m)
}

fn model_of(idx: u8) -> FModel {
    match idx % 5 {
        0 => model::<SecpBase>(),
        1 => model::<SecpScalar>(),
        2 => model::<BlsBase>(),
        3 => model::<C25519Base>(),
        _ => model::<C25519Scalar>(),
    }
}

fn field_name(idx: u8) -> &'static str {
    match idx % 5 {
        0 => SecpBase::NAME,
        1 => SecpScalar::NAME,
        2 => BlsBase::NAME,
        3 => C25519Base::NAME,
        _ => C25519Scalar::NAME,
    }
}

fn catalogues() -> &'static Vec<Vec<Entry>> {
    static C: std::sync::OnceLock<Vec<Vec<Entry>>> = std::sync::OnceLock::new();
    C.get_or_init(|| (0..5u8).map(|i| catalogue(&model_of(i))).collect())
}

fn verdict(nt: bool, field: u8, label: &str, classes: &[&'static str]) -> Verdict {
    let mut v = Verdict::of(nt, format!("{}:{}", field_name(field), label));
    v = v.with(format!("op:{label}"));
    for c in classes {
        v = v.with(format!("operand:{c}"));
    }
    v
}

// ---------------------------------------------------------------------------
// BigUint

#[derive(Clone, Debug, Serialize, Deserialize)]
struct BCase {
    kind: u8,
    w: [u8; 3],
    cls: [u8; 3],
    seed: u64,
}

impl BCase {
    fn args(&self) -> BigCaseArgs {
        BigCaseArgs { kind: self.kind, w: self.w, cls: self.cls, seed: self.seed }
    }
}

fn bcase_strategy() -> BoxedStrategy<BCase> {
    (any::<u8>(), any::<[u8; 3]>(), any::<[u8; 3]>(), any::<u64>()).prop_map(|(kind, w, cls, seed)| BCase { kind, w, cls, seed }).boxed()
}

// ---------------------------------------------------------------------------

fn main() {
    // MockProver uses rayon; a panic on one of its worker threads (mock-checker
    // diagnostics on poisoned cells under faults) is reported to the engine as an
    // aborted run, its message is not wanted on stderr
    let _ = rayon::ThreadPoolBuilder::new().thread_name(|i| format!("rayon-{i}")).build_global();
    vpcore::main("C05", "fault_enumeration", (1500, 14400), |p: &Prop| {
        let prev = std::panic::take_hook();
        std::panic::set_hook(Box::new(move |info| {
            if std::thread::current().name().is_some_and(|n| n.starts_with("rayon-")) {
                return;
            }
            prev(info)
        }));
        assert_params::<SecpBase>();
        assert_params::<SecpScalar>();
        assert_params::<BlsBase>();
        assert_params::<C25519Base>();
        assert_params::<C25519Scalar>();
        p.assume("MockProver::verify decides satisfiability of the assigned table (F2: trash arguments ignored; the foreign-field and BigUint circuits have none)");
        p.assume("moduli, LOG2_BASE, NB_LIMBS of the harness models equal the compiled parameters (asserted at start)");
        p.assume("representation of emulated elements as documented in field_chip.rs: limbs of v-1, base 2^LOG2_BASE, well-formed = limb bounds of well_formed_log2_bounds");
        p.assume("the number of base-2^96 limbs of an exposed BigUint result is taken from AssignedBigUint::nb_bits() of the circuit (a shape, input independent)");
        let t = p.tier;
        let nf = 5u8;
        // development aid: C05_VISIT=1 checks `visit_ops` (every visited input tuple is
        // in-domain and its honest run with the reference instance is accepted)
        if std::env::var("C05_VISIT").is_ok() {
            struct SelfTest(usize, usize, Vec<String>);
            impl OpVisitor for SelfTest {
                fn visit<O: Op>(&mut self, op: &O, inputs: &[Vec<BigUint>]) {
                    self.0 += 1;
                    for x in inputs {
                        self.1 += 1;
                        match op.reference(x) {
                            None => self.2.push(format!("{}: out of domain {x:?}", op.name())),
                            Some(inst) => {
                                let r = run_given(op, x, &inst);
                                if !r.outcome.accepted() {
                                    self.2.push(format!("{}: not accepted for {x:?}: {:?}", op.name(), r.outcome).chars().take(400).collect());
                                }
                            }
                        }
                    }
                }
            }
            let mut st = SelfTest(0, 0, vec![]);
            visit_ops(&mut st, p.quick(), p.seed);
            println!("visit_ops: {} ops, {} input tuples, {} problems", st.0, st.1, st.2.len());
            for l in &st.2 {
                println!("  {l}");
            }
            return;
        }
        // development aid: C05_ONLY=<substring> runs only the matching sub-checks
        let only = std::env::var("C05_ONLY").ok();
        let want = |n: &str| only.as_ref().map_or(true, |o| o.split(',').any(|o| n.contains(o)));
        // development aid (mutant runs on a loaded machine): C05_SCALE=<percent> scales the case counts
        let scale: u32 = std::env::var("C05_SCALE").ok().and_then(|s| s.parse().ok()).unwrap_or(100);
        let cnt = |q: u32, th: u32| -> u32 { (t.pick(q, th) as u64 * scale as u64 / 100).max(1) as u32 };

        let lane_ops = || {
            // -------- single operations -------------------------------------------------
            if want("ff.ops.complete") {
            p.sub(
                "ff.ops.complete",
                "boundary operand (class other than random) in the input tuple",
                cnt(512, 10240),
                16,
                || fcase_strategy(nf),
                |c| {
                    let cat = &catalogues()[c.field as usize % 5];
                    let en = &cat[c.op as usize % cat.len()];
                    let md = model_of(c.field);
                    let (x, boundary, labels) = inputs_for(&md, &en.prog, en.in_bits, &c.cls, c.seed);
                    if en.ecf && x.iter().take(en.prog.n_field).any(|v| ecf_known_input(&md, v, en.in_bits.is_some())) {
                        return Ok(Verdict::trivial("excluded-known:enforce_canonical=false"));
                    }
                    let r = with_field!(c.field, complete(&en.prog, &x, c.seed));
                    match r {
                        Ok(v) if v.classes.first().map(|s| s.as_str()) == Some("out-of-domain-input-skipped") => Ok(verdict(false, c.field, "skipped-out-of-domain", &[])),
                        Ok(_) => Ok(verdict(boundary, c.field, en.label, &labels)),
                        Err(f) => Err(f),
                    }
                },
            );
            }
            if want("ff.ops.s2") {
            p.sub(
                "ff.ops.s2",
                "boundary operand and at least one fault rejected or accepted-correct",
                cnt(176, 3520),
                16,
                || fcase_strategy(nf),
                |c| {
                    let cat = &catalogues()[c.field as usize % 5];
                    let en = &cat[c.op as usize % cat.len()];
                    let md = model_of(c.field);
                    let (x, boundary, labels) = inputs_for(&md, &en.prog, en.in_bits, &c.cls, c.seed);
                    if en.ecf && x.iter().take(en.prog.n_field).any(|v| ecf_known_input(&md, v, en.in_bits.is_some())) {
                        return Ok(Verdict::trivial("excluded-known:enforce_canonical=false"));
                    }
                    let exhaustive = !p.quick() && en.heavy;
                    let (st, _) = with_field!(c.field, s2(&en.prog, &x, c.seed, if exhaustive { 1 } else { 8 }, exhaustive, 6))?;
                    Ok(verdict(boundary && st.rejected + st.accepted_correct > 0, c.field, en.label, &labels).with(st.label()))
                },
            );
            }

            // -------- decompositions: regressions (fixed defects) -------------------------------
            // to_le_bytes(None) / to_le_bits with more bits than the field has used to panic on
            // fields whose bit length is not a multiple of 8; to_le_chunks with a chunk size not
            // dividing LOG2_BASE used to ignore nb_chunks (no bound on x).
            let mut items: Vec<(u8, u8, u8)> = vec![];
            for f in 0..5u8 {
                for k in 0..5u8 {
                    for v in 0..4u8 {
                        items.push((f, k, v));
                    }
                }
            }
            if want("ff.decomp.regress") {
            p.enumerate(
                "ff.decomp.regress",
                "field whose bit length is not a multiple of 8, more bits requested than the field has, or a chunk size not dividing LOG2_BASE with nb_chunks given",
                items,
                16,
                false,
                |&(f, k, v)| {
                    let md = model_of(f);
                    let b = md.base();
                    let val: BigUint = match v {
                        0 => BigUint::from(5u8),
                        1 => &b + BigUint::one(),
                        2 => &md.m - BigUint::one(),
                        _ => (&md.m - BigUint::one()) >> 1,
                    };
                    let small = [5u32, 6, 31, (1 << 15) - 1][v as usize];
                    let (prog, x, label, how): (Prog, Vec<BigUint>, &'static str, u8) = match k {
                        0 => (Prog::term1(Term::ToBytes(0, None)), vec![val.clone()], "to_le_bytes(None)", 0),
                        1 => (Prog::term1(Term::ToBits(0, Some(md.bits as usize + 3), true)), vec![val.clone()], "to_le_bits(NUM_BITS+3)", 0),
                        2 => (Prog::term1(Term::ToChunks(0, 5, Some(3))), vec![BigUint::from(small)], "to_le_chunks(5 bits, Some(3))", 1),
                        3 => (Prog::term1(Term::ToChunks(0, 5, Some(3))), vec![(&val % (BigUint::one() << 40)) + (BigUint::one() << 15)], "to_le_chunks(5 bits, Some(3), x >= 2^15)", 2),
                        _ => (Prog::term1(Term::ToChunks(0, 5, None)), vec![val.clone()], "to_le_chunks(5 bits, None)", 1),
                    };
                    if how == 1 && ecf_known_input(&md, &x[0], k == 2) {
                        return Ok(Verdict::trivial("excluded-known:enforce_canonical=false"));
                    }
                    fn rb<Fd: EmField>(prog: &Prog, x: &[BigUint], how: u8) -> CaseResult {
                        let op = FOp::<Fd>::new(prog.clone());
                        let md = model::<Fd>();
                        match how {
                            0 => {
                                if Fd::VIA_STD {
                                    check_complete_and_s1(&op, x, 11)
                                } else {
                                    xcheck_complete_and_s1(&op, x, 11)
                                }
                            }
                            1 => xcheck_complete_readback(&op, x),
                            _ => xcheck_must_reject(&op, x, 3, 3, md.lb, &md.m),
                        }
                    }
                    let r = with_field!(f, rb(&prog, &x, how));
                    match r {
                        Ok(_) => Ok(Verdict::nontrivial(format!("{}:{}", field_name(f), label))),
                        Err(fl) => Err(Failure::new(format!("regression:{}:{}", label, fl.signature), format!("[{}] {}", field_name(f), fl.detail.chars().take(700).collect::<String>()))),
                    }
                },
            );
            }

            // -------- known finding: the enforce_canonical = false path (own sub-check) ----------
            // `assigned_to_le_bits(.., enforce_canonical = false)` (and `assigned_to_le_chunks` with a
            // chunk size not dividing LOG2_BASE, which uses it) never normalises `x + 1`: the
            // honest witness is unsatisfiable when limb 0 of the stored value is all ones
            // (x = 0 mod 2^LOG2_BASE) or x is the un-normalised result of lazy operations.
            // All signatures share the prefix `field_chip.enforce_canonical=false:incomplete:`.
            let mut items: Vec<(u8, u8, u8)> = vec![];
            for f in 0..5u8 {
                for k in 0..5u8 {
                    for v in 0..4u8 {
                        items.push((f, k, v));
                    }
                }
            }
            if want("ff.decomp.known") {
            p.enumerate(
                "ff.decomp.known",
                "stored limb 0 all ones (x = 0 mod B) or un-normalised input on the enforce_canonical = false path",
                items,
                16,
                false,
                |&(f, k, v)| {
                    let md = model_of(f);
                    let b = md.base();
                    let val: BigUint = match v {
                        0 => BigUint::from(5u8), // control
                        1 => b.clone(),
                        2 => (&b * BigUint::from(3u8) + (&b << md.lb)) % &md.m,
                        _ => (&md.m - BigUint::one()) >> 1,
                    };
                    let lazy = Prog { n_field: 1, n_bits: 0, n_bytes: 0, steps: vec![Step::Add(0, 0)], term: Term::ToBits(1, None, false) };
                    // with a bit bound, zero (stored as m-1, decomposed as m) is affected as well
                    let val = if k >= 3 { if v == 0 { BigUint::from(5u8) } else { BigUint::zero() } } else { val };
                    let (prog, label, why): (Prog, &'static str, &'static str) = match k {
                        0 => (Prog::term1(Term::ToBits(0, None, false)), "to_le_bits(enforce_canonical=false)", "to_le_bits:limb0-carry"),
                        1 => (lazy, "to_le_bits(lazy x+x, enforce_canonical=false)", "to_le_bits:unnormalised-input"),
                        2 => (Prog::term1(Term::ToChunks(0, 5, None)), "to_le_chunks(5 bits, None)", "to_le_chunks:limb0-carry"),
                        3 => (Prog::term1(Term::ToChunks(0, 5, Some(3))), "to_le_chunks(5 bits, Some(3))", "to_le_chunks:zero-with-bit-bound"),
                        _ => (Prog::term1(Term::ToBits(0, Some(9), false)), "to_le_bits(Some(9), enforce_canonical=false)", "to_le_bits:zero-with-bit-bound"),
                    };
                    fn rb<Fd: EmField>(prog: &Prog, x: &[BigUint]) -> CaseResult {
                        xcheck_complete_readback(&FOp::<Fd>::new(prog.clone()), x)
                    }
                    let r = with_field!(f, rb(&prog, &[val.clone()]));
                    let nt = v == 1 || v == 2 || k == 1 || (k >= 3 && v >= 1);
                    match r {
                        Ok(_) => Ok(Verdict::of(nt, format!("{}:{}", field_name(f), label))),
                        Err(fl) => {
                            let expected = ((k == 0 || k == 2) && (v == 1 || v == 2)) || (k == 1 && v >= 1) || (k >= 3 && v >= 1);
                            let sig = if fl.signature.contains(":incomplete:reject") && expected { format!("field_chip.enforce_canonical=false:incomplete:{why}") } else { fl.signature.clone() };
                            Err(Failure::new(sig, format!("[{} {}] {}", field_name(f), label, fl.detail.chars().take(600).collect::<String>())))
                        }
                    }
                },
            );
            }

        };
        let lane_chains = || {
            // -------- chains ------------------------------------------------------------
            let chain_of = |c: &FCase| -> Prog {
                let md = model_of(c.field);
                let mut rng = SplitMix(c.seed ^ 0xc4a1);
                if c.op % 3 == 0 {
                    identity_chain(&md, c.op as u64 / 3, &mut rng)
                } else {
                    gen_chain(&md, &mut rng)
                }
            };
            if want("ff.chains.complete") {
            p.sub(
                "ff.chains.complete",
                "chain of 2-6 operations in which an un-normalised register is consumed, or boundary operand",
                cnt(320, 6400),
                16,
                || fcase_strategy(nf),
                |c| {
                    let prog = chain_of(c);
                    let md = model_of(c.field);
                    let (x, boundary, labels) = inputs_for(&md, &prog, None, &c.cls, c.seed);
                    let r = with_field!(c.field, complete(&prog, &x, c.seed));
                    let kind = if c.op % 3 == 0 { "identity-chain" } else { "random-chain" };
                    match r {
                        Ok(v) if v.classes.first().map(|s| s.as_str()) == Some("out-of-domain-input-skipped") => Ok(verdict(false, c.field, "skipped-out-of-domain", &[])),
                        Ok(_) => Ok(verdict(boundary || prog.has_lazy_use(), c.field, kind, &labels).with(if prog.has_lazy_use() { "lazy-register-consumed" } else { "no-lazy-use" })),
                        Err(f) => Err(f),
                    }
                },
            );
            }
            if want("ff.chains.s2") {
            p.sub(
                "ff.chains.s2",
                "chain with an un-normalised register or boundary operand, and a fault rejected or accepted-correct",
                cnt(128, 2560),
                16,
                || fcase_strategy(nf),
                |c| {
                    let prog = chain_of(c);
                    let md = model_of(c.field);
                    let (x, boundary, labels) = inputs_for(&md, &prog, None, &c.cls, c.seed);
                    let (st, lab) = with_field!(c.field, s2(&prog, &x, c.seed, 6, false, 8))?;
                    let mut v = verdict((boundary || prog.has_lazy_use()) && st.rejected + st.accepted_correct > 0, c.field, "chain", &labels).with(st.label());
                    for l in lab {
                        v = v.with(l);
                    }
                    Ok(v)
                },
            );
            }

            // -------- violating inputs --------------------------------------------------
            if want("ff.unsat") {
            p.sub(
                "ff.unsat",
                "input outside the documented domain and the verdict comes from the constraint system (reject)",
                cnt(160, 3200),
                16,
                || fcase_strategy(nf),
                |c| {
                    let md = model_of(c.field);
                    let mut rng = SplitMix(c.seed);
                    let h = |v: &BigUint| hex(v);
                    let (a, la) = operand(&md, c.cls[0], &mut rng, None);
                    let (mut b, _) = operand(&md, c.cls[1], &mut rng, Some(&a));
                    if b == a {
                        b = (&a + BigUint::one()) % &md.m;
                    }
                    let bits = md.bits as usize;
                    // a value that does not fit k bits
                    let k = 1 + rng.below(bits as u64 - 1) as usize;
                    let big = {
                        let lo = BigUint::one() << k;
                        let v = if a >= lo { a.clone() } else { (&lo + &a) % &md.m };
                        if v >= lo { v } else { lo }
                    };
                    let kb = 1 + rng.below(bits as u64 / 8 - 1) as usize;
                    let bigb = {
                        let lo = BigUint::one() << (8 * kb);
                        let v = if a >= lo { a.clone() } else { (&lo + &a) % &md.m };
                        if v >= lo { v } else { lo }
                    };
                    let lazy_eq = |t: Term| Prog { n_field: 2, n_bits: 0, n_bytes: 0, steps: vec![Step::Add(0, 1), Step::Sub(2, 1)], term: t };
                    let (prog, x, label): (Prog, Vec<BigUint>, &'static str) = match c.op % 13 {
                        0 => (Prog::term2(Term::AssertEq(0, 1)), vec![a.clone(), b.clone()], "assert_equal(x!=y)"),
                        1 => (Prog::term2(Term::AssertNe(0, 1)), vec![a.clone(), a.clone()], "assert_not_equal(x==x)"),
                        2 => (Prog::term1(Term::AssertEqFixed(0, h(&b))), vec![a.clone()], "assert_equal_to_fixed(x!=c)"),
                        3 => (Prog::term1(Term::AssertNeFixed(0, h(&a))), vec![a.clone()], "assert_not_equal_to_fixed(x==c)"),
                        4 => (Prog::term1(Term::AssertNonZero(0)), vec![BigUint::zero()], "assert_non_zero(0)"),
                        5 => (Prog::binary(Step::Div(0, 1)), vec![a.clone(), BigUint::zero()], "div(x,0)"),
                        6 => (Prog::unary(Step::Inv(0)), vec![BigUint::zero()], "inv(0)"),
                        7 => (Prog::term1(Term::ToBits(0, Some(k), true)), vec![big.clone()], "to_le_bits(too-few-bits)"),
                        8 => (Prog::term1(Term::ToBytes(0, Some(kb))), vec![bigb.clone()], "to_le_bytes(too-few-bytes)"),
                        // representation independence of the assertions: equal residues reached lazily
                        9 => (lazy_eq(Term::AssertNe(3, 0)), vec![a.clone(), b.clone()], "assert_not_equal(lazy x+y-y, x)"),
                        10 => (
                            Prog { n_field: 1, n_bits: 0, n_bytes: 0, steps: vec![Step::Neg(0), Step::Add(0, 1)], term: Term::AssertNonZero(2) },
                            vec![a.clone()],
                            "assert_non_zero(lazy x + -x)",
                        ),
                        11 => (
                            Prog { n_field: 2, n_bits: 0, n_bytes: 0, steps: vec![Step::Sub(0, 1), Step::Sub(1, 0), Step::Add(2, 3), Step::Div(0, 4)], term: Term::Expose(5) },
                            vec![a.clone(), b.clone()],
                            "div(x, lazy 0)",
                        ),
                        _ => (lazy_eq(Term::AssertEq(3, 1)), vec![a.clone(), b.clone()], "assert_equal(lazy x, y!=x)"),
                    };
                    let _ = la;
                    let v = with_field!(c.field, must_reject(&prog, &x, c.seed, 3))?;
                    Ok(Verdict::of(v.nontrivial, format!("{}:{}", field_name(c.field), label)).with(v.classes[0].clone()))
                },
            );
            }

            // -------- representation independence ------------------------------------------
            // A register that is the *output of a normalisation* (from_le_bits, or a
            // product of constants that crosses the lazy limit) is given its second
            // well-formed representation (z + m) by a consistent fault plan on the
            // normalisation region; everything computed from it afterwards must decode
            // to the same residue-level answers.
            if want("ff.repr") {
            p.sub(
                "ff.repr",
                "residue inside the two-representation window and the consistent +m plan on a normalisation output was accepted with correct public values (or rejected at the window boundary)",
                cnt(240, 4800),
                16,
                || fcase_strategy(nf),
                |c| {
                    let md = model_of(c.field);
                    let mut rng = SplitMix(c.seed);
                    let h = |v: &BigUint| hex(&(v % &md.m));
                    let w = md.two_rep_max();
                    // residue r of the normalised register
                    let (r, rl): (BigUint, &'static str) = match c.cls[0] % 8 {
                        0 => (BigUint::one(), "r=1"),
                        1 => (BigUint::from(2u8), "r=2"),
                        2 => (w.clone(), "r=window-max"),
                        3 => (&w + BigUint::one(), "r=window-max+1"),
                        4 => (&w - BigUint::one(), "r=window-max-1"),
                        5 => (BigUint::zero(), "r=0"),
                        _ => (BigUint::one() + BigUint::from_bytes_le(&rng.bytes(64)) % &w, "r=random-in-window"),
                    };
                    let mut r = r % &md.m;
                    let mut rl = rl;
                    // how the register is produced: from_le_bits, or a product of two
                    // constants whose second factor crosses the lazy limit (only residues
                    // that are multiples of 2^(lb-3))
                    let span = &w >> (md.lb - 3);
                    // a third way: the register is an assigned *input*, re-represented by a
                    // limb transplant (see ops_foreign)
                    let via_input = c.op % 3 == 1;
                    let via_bits = !via_input && (c.op % 3 != 0 || span.is_zero());
                    if !via_bits && !via_input {
                        r = (BigUint::one() + BigUint::from_bytes_le(&rng.bytes(64)) % &span) << (md.lb - 3);
                        rl = "r=random-in-window";
                    }
                    let (mut prog, mut x, reg): (Prog, Vec<BigUint>, usize) = if via_input {
                        (Prog { n_field: 2, n_bits: 1, n_bytes: 0, steps: vec![], term: Term::Expose(1) }, vec![r.clone(), BigUint::from(rng.below(2))], 1)
                    } else if via_bits {
                        let len = (r.bits().max(1) as usize + rng.below(9) as usize).min(md.bits as usize);
                        let bits: Vec<BigUint> = (0..len as u64).map(|i| BigUint::from(r.bit(i) as u8)).collect();
                        (Prog { n_field: 1, n_bits: len, n_bytes: 0, steps: vec![Step::FromBits(0, len)], term: Term::Expose(1) }, bits, 1)
                    } else {
                        // x * 2^(lb/2-2) * 2^(lb-3-(lb/2-2)) = x * 2^(lb-3): the second product normalises
                        let k1 = BigUint::one() << (md.lb / 2 - 2);
                        let k2 = BigUint::one() << (md.lb - 3 - (md.lb / 2 - 2));
                        let xin = &r >> (md.lb - 3);
                        (Prog { n_field: 2, n_bits: 0, n_bytes: 0, steps: vec![Step::MulC(1, h(&k1)), Step::MulC(2, h(&k2))], term: Term::Expose(3) }, vec![xin], 3)
                    };
                    // the other field input (register 0): equal to r, different, or related
                    let other = match c.cls[1] % 4 {
                        0 => r.clone(),
                        1 => (&r + BigUint::one()) % &md.m,
                        2 => (&md.m - &r) % &md.m,
                        _ => BigUint::from_bytes_le(&rng.bytes(64)) % &md.m,
                    };
                    x.insert(0, other.clone());
                    let (steps_extra, term, tl): (Vec<Step>, Term, &'static str) = match c.cls[2] % 12 {
                        0 => (vec![], Term::Expose(reg), "expose"),
                        1 => (vec![], Term::IsZero(reg), "is_zero"),
                        2 => (vec![], Term::IsEq(reg, 0), "is_equal"),
                        3 => (vec![], Term::IsEq(0, reg), "is_equal"),
                        4 => (vec![], Term::IsEqFixed(reg, h(&r)), "is_equal_to_fixed"),
                        5 => (vec![], Term::ToBits(reg, None, true), "to_le_bits"),
                        6 => (vec![], Term::ToBytes(reg, None), "to_le_bytes"),
                        7 => (vec![Step::Mul(reg, 0)], Term::Expose(reg + 1), "mul"),
                        8 => (vec![Step::Add(reg, 0), Step::Neg(reg + 1)], Term::Expose(reg + 2), "add-neg"),
                        9 => (vec![Step::Select(0, reg, 0)], Term::Expose(reg + 1), "select"),
                        10 => (vec![], Term::AssertNe(reg, 0), "assert_not_equal"),
                        _ => (vec![Step::Inv0(reg)], Term::Expose(reg + 1), "inv0"),
                    };
                    if tl == "select" && prog.n_bits == 0 {
                        return Ok(Verdict::trivial("skipped"));
                    }
                    prog.steps.extend(steps_extra);
                    prog.term = term;
                    fn run<Fd: EmField>(prog: &Prog, x: &[BigUint], seed: u64) -> Result<(XStats, Vec<String>), Failure> {
                        let op = FOp::<Fd>::new(prog.clone());
                        let Some(inst) = op.xreference(x) else { return Ok((XStats::default(), vec!["out-of-domain".into()])) };
                        let honest = honest_readback(&op, x, &inst)?;
                        let regs = find_regions::<Fd>(&honest.log);
                        let mut st = XStats::default();
                        let mut labels = vec![];
                        let mut rng = SplitMix(seed);
                        for (i, reg) in regs.iter().enumerate() {
                            for t in [1i64, 2] {
                                if let Some(plan) = plan_norm_plus_m::<Fd>(reg, &honest.values, t) {
                                    let mut s1 = XStats::default();
                                    run_plans(&op, x, &inst, vec![(format!("norm#{i}:z{t:+}m-consistent"), plan)], &mut s1)?;
                                    labels.push(format!("+{t}m:{}", if s1.accepted_correct > 0 { "accepted-correct" } else if s1.rejected > 0 { "rejected" } else { "other" }));
                                    st.add(&s1);
                                }
                            }
                        }
                        // the assigned inputs, re-represented consistently (limb transplant)
                        for e in 0..prog.n_field {
                            if let Some(plan) = plan_transplant_plus_m::<Fd>(&honest, e * Fd::NB_LIMBS, 1) {
                                if plan.is_empty() {
                                    continue;
                                }
                                let mut s1 = XStats::default();
                                run_plans(&op, x, &inst, vec![(format!("input#{e}:+1m-transplant-consistent"), plan)], &mut s1)?;
                                labels.push(format!("input+1m:{}", if s1.accepted_correct > 0 { "accepted-correct" } else if s1.rejected > 0 { "rejected" } else { "other" }));
                                st.add(&s1);
                            }
                        }
                        // plus a few of the other structured plans
                        let plans = structured_plans::<Fd>(&honest, &mut rng, 4).into_iter().filter(|(k, _)| !k.ends_with("consistent")).collect();
                        run_plans(&op, x, &inst, plans, &mut st)?;
                        Ok((st, labels))
                    }
                    let (st, labels) = with_field!(c.field, run(&prog, &x, c.seed))?;
                    let in_window = !r.is_zero() && r <= w;
                    let nt = if in_window { st.accepted_correct > 0 } else { st.rejected > 0 };
                    let mut v = Verdict::of(nt, format!("{}:{}:{}", field_name(c.field), tl, rl)).with(format!("term:{tl}")).with(rl).with(if via_input { "via:input-limb-transplant" } else if via_bits { "via:from_le_bits" } else { "via:mul_by_constant-chain" });
                    for l in labels {
                        v = v.with(l);
                    }
                    Ok(v)
                },
            );
            }

        };
        let lane_big = || {
            // -------- BigUint gadget -------------------------------------------------------
            if want("big.ops.complete") {
            p.sub(
                "big.ops.complete",
                "boundary operand (class other than random) or an operation with un-normalised intermediate results",
                cnt(400, 8000),
                16,
                bcase_strategy,
                |c| {
                    let (op, x, boundary, labels) = big_case(&c.args(), p.quick());
                    let r = check_complete_and_s1(&op, &x, c.seed)?;
                    if r.classes.first().map(|s| s.as_str()) == Some("out-of-domain-input-skipped") {
                        return Ok(Verdict::trivial("skipped-out-of-domain"));
                    }
                    let mut v = Verdict::of(boundary, format!("big:{}", big_label(&op))).with(format!("widths:{},{}", op.wa, op.wb));
                    for l in labels {
                        v = v.with(format!("operand:{l}"));
                    }
                    Ok(v)
                },
            );
            }
            if want("big.ops.s2") {
            p.sub(
                "big.ops.s2",
                "boundary operand or un-normalised intermediate, and a fault rejected or accepted-correct",
                cnt(160, 3200),
                16,
                bcase_strategy,
                |c| {
                    let (op, x, boundary, _) = big_case(&c.args(), true);
                    let exhaustive = !p.quick() && matches!(op.kind, BKind::Sub | BKind::DivRem | BKind::LowerThan) && op.wa <= 256 && op.wb <= 256;
                    let (s, _) = check_s2(&op, &x, c.seed, if exhaustive { 1 } else { 8 }, exhaustive, true)?;
                    let m = BigUint::one() << 96;
                    let (s2, _) = xcheck_s2(&op, &x, c.seed ^ 0x5eed, 6, false, BIG_LB, &m)?;
                    let tot = s.rejected + s.accepted_correct + s2.rejected + s2.accepted_correct;
                    Ok(Verdict::of(boundary && tot > 0, format!("big:{}", big_label(&op))).with(s2.label()))
                },
            );
            }
            if want("big.unsat") {
            p.sub(
                "big.unsat",
                "input outside the documented domain (underflow, zero divisor, value wider than declared) and the verdict comes from the constraint system or the run aborts",
                cnt(96, 1920),
                16,
                bcase_strategy,
                |c| {
                    let mut rng = SplitMix(c.seed);
                    let wa = WIDTHS[c.w[0] as usize % 10];
                    let wb = WIDTHS[c.w[1] as usize % 10];
                    let (a, _) = big_operand(wa, c.cls[0], &mut rng, None);
                    let (b, _) = big_operand(wb, c.cls[1], &mut rng, Some(&a));
                    let (op, x, label): (BigOp, Vec<BigUint>, &'static str) = match c.kind % 5 {
                        0 | 1 => {
                            // underflow: x < y
                            let (mut lo, mut hi, mut wl, mut wh) = (a.clone(), b.clone(), wa, wb);
                            if lo > hi {
                                std::mem::swap(&mut lo, &mut hi);
                                std::mem::swap(&mut wl, &mut wh);
                            }
                            if lo == hi {
                                hi = &hi + BigUint::one();
                                if hi.bits() > wh as u64 {
                                    hi = &hi - BigUint::one();
                                    if lo.is_zero() {
                                        return Ok(Verdict::trivial("skipped"));
                                    }
                                    lo = &lo - BigUint::one();
                                }
                            }
                            (BigOp { kind: BKind::Sub, wa: wl, wb: wh, wc: 1 }, vec![lo, hi], "sub-underflow")
                        }
                        2 => (BigOp { kind: BKind::DivRem, wa, wb, wc: 1 }, vec![a.clone(), BigUint::zero()], "div_rem-by-zero"),
                        3 => (BigOp { kind: BKind::Assign, wa, wb: 1, wc: 1 }, vec![(BigUint::one() << wa) + &a], "assign-wider-than-declared"),
                        _ => (BigOp { kind: BKind::ModExp(2 + c.kind as u64 % 3), wa: wa.min(256), wb: wb.min(256), wc: 1 }, vec![&a % (BigUint::one() << wa.min(256)), BigUint::zero()], "mod_exp-modulus-zero"),
                    };
                    if c.kind % 5 <= 1 && x[0] >= x[1] {
                        return Ok(Verdict::trivial("skipped"));
                    }
                    let m = BigUint::one() << 96;
                    let v = xcheck_must_reject(&op, &x, c.seed, 3, BIG_LB, &m)?;
                    Ok(Verdict::of(true, format!("big:{label}")).with(v.classes[0].clone()))
                },
            );
            }

            // F20: mod_exp(x, n, m) for n = 1 (x >= m) and n = 0 (m = 1); controls included
            let mut f20: Vec<(u64, String, String, u32, u32)> = vec![];
            for (n, x, m, wa, wb) in [
                (1u64, "3e8", "7", 64u32, 8u32),
                (1, "7", "7", 8, 8),
                (1, "ffffffffffffffffffffffffffffffff", "fffffffffffffffffffffffe", 128, 96),
                (1, "6", "7", 8, 8), // control: x < m
                (0, "5", "1", 8, 1),
                (0, "0", "1", 1, 1),
                (0, "5", "2", 8, 8), // control: m > 1
                (3, "3e8", "7", 64, 8), // control
                (2, "5", "1", 8, 1),  // control: m = 1, n >= 2
            ] {
                f20.push((n, x.into(), m.into(), wa, wb));
            }
            if want("big.mod_exp.f20") {
            p.enumerate("big.mod_exp.f20", "exponent 0 or 1 (the branches that skip the reduction) and controls", f20, 8, false, |(n, x, m, wa, wb)| {
                let op = BigOp { kind: BKind::ModExp(*n), wa: *wa, wb: *wb, wc: 1 };
                let xs = vec![unhex(x), unhex(m)];
                let want = xs[0].modpow(&BigUint::from(*n), &xs[1]);
                let inst = op.xreference(&xs).expect("in domain");
                let run = op.xrun(&xs, XInst::ReadBack(inst.len()), Default::default());
                let exposed = run.public.clone();
                if run.outcome.accepted() && !op.xjudge(&exposed) {
                    let got = exposed.last().map(f_to_big).unwrap_or_default();
                    let sig = match n {
                        1 => "biguint.mod_exp:n=1:returns-unreduced-base".to_string(),
                        0 => "biguint.mod_exp:n=0:returns-1-for-modulus-1".to_string(),
                        _ => format!("biguint.mod_exp:n={n}:wrong-result"),
                    };
                    return Err(Failure::new(sig, format!("mod_exp(x=0x{x}, n={n}, m=0x{m}): the circuit's own witness is accepted and exposes the result {got} where x^n mod m = {want}")));
                }
                // also the plain completeness check
                check_complete_and_s1(&op, &xs, 1)?;
                Ok(Verdict::of(*n <= 1, format!("mod_exp:n={n}")))
            });
            }

            // F21: assign_biguint with nb_bits = 0
            if want("big.assign.f21") {
            p.enumerate("big.assign.f21", "declared width 0", vec![0u64, 1, 5, u64::MAX, 1 << 63], 5, false, |v| {
                let op = BigOp { kind: BKind::Assign, wa: 0, wb: 1, wc: 1 };
                let xs = vec![BigUint::from(*v)];
                let run = op.xrun(&xs, XInst::ReadBack(1), Default::default());
                match (&run.outcome, *v) {
                    (Outcome::Accept, 0) => Ok(Verdict::nontrivial("width0:value0:accepted")),
                    (Outcome::Accept, _) => Err(Failure::new(
                        "biguint.assign_biguint:nb_bits=0:accepts-nonzero-value",
                        format!("assign_biguint(value={v}, nb_bits=0) followed by constrain_as_public_input is accepted; exposed limbs {:?} (a 0-bit integer must be 0; `(nb_bits - 1) % 96 + 1` wraps to a 64-bit bound in builds without overflow checks)", run.public),
                    )),
                    (Outcome::Panic(pm), _) if pm.contains("overflow") => Err(Failure::new("biguint.assign_biguint:nb_bits=0:panics-subtract-overflow", format!("value={v}: {pm}"))),
                    (o, 0) => Err(Failure::new("biguint.assign_biguint:nb_bits=0:value0-not-accepted", format!("{o:?}"))),
                    (o, _) => Ok(Verdict::nontrivial(format!("width0:nonzero:{}", o.label()))),
                }
            });
            }
            vp_circ::catalogue_sweep!(p, "catalogue.sweep", vp_circ::ops_foreign::visit_ops, p.tier.pick(3, 1), p.tier.pick(300, 100_000), 16);
        };
        // three lanes side by side (each sub-check brings its own streams)
        if p.is_replay() {
            lane_ops();
            lane_chains();
            lane_big();
        } else {
            std::thread::scope(|sc| {
                sc.spawn(&lane_ops);
                sc.spawn(&lane_chains);
                lane_big();
            });
        }
    });
}
