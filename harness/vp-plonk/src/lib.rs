//! Proof-system layer checks (C01–C03, C12 domain part, C14, C17): shared engines.
pub mod e1;
pub mod pv;
pub mod c12_domain;
