//! S3 — "wrong output + linear repair" adversary ("S3 proposes, S2 replays").
//!
//! Starting from the honest run of an op, a public *output* is given another
//! value by faulting the assignment that feeds it, and the run is replayed
//! under that plan (the library's own witness generation recomputes everything
//! downstream). If the replay is rejected, the harness computes the
//! *residuals* of the replayed table: the values of the gate polynomials that
//! do not vanish around the cells that changed (evaluated with
//! `Expression::evaluate` over the mock prover's tables) and the differences
//! of cells that a copy constraint ties together. It then looks for another
//! assignment (a hint computed off-circuit by the library: quotient, carry,
//! inverse, bit, ...) in which the first residual is *affine* — established
//! black-box by replaying with the candidate at v+1 and v+2, so that the
//! effect of the candidate is propagated by the library's own witness
//! generation — solves for it, adds it to the plan and replays. Depth-first,
//! bounded. Together with walking the whole range of small outputs this finds
//! "wrap-around" witnesses that satisfy the intended integer relation only
//! modulo p while passing every range check.
//!
//! Every verdict is `MockProver::verify()` on a replayed run; the harness
//! evaluator only guides the search and cannot cause an alarm by itself.

use std::collections::{HashMap, HashSet};

use ff::Field;
use midnight_proofs::{
    dev::{CellValue, MockProver},
    plonk::{Any, Expression},
};
use num_bigint::BigUint;
use rayon::iter::ParallelIterator;
use vpcore::{Failure, SplitMix, Verdict};

use crate::e2::*;

#[derive(Clone, Debug, Default)]
pub struct S3Stats {
    pub searches: usize,
    pub replays: usize,
    pub repairs_found: usize,
    pub dead_ends: usize,
    pub accepted_correct: usize,
}

fn cell(p: &MockProver<F>, col: usize, row: usize) -> F {
    match p.advice()[col][row] {
        CellValue::Assigned(v) => v,
        _ => F::ZERO,
    }
}

fn eval(p: &MockProver<F>, e: &Expression<F>, row: usize) -> F {
    let n = p.advice().first().map(|c| c.len()).unwrap_or(1) as i64;
    let at = |rot: i32| ((row as i64 + rot as i64).rem_euclid(n)) as usize;
    e.evaluate(
        &|c| c,
        &|_| F::ZERO, // selectors are compiled into fixed columns by MockProver
        &|q| match p.fixed()[q.column_index()][at(q.rotation().0)] {
            CellValue::Assigned(v) => v,
            _ => F::ZERO,
        },
        &|q| cell(p, q.column_index(), at(q.rotation().0)),
        &|q| match &p.instance()[q.column_index()][at(q.rotation().0)] {
            midnight_proofs::dev::InstanceValue::Assigned(v) => *v,
            _ => F::ZERO,
        },
        &|_| F::ZERO,
        &|a| -a,
        &|a, b| a + b,
        &|a, b| a * b,
        &|a, s| a * s,
    )
}

/// Identity of a residual: a gate polynomial at a row, or a copy constraint
/// between two cells (permutation column index, row).
#[derive(Clone, Copy, Debug, PartialEq, Eq, Hash)]
enum ResId {
    Gate(usize, usize, usize),
    Copy(usize, usize),
}

struct Tables {
    mapping: Vec<Vec<(usize, usize)>>,
    cols: Vec<midnight_proofs::plonk::Column<Any>>,
}

fn value_at(p: &MockProver<F>, t: &Tables, c: usize, r: usize) -> Option<F> {
    let col = t.cols[c];
    let v = match col.column_type() {
        Any::Advice(_) => p.advice()[col.index()][r],
        Any::Fixed => p.fixed()[col.index()][r],
        Any::Instance => {
            return match &p.instance()[col.index()][r] {
                midnight_proofs::dev::InstanceValue::Assigned(v) => Some(*v),
                _ => Some(F::ZERO),
            }
        }
    };
    match v {
        CellValue::Assigned(v) => Some(v),
        _ => None,
    }
}

fn residual(p: &MockProver<F>, t: &Tables, id: ResId) -> F {
    match id {
        ResId::Gate(g, pi, row) => eval(p, &p.cs().gates()[g].polynomials()[pi], row),
        ResId::Copy(c, r) => {
            let (c2, r2) = t.mapping[c][r];
            match (value_at(p, t, c, r), value_at(p, t, c2, r2)) {
                (Some(a), Some(b)) => a - b,
                _ => F::ZERO,
            }
        }
    }
}

/// Non-zero residuals: gates at the rows around changed cells, and all copy
/// constraints.
fn residuals(honest: &MockProver<F>, now: &MockProver<F>, t: &Tables) -> Vec<ResId> {
    let usable = now.usable_rows().clone();
    let mut rows = HashSet::new();
    for (c, col) in now.advice().iter().enumerate() {
        for r in usable.clone() {
            if col[r] != honest.advice()[c][r] {
                for d in -4i64..=4 {
                    let rr = r as i64 + d;
                    if rr >= 0 && (rr as usize) < usable.end {
                        rows.insert(rr as usize);
                    }
                }
            }
        }
    }
    let mut rows: Vec<usize> = rows.into_iter().collect();
    rows.sort();
    let mut out = vec![];
    for (c, col) in t.mapping.iter().enumerate() {
        for r in usable.clone() {
            if col[r] != (c, r) && residual(now, t, ResId::Copy(c, r)) != F::ZERO {
                out.push(ResId::Copy(c, r));
            }
        }
    }
    for (gi, g) in now.cs().gates().iter().enumerate() {
        for (pi, poly) in g.polynomials().iter().enumerate() {
            for &r in &rows {
                if eval(now, poly, r) != F::ZERO {
                    out.push(ResId::Gate(gi, pi, r));
                }
            }
        }
    }
    out
}

/// Candidate wrong values for an output whose honest value is `y`.
fn wrong_outputs(y: F, rng: &mut SplitMix, walk: u64) -> Vec<F> {
    let yb = f_to_big(&y);
    let mut v = vec![];
    if yb < BigUint::from(1u32 << 12) {
        // small declared range (bit, byte, remainder, comparison result): walk it
        for c in 0..walk {
            v.push(F::from(c));
        }
        v.push(y + F::ONE);
        v.push(y + F::from(2));
        v.push(y + F::from(3));
    } else {
        v.push(y + F::ONE);
        v.push(y - F::ONE);
        v.push(F::ZERO);
        v.push(F::ONE);
    }
    v.push(F::from(rng.next_u64()));
    let mut seen = HashSet::new();
    v.retain(|c| *c != y && seen.insert(f_to_big(c)));
    v
}

struct Ctx<'a, O: Op> {
    op: &'a O,
    x: &'a [BigUint],
    inst: &'a [F],
    honest: &'a MockProver<F>,
    tables: &'a Tables,
    /// assignment index -> absolute advice cell
    assign_cell: &'a HashMap<usize, (usize, usize)>,
    n_assign: usize,
    window: usize,
    max_candidates: usize,
}

fn violation<O: Op>(cx: &Ctx<O>, plan: &HashMap<usize, Fault<F>>, run: &Run) -> Failure {
    let cls = cx.op.classify(&run.public).unwrap_or_else(|| "unclassified".into());
    let mut pl: Vec<_> = plan.iter().map(|(k, v)| format!("{k}:{v:?}")).collect();
    pl.sort();
    Failure::new(
        format!("{}:unsound:S3:{cls}", cx.op.name()),
        format!(
            "MockProver accepts an assignment found by output substitution + linear repair whose public values contradict the reference: inputs x={:?}; plan (assignment index -> value) {pl:?}; exposed {:?}; honest instance {:?}",
            cx.x, run.public, cx.inst
        ),
    )
}

fn search<O: Op>(cx: &Ctx<O>, plan: HashMap<usize, Fault<F>>, anchor: usize, depth: usize, budget: &mut usize, stats: &mut S3Stats) -> Result<(), Failure> {
    if *budget == 0 {
        return Ok(());
    }
    *budget -= 1;
    stats.replays += 1;
    let (run, prover) = run_faulted_with_prover(cx.op, cx.x, cx.inst.len(), plan.clone());
    let Some(prover) = prover else { return Ok(()) }; // aborted witness generation
    if run.outcome.accepted() {
        if run.public == cx.inst {
            return Ok(());
        }
        if cx.op.judge(&run.public) {
            stats.accepted_correct += 1;
            return Ok(());
        }
        return Err(violation(cx, &plan, &run));
    }
    if depth == 0 {
        stats.dead_ends += 1;
        return Ok(());
    }
    let res = residuals(cx.honest, &prover, cx.tables);
    let Some(&target) = res.first() else {
        stats.dead_ends += 1; // only lookups are violated
        return Ok(());
    };
    let rho0 = residual(&prover, cx.tables, target);

    // candidates: assignments around the anchor (hints are assigned close to their use)
    let lo = anchor.saturating_sub(cx.window);
    let hi = (anchor + cx.window).min(cx.n_assign.saturating_sub(1));
    let mut tried = 0;
    // nearest first
    let mut cands: Vec<usize> = (lo..=hi).filter(|i| !plan.contains_key(i)).collect();
    cands.sort_by_key(|i| (*i as i64 - anchor as i64).abs());
    for i in cands {
        if *budget < 3 || tried >= cx.max_candidates {
            break;
        }
        let Some(&(c, r)) = cx.assign_cell.get(&i) else { continue };
        let v0 = cell(&prover, c, r);
        let probe = |delta: F, budget: &mut usize, stats: &mut S3Stats| -> Option<F> {
            *budget = budget.saturating_sub(1);
            stats.replays += 1;
            let mut p = plan.clone();
            p.insert(i, Fault::Set(v0 + delta));
            let (_, pr) = run_faulted_with_prover(cx.op, cx.x, cx.inst.len(), p);
            pr.map(|pr| residual(&pr, cx.tables, target))
        };
        tried += 1;
        let Some(rho1) = probe(F::ONE, budget, stats) else { continue };
        let a = rho1 - rho0;
        if a == F::ZERO {
            continue;
        }
        let Some(rho2) = probe(F::from(2), budget, stats) else { continue };
        if rho2 - rho1 != a {
            continue; // not affine in this assignment
        }
        let v_star = v0 - rho0 * a.invert().unwrap();
        stats.repairs_found += 1;
        let mut p2 = plan.clone();
        p2.insert(i, Fault::Set(v_star));
        search(cx, p2, anchor, depth - 1, budget, stats)?;
    }
    Ok(())
}

/// Runs the S3 adversary on one input tuple.
#[allow(clippy::too_many_arguments)]
pub fn check_s3<O: Op>(op: &O, x: &[BigUint], seed: u64, max_outputs: usize, depth: usize, budget_per_search: usize, walk: u64) -> Result<(S3Stats, Verdict), Failure> {
    let mut stats = S3Stats::default();
    let Some(inst) = op.reference(x) else {
        return Ok((stats, Verdict::trivial("out-of-domain-input-skipped")));
    };
    let (honest_run, honest) = run_faulted_with_prover(op, x, inst.len(), HashMap::new());
    let Some(honest) = honest else {
        return Err(Failure::new(format!("{}:incomplete:{}", op.name(), honest_run.outcome.label()), format!("honest run failed: {:?}", honest_run.outcome)));
    };
    if !honest_run.outcome.accepted() || honest_run.public != inst {
        return Err(Failure::new(format!("{}:readback-mismatch", op.name()), format!("{:?} {:?} vs {:?}", honest_run.outcome, honest_run.public, inst)));
    }
    let mut cell_to_assign = HashMap::new();
    let mut assign_cell = HashMap::new();
    for rec in &honest_run.log {
        if let Some(r) = rec.abs_row {
            cell_to_assign.insert((rec.column, r), rec.index);
            assign_cell.insert(rec.index, (rec.column, r));
        }
    }
    let perm = honest.permutation();
    let tables = Tables { cols: perm.columns().to_vec(), mapping: perm.mapping().map(|c| c.collect::<Vec<_>>()).collect() };
    let ci = tables.cols.iter().position(|c| *c.column_type() == Any::Instance && c.index() == 1);
    let mut out_assign: Vec<(usize, usize)> = vec![]; // (instance position, assignment index)
    if let Some(ci) = ci {
        for pos in op.n_input_scalars().min(inst.len())..inst.len() {
            let start = (ci, pos);
            let mut cur = tables.mapping[start.0][start.1];
            let mut steps = 0;
            // earliest assignment in the copy class: the cell the value was first written to
            let mut best: Option<usize> = None;
            while cur != start && steps < 1 << 16 {
                let col = tables.cols[cur.0];
                if let Any::Advice(_) = col.column_type() {
                    if let Some(&idx) = cell_to_assign.get(&(col.index(), cur.1)) {
                        best = Some(best.map_or(idx, |b: usize| b.min(idx)));
                    }
                }
                cur = tables.mapping[cur.0][cur.1];
                steps += 1;
            }
            if let Some(idx) = best {
                out_assign.push((pos, idx));
            }
        }
    }
    let mut rng = SplitMix(seed);
    let mut chosen = out_assign.clone();
    while chosen.len() > max_outputs {
        let i = rng.below(chosen.len() as u64) as usize;
        chosen.remove(i);
    }
    let cx = Ctx {
        op,
        x,
        inst: &inst,
        honest: &honest,
        tables: &tables,
        assign_cell: &assign_cell,
        n_assign: honest_run.log.len(),
        window: 24,
        max_candidates: 48,
    };
    for (pos, idx) in chosen {
        for y in wrong_outputs(inst[pos], &mut rng, walk) {
            stats.searches += 1;
            let mut budget = budget_per_search;
            search(&cx, HashMap::from([(idx, Fault::Set(y))]), idx, depth, &mut budget, &mut stats)?;
        }
    }
    let nt = stats.repairs_found > 0;
    Ok((stats.clone(), Verdict::of(nt, "S3").with(op.name())))
}

// ---------------------------------------------------------------------------
// S5 — coherent lookup-tuple substitution + linear repair
//
// Cells that a lookup ties together (a value and its spread form, a limb and its range tag)
// cannot be faulted one at a time: the tuple leaves the table and the lookup rejects. Here the
// whole tuple of a lookup row is replaced by *another row of the table* (same values in the
// slots that are not advice cells), and the violated gate constraints that remain are repaired
// by the affine search of S3. This reaches assignments in which a lookup-checked cell holds a
// legal but wrong value — e.g. a limb that a dropped copy constraint should have pinned.
// Verdicts are full verifications of replays, as everywhere.

/// What the search needs from the circuit under test.
pub trait Arena {
    fn arena_name(&self) -> String;
    /// Replays synthesis under the plan (public values read back): (accepted, public, prover).
    fn replay(&self, plan: &HashMap<usize, Fault<F>>) -> (bool, Vec<F>, Option<MockProver<F>>);
    fn judge(&self, public: &[F]) -> bool;
    fn classify(&self, public: &[F]) -> Option<String>;
}

#[derive(Clone, Debug, Default)]
pub struct S5Stats {
    pub lookups: usize,
    pub classes: usize,
    pub tuples_tried: usize,
    pub replays: usize,
    pub repairs_found: usize,
    pub accepted_correct: usize,
    /// accepted replays whose public values are the honest ones (a witness freedom without effect)
    pub accepted_same: usize,
}

fn advice_queries(e: &Expression<F>) -> Vec<(usize, i32)> {
    let mut v: Vec<(usize, i32)> = e.evaluate(
        &|_| vec![],
        &|_| vec![],
        &|_| vec![],
        &|q| vec![(q.column_index(), q.rotation().0)],
        &|_| vec![],
        &|_| vec![],
        &|a| a,
        &|mut a, b| {
            a.extend(b);
            a
        },
        &|mut a, b| {
            a.extend(b);
            a
        },
        &|a, _| a,
    );
    v.sort();
    v.dedup();
    v
}

struct ArenaCtx<'a, A: Arena> {
    arena: &'a A,
    inst: &'a [F],
    honest: &'a MockProver<F>,
    tables: &'a Tables,
    assign_cell: &'a HashMap<usize, (usize, usize)>,
    n_assign: usize,
    window: usize,
    max_candidates: usize,
    cell_assign: &'a HashMap<(usize, usize), usize>,
    lookup_bound: &'a HashSet<usize>,
    n_rows: i64,
}

fn search_arena<A: Arena>(cx: &ArenaCtx<A>, plan: HashMap<usize, Fault<F>>, anchor: usize, depth: usize, budget: &mut usize, stats: &mut S5Stats) -> Result<(), Failure> {
    if *budget == 0 {
        return Ok(());
    }
    *budget -= 1;
    stats.replays += 1;
    let (accepted, public, prover) = cx.arena.replay(&plan);
    let trace = std::env::var("VP_S5_TRACE").map(|v| v == "2").unwrap_or(false);
    if trace {
        let mut ks: Vec<_> = plan.keys().collect();
        ks.sort();
        eprintln!("  S5 {} depth {depth} plan {ks:?} accepted {accepted} same-public {} prover {}", cx.arena.arena_name(), public == cx.inst, prover.is_some());
    }
    let Some(prover) = prover else { return Ok(()) };
    if accepted {
        if public == cx.inst {
            stats.accepted_same += 1;
            return Ok(());
        }
        if cx.arena.judge(&public) {
            stats.accepted_correct += 1;
            return Ok(());
        }
        let cls = cx.arena.classify(&public).unwrap_or_else(|| "unclassified".into());
        let mut pl: Vec<_> = plan.iter().map(|(k, v)| format!("{k}:{v:?}")).collect();
        pl.sort();
        return Err(Failure::new(
            format!("{}:unsound:S5:{cls}", cx.arena.arena_name()),
            format!("MockProver accepts an assignment found by lookup-tuple substitution + linear repair whose public values contradict the reference: plan (assignment index -> value) {pl:?}; exposed {public:?}; honest instance {:?}", cx.inst),
        ));
    }
    if depth == 0 {
        return Ok(());
    }
    let res = residuals(cx.honest, &prover, cx.tables);
    let Some(&target) = res.first() else { return Ok(()) };
    // a broken copy constraint is a dead end here (pairs of equal cells are engine S3's domain)
    if trace {
        eprintln!("  S5 target {target:?} of {} residuals", res.len());
    }
    if matches!(target, ResId::Copy(..)) {
        return Ok(());
    }
    let rho0 = residual(&prover, cx.tables, target);
    let lo = anchor.saturating_sub(cx.window);
    let hi = (anchor + cx.window).min(cx.n_assign.saturating_sub(1));
    // first the cells the violated gate reads (those no lookup binds before the others),
    // then the assignments around the substituted tuple
    let mut cands: Vec<usize> = vec![];
    if let ResId::Gate(g, pi, row) = target {
        let poly = &prover.cs().gates()[g].polynomials()[pi];
        for (c, rot) in advice_queries(poly) {
            let rr = (row as i64 + rot as i64).rem_euclid(cx.n_rows) as usize;
            if let Some(i) = cx.cell_assign.get(&(c, rr)) {
                if !plan.contains_key(i) && !cands.contains(i) {
                    cands.push(*i);
                }
            }
        }
        cands.sort_by_key(|i| (cx.lookup_bound.contains(i), (*i as i64 - anchor as i64).abs()));
    }
    let mut near: Vec<usize> = (lo..=hi).filter(|i| !plan.contains_key(i) && !cands.contains(i)).collect();
    near.sort_by_key(|i| (*i as i64 - anchor as i64).abs());
    if cands.is_empty() {
        cands.extend(near);
    }
    if trace {
        eprintln!("  S5 candidates {cands:?} anchor {anchor}");
    }
    let mut tried = 0;
    for i in cands {
        if *budget < 3 || tried >= cx.max_candidates {
            break;
        }
        let Some(&(c, r)) = cx.assign_cell.get(&i) else { continue };
        let v0 = cell(&prover, c, r);
        tried += 1;
        let mut probe = |delta: F, budget: &mut usize, stats: &mut S5Stats| -> Option<F> {
            *budget = budget.saturating_sub(1);
            stats.replays += 1;
            let mut p = plan.clone();
            p.insert(i, Fault::Set(v0 + delta));
            cx.arena.replay(&p).2.map(|pr| residual(&pr, cx.tables, target))
        };
        let Some(rho1) = probe(F::ONE, budget, stats) else { continue };
        let a = rho1 - rho0;
        if a == F::ZERO {
            continue;
        }
        let Some(rho2) = probe(F::from(2), budget, stats) else { continue };
        if rho2 - rho1 != a {
            continue;
        }
        stats.repairs_found += 1;
        let mut p2 = plan.clone();
        p2.insert(i, Fault::Set(v0 - rho0 * a.invert().unwrap()));
        search_arena(cx, p2, anchor, depth - 1, budget, stats)?;
    }
    Ok(())
}

/// Runs S5 on one honest run. `log`: the assignment records of the honest run; `honest`: its
/// prover; `inst`: the honest public values.
pub fn check_lookup_tuples<A: Arena + Sync>(arena: &A, log: &[AssignRecord], honest: &MockProver<F>, inst: &[F], seed: u64, max_classes: usize, budget_per_tuple: usize) -> Result<(S5Stats, Verdict), Failure> {
    let mut stats = S5Stats::default();
    let mut cell_to_assign: HashMap<(usize, usize), usize> = HashMap::new();
    let mut assign_cell = HashMap::new();
    let mut rec_of: HashMap<usize, &AssignRecord> = HashMap::new();
    for rec in log {
        if let Some(r) = rec.abs_row {
            cell_to_assign.insert((rec.column, r), rec.index);
            assign_cell.insert(rec.index, (rec.column, r));
            rec_of.insert(rec.index, rec);
        }
    }
    let perm = honest.permutation();
    let tables = Tables { cols: perm.columns().to_vec(), mapping: perm.mapping().map(|c| c.collect::<Vec<_>>()).collect() };
    let usable = honest.usable_rows().clone();
    let n = honest.advice().first().map(|c| c.len()).unwrap_or(1) as i64;
    let key = |f: &F| f_to_big(f);
    // (lookup, column, offset in region) -> candidate (row, advice slots with their cells)
    type Cand = (usize, usize, Vec<(usize, usize)>); // (lookup index, row, [(slot, assign index)])
    let mut classes: std::collections::BTreeMap<(usize, u64, usize, usize), Vec<Cand>> = Default::default();
    // shape of the region an assignment belongs to (sequence of (column, offset) assigned in it)
    let mut regions: std::collections::BTreeMap<usize, Vec<(usize, usize)>> = Default::default();
    for rec in log {
        if let Some(a) = rec.abs_row {
            if a >= rec.offset {
                regions.entry(a - rec.offset).or_default().push((rec.column, rec.offset));
            }
        }
    }
    let shape_of: HashMap<usize, u64> = regions
        .into_iter()
        // in assignment order and with repetitions: a region that assigns a cell twice (a copied
        // constant overwritten by a computed value) differs from one that does not
        .map(|(start, sh)| (start, vpcore::digest(&format!("{sh:?}"))))
        .collect();
    let mut lookup_bound: HashSet<usize> = HashSet::new();
    let mut table_index: Vec<HashMap<Vec<BigUint>, Vec<Vec<F>>>> = vec![];
    let mut slots_of: Vec<Vec<Option<(usize, i32)>>> = vec![];
    for (li, lk) in honest.cs().lookups().iter().enumerate() {
        let slots: Vec<Option<(usize, i32)>> = lk.input_expressions().iter().map(|e| { let q = advice_queries(e); if q.len() == 1 { Some(q[0]) } else { None } }).collect();
        let mut idx: HashMap<Vec<BigUint>, Vec<Vec<F>>> = HashMap::new();
        if slots.iter().any(|s| s.is_some()) {
            stats.lookups += 1;
            let mut seen = HashSet::new();
            for r in usable.clone() {
                let t: Vec<F> = lk.table_expressions().iter().map(|e| eval(honest, e, r)).collect();
                let full: Vec<BigUint> = t.iter().map(key).collect();
                if !seen.insert(full) {
                    continue;
                }
                let k: Vec<BigUint> = t.iter().zip(&slots).filter(|(_, s)| s.is_none()).map(|(v, _)| key(v)).collect();
                idx.entry(k).or_default().push(t);
            }
            for r in usable.clone() {
                let mut cells = vec![];
                let mut ok = true;
                for (j, s) in slots.iter().enumerate() {
                    if let Some((c, rot)) = s {
                        let rr = (r as i64 + *rot as i64).rem_euclid(n) as usize;
                        match cell_to_assign.get(&(*c, rr)) {
                            Some(i) => {
                                // the slot carries the cell's value on this row (selector on)
                                if eval(honest, &lk.input_expressions()[j], r) != cell(honest, *c, rr) {
                                    ok = false;
                                }
                                cells.push((j, *i));
                            }
                            None => ok = false,
                        }
                    }
                }
                if ok && !cells.is_empty() {
                    let rec = rec_of[&cells[0].1];
                    let shape = rec.abs_row.and_then(|a| a.checked_sub(rec.offset)).and_then(|s| shape_of.get(&s)).copied().unwrap_or(0);
                    lookup_bound.extend(cells.iter().map(|(_, i)| *i));
                    classes.entry((li, shape, rec.column, rec.offset)).or_default().push((li, r, cells));
                }
            }
        }
        table_index.push(idx);
        slots_of.push(slots);
    }
    stats.classes = classes.len();
    let mut rng = SplitMix(seed);
    // per class: one occurrence drawn at random, and up to four more that are only used when
    // a substitution in the previous one was accepted without any effect on the public values
    let mut reps: Vec<Vec<Cand>> = classes
        .values()
        .map(|v| {
            let mut picked: Vec<usize> = vec![];
            for _ in 0..5.min(v.len()) {
                let i = rng.below(v.len() as u64) as usize;
                if !picked.contains(&i) {
                    picked.push(i);
                }
            }
            picked.into_iter().map(|i| v[i].clone()).collect()
        })
        .collect();
    for i in (1..reps.len()).rev() {
        reps.swap(i, rng.below(i as u64 + 1) as usize);
    }
    reps.truncate(max_classes);
    let cx = ArenaCtx { arena, inst, honest, tables: &tables, assign_cell: &assign_cell, n_assign: log.len(), window: 10, max_candidates: 10, cell_assign: &cell_to_assign, lookup_bound: &lookup_bound, n_rows: n };
    // the representatives are independent of each other: spread them over worker threads
    let threads: usize = std::env::var("VP_S5_THREADS").ok().and_then(|s| s.parse().ok()).unwrap_or(6).max(1);
    let next = std::sync::atomic::AtomicUsize::new(0);
    let stop = std::sync::atomic::AtomicBool::new(false);
    let results: Vec<(S5Stats, Option<(usize, Failure)>)> = std::thread::scope(|sc| {
        let handles: Vec<_> = (0..threads)
            .map(|_| {
                sc.spawn(|| {
                    let mut st = S5Stats::default();
                    let mut fail: Option<(usize, Failure)> = None;
                    loop {
                        let ri = next.fetch_add(1, std::sync::atomic::Ordering::SeqCst);
                        if ri >= reps.len() || stop.load(std::sync::atomic::Ordering::SeqCst) {
                            break;
                        }
                        let mut escalate = true;
                        for (li, r, cells) in &reps[ri] {
                        if !escalate || fail.is_some() {
                            break;
                        }
                        let same_before = st.accepted_same;
                        escalate = false;
                        let (li, r) = (*li, *r);
                        let lk = &honest.cs().lookups()[li];
                        let u: Vec<F> = lk.input_expressions().iter().map(|e| eval(honest, e, r)).collect();
                        let k: Vec<BigUint> = u.iter().zip(&slots_of[li]).filter(|(_, s)| s.is_none()).map(|(v, _)| key(v)).collect();
                        let Some(rows) = table_index[li].get(&k) else { continue };
                        let a0 = cells[0].0;
                        // alternatives: table rows whose first advice slot is close to the present value
                        let v0 = f_to_big(&u[a0]);
                        let mut alts: Vec<&Vec<F>> = rows.iter().filter(|t| **t != u).collect();
                        alts.sort_by_key(|t| {
                            let d = f_to_big(&t[a0]);
                            if d > v0 { &d - &v0 } else { &v0 - &d + BigUint::from(1u32 << 20) }
                        });
                        // the nearest row and one drawn pseudo-randomly
                        let mut rr = SplitMix(seed ^ (ri as u64).wrapping_mul(0x9e37_79b9_7f4a_7c15));
                        let pick = if alts.len() > 1 { 1 + rr.below(alts.len() as u64 - 1) as usize } else { 0 };
                        let mut chosen: Vec<&Vec<F>> = alts.iter().enumerate().filter(|(i, _)| *i == 0 || *i == pick).map(|(_, t)| *t).collect();
                        let mut extra = 3;
                        let mut ci = 0;
                        while ci < chosen.len() {
                            let t = chosen[ci];
                            ci += 1;
                            let before = st.accepted_correct;
                            st.tuples_tried += 1;
                            let plan: HashMap<usize, Fault<F>> = cells.iter().map(|(j, i)| (*i, Fault::Set(t[*j]))).collect();
                            let mut budget = budget_per_tuple;
                            if let Err(f) = search_arena(&cx, plan, cells[0].1, 2, &mut budget, &mut st) {
                                fail = Some((ri, f));
                                stop.store(true, std::sync::atomic::Ordering::SeqCst);
                                break;
                            }
                            // the substitution was accepted without changing the public values'
                            // meaning: the cells are free here, try other rows of the table
                            if st.accepted_correct > before && extra > 0 && alts.len() > 2 {
                                extra -= 1;
                                chosen.push(alts[1 + rr.below(alts.len() as u64 - 1) as usize]);
                            }
                        }
                        escalate = st.accepted_same > same_before;
                        if std::env::var("VP_S5_TRACE").is_ok() {
                            let rec = rec_of[&cells[0].1];
                            eprintln!("S5 {} rep {ri}: lookup {li} row {r} col {} off {} v0={v0} alts={} -> tuples {} replays {} repairs {} acc-correct {}", arena.arena_name(), rec.column, rec.offset, alts.len(), st.tuples_tried, st.replays, st.repairs_found, st.accepted_correct);
                        }
                        }
                        if fail.is_some() {
                            break;
                        }
                    }
                    (st, fail)
                })
            })
            .collect();
        handles.into_iter().map(|h| h.join().expect("S5 worker")).collect()
    });
    let mut first: Option<(usize, Failure)> = None;
    for (st, f) in results {
        stats.tuples_tried += st.tuples_tried;
        stats.replays += st.replays;
        stats.repairs_found += st.repairs_found;
        stats.accepted_correct += st.accepted_correct;
        stats.accepted_same += st.accepted_same;
        if let Some((ri, f)) = f {
            if first.as_ref().map(|(r0, _)| ri < *r0).unwrap_or(true) {
                first = Some((ri, f));
            }
        }
    }
    if let Some((_, f)) = first {
        return Err(f);
    }
    let v = Verdict::of(stats.tuples_tried > 0, "lookup-tuples").with(format!("classes:{}", match stats.classes { 0 => "0", 1..=19 => "1-19", 20..=99 => "20-99", _ => "100+" })).with(format!("repairs:{}", if stats.repairs_found > 0 { ">0" } else { "0" }));
    Ok((stats, v))
}
